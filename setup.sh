#!/bin/sh
# Offline setup after a fresh restore: overlay build of /repo's working tree, translators
# (lean/SkNet/Generated/*), then every module of the Lean library. Nothing is fetched.
cd "$(dirname "$0")" || exit 2
exec /venv/bin/python -u tools/vlib/gen_all.py
