#!/bin/sh
# Offline setup after a fresh restore: overlay build of /repo's working tree, then the whole Lean library.
cd "$(dirname "$0")" || exit 2
set -e
/venv/bin/python tools/vlib/overlay.py > /dev/null
cd lean && lake build 2>&1 | tail -5
