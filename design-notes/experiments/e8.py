import numpy as np, warnings
from scipy import sparse
warnings.filterwarnings('ignore')
from sknetwork.ranking import PageRank, Katz, HITS, Closeness, Betweenness
from sknetwork.data import erdos_renyi
def pr_true(A, a, y):
    A = A.toarray().astype(float); n=len(A); d=A.sum(1)
    P = np.zeros((n,n))
    for i in range(n):
        if d[i]>0: P[i]=A[i]/d[i]
    # x = a P^T x + (restart mass) y ; sinks always restart
    # stationary of chain: from i: with prob a*(d>0) follow link, else restart y
    M = np.zeros((n,n))
    for i in range(n):
        cont = a if d[i]>0 else 0
        M[i] = cont*P[i] + (1-cont)*y
    w,v = np.linalg.eig(M.T); k=np.argmin(abs(w-1)); x=np.real(v[:,k]); return x/x.sum()
rng=np.random.RandomState(0)
n=8
A = sparse.csr_matrix((rng.rand(n,n)<0.3)*rng.randint(1,4,(n,n)))
A.setdiag(0); A.eliminate_zeros()
A[3,:]=0; A.eliminate_zeros()   # sink
A = sparse.csr_matrix(A)
y = np.zeros(n); y[0]=1; y[5]=3; y/=y.sum()
t = pr_true(A, .85, y)
for solver in ['piteration','diteration','lanczos','bicgstab','RH','push']:
    try:
        s = PageRank(solver=solver, n_iter=300, tol=1e-10).fit_predict(A, y)
        print(solver, np.abs(s-t).max())
    except Exception as ex: print(solver, 'EXC', type(ex).__name__, ex)
print('uniform restart:')
t = pr_true(A, .85, np.ones(n)/n)
for solver in ['piteration','diteration','lanczos','bicgstab','RH','push']:
    s = PageRank(solver=solver, n_iter=300, tol=1e-10).fit_predict(A)
    print(solver, np.abs(s-t).max())
Au = sparse.csr_matrix(((A+A.T)>0).astype(int))
t = pr_true(Au, .85, np.ones(n)/n)
print('undirected unweighted no sink uniform:')
for solver in ['piteration','diteration','lanczos','bicgstab','RH','push']:
    s = PageRank(solver=solver, n_iter=300, tol=1e-10).fit_predict(Au)
    print(solver, np.abs(s-t).max())
