import warnings; warnings.filterwarnings('ignore')
from sknetwork.classification import Propagation
from sknetwork.data import cyclic_digraph
import numpy as np
p=Propagation(); print(p.fit_predict(cyclic_digraph(3)))
