import numpy as np, warnings
from scipy import sparse
warnings.filterwarnings('ignore')
from sknetwork.path import get_shortest_path, get_distances
from sknetwork.data import house, cyclic_digraph
A = cyclic_digraph(4)
print("dist fb", get_distances(A, source=0, force_bipartite=True))
try:
    p = get_shortest_path(A, source=0, force_bipartite=True)
    print("sp fb shape", p.shape, p.toarray().astype(int))
except Exception as e: print("sp fb EXC", type(e), e)
p = get_shortest_path(A, source_row=0)
print("sp src_row shape", p.shape)
# aggregate_dendrogram counts
from sknetwork.hierarchy import aggregate_dendrogram, cut_straight, Paris, cut_balanced
D = np.array([[0,1,1.,2],[2,3,2.,2],[4,5,3.,4],[6,7,4.,5]])  # 5 leaves: 0..4 ; node 5=(0,1),6=(2,3),7=(4,5),8=(6,7)
for k in [1,2,3,4,5]:
    try:
        nd, c = aggregate_dendrogram(D, n_clusters=k, return_counts=True)
        print("agg", k, c, c.sum())
    except Exception as e: print("agg EXC", k, type(e), e)
for k in [1,2,5]:
    try: print("cut", k, cut_straight(D, n_clusters=k))
    except Exception as e: print("cut EXC", k, type(e).__name__, e)
