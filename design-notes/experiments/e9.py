import numpy as np, warnings, itertools
from scipy import sparse
warnings.filterwarnings('ignore')
from sknetwork.ranking import PageRank, Katz, HITS, Closeness, Betweenness

rng=np.random.RandomState(1)
n=8
M = (rng.rand(n,n)<0.4)*rng.randint(1,4,(n,n)); np.fill_diagonal(M,0)
for i in range(n):
    if M[i].sum()==0: M[i,(i+1)%n]=2
A = sparse.csr_matrix(M)
def pr_true(A, a, y):
    A = A.toarray().astype(float); n=len(A); d=A.sum(1)
    P = np.zeros((n,n))
    for i in range(n):
        if d[i]>0: P[i]=A[i]/d[i]
    x = np.linalg.solve(np.eye(n)-a*P.T, y); return x/x.sum()
y = rng.rand(n); y/=y.sum()
t = pr_true(A,.85,y)
for solver in ['piteration','lanczos','bicgstab','RH']:
    s = PageRank(solver=solver, n_iter=300, tol=1e-12).fit_predict(A, y); print('nosink', solver, abs(s-t).max())
# Katz
K = Katz(damping_factor=0.3, path_length=5).fit_predict(A)
Ab = (M>0).astype(float); kt = sum((0.3**k)*np.linalg.matrix_power(Ab,k).T@np.ones(n) for k in range(1,6))
print('katz', abs(K-kt).max())

def bfs(adj,s):
    n=len(adj);d=[-1]*n;d[s]=0;q=[s];sig=[0]*n;sig[s]=1
    for u in q:
        for v in np.flatnonzero(adj[u]):
            if d[v]<0: d[v]=d[u]+1;q.append(v)
            if d[v]==d[u]+1: sig[v]+=sig[u]
    return d,sig
Mu=np.zeros((12,12),int)
for i in range(12):
    for k in (1,2): Mu[i,(i+k)%12]=Mu[(i+k)%12,i]=1
Mu[0,6]=Mu[6,0]=1; Mu[1,2]=Mu[2,1]=0; Mu[5,7]=Mu[7,5]=0
Au=sparse.csr_matrix(Mu)
D=[];S=[]
for s_ in range(12):
    d,sg=bfs(Mu,s_);D.append(d);S.append(sg)
D=np.array(D);S=np.array(S,float)
ct=(12-1)/D.sum(1)
c=Closeness().fit_predict(Au);print('closeness',abs(c-ct).max())
bt=np.zeros(12)
for s_ in range(12):
    for t_ in range(12):
        if s_==t_:continue
        for v in range(12):
            if v in (s_,t_):continue
            if D[s_,v]+D[v,t_]==D[s_,t_]: bt[v]+=S[s_,v]*S[v,t_]/S[s_,t_]
bt/=2
b=Betweenness().fit_predict(Au);print('betweenness',abs(b-bt).max())
h = HITS().fit(A); u,s,vt = np.linalg.svd(M.astype(float)); print('hits', abs(abs(u[:,0])-h.scores_row_).max(), abs(abs(vt[0])-h.scores_col_).max())
