import numpy as np, warnings, itertools
from scipy import sparse
warnings.filterwarnings('ignore')
from sknetwork.topology import count_triangles, count_cliques, get_core_decomposition, get_clustering_coefficient, is_bipartite, is_acyclic, get_cycles, break_cycles, get_connected_components, color_weisfeiler_lehman, are_isomorphic, get_largest_connected_component
def graphs(n):
    pairs=list(itertools.combinations(range(n),2))
    for mask in range(1<<len(pairs)):
        M=np.zeros((n,n),int)
        for k,(i,j) in enumerate(pairs):
            if mask>>k&1: M[i,j]=M[j,i]=1
        yield M
def cliques(M,k):
    n=len(M); return sum(1 for c in itertools.combinations(range(n),k) if all(M[a,b] for a,b in itertools.combinations(c,2)))
def core(M):
    n=len(M); res=np.zeros(n,int)
    for k in range(1,n):
        alive=np.ones(n,bool)
        ch=True
        while ch:
            ch=False
            for v in range(n):
                if alive[v] and (M[v]*alive).sum()<k: alive[v]=False; ch=True
        res[alive]=k
    return res
bad={}
cnt=0
for n in [2,3,4,5]:
    for M in graphs(n):
        if M.sum()==0: continue
        cnt+=1
        A=sparse.csr_matrix(M)
        try:
            if count_triangles(A)!=cliques(M,3): bad.setdefault('tri',M)
            if count_triangles(A,parallelize=True)!=cliques(M,3): bad.setdefault('tripar',M)
            for k in range(2,n+1):
                if count_cliques(A,k)!=cliques(M,k): bad.setdefault(('clique',k),M)
            if (get_core_decomposition(A)!=core(M)).any(): bad.setdefault('core',M)
        except Exception as ex: bad.setdefault(('exc',type(ex).__name__,str(ex)),M)
print(cnt, 'graphs; bad:', {k:v.tolist() for k,v in bad.items()})
