import numpy as np, warnings, itertools
from scipy import sparse
warnings.filterwarnings('ignore')
from sknetwork.topology import is_bipartite, is_acyclic, get_cycles, break_cycles
from sknetwork.hierarchy import Paris, LouvainHierarchy, LouvainIteration
from sknetwork.clustering import Louvain, Leiden, PropagationClustering, KCenters, get_modularity
def graphs(n, loops=False):
    pairs=list(itertools.combinations(range(n),2))+([(i,i) for i in range(n)] if loops else [])
    for mask in range(1<<len(pairs)):
        M=np.zeros((n,n),int)
        for k,(i,j) in enumerate(pairs):
            if mask>>k&1: M[i,j]=M[j,i]=1
        yield M
def comps(M):
    n=len(M); lab=-np.ones(n,int); c=0
    for s in range(n):
        if lab[s]<0:
            st=[s]; lab[s]=c
            while st:
                u=st.pop()
                for v in np.flatnonzero(M[u]):
                    if lab[v]<0: lab[v]=c; st.append(v)
            c+=1
    return lab,c
def bip(M):
    n=len(M)
    if M.diagonal().any(): return False
    for colors in itertools.product([0,1],repeat=n):
        if all(not M[i,j] or colors[i]!=colors[j] for i in range(n) for j in range(i+1,n)): return True
    return False
def valid_dendro(D,n):
    if D.shape!=(n-1,4): return 'shape'
    avail={i:1 for i in range(n)}
    for t in range(n-1):
        i,j=int(D[t,0]),int(D[t,1])
        if i==j or i not in avail or j not in avail: return 'merge %d'%t
        s=avail.pop(i)+avail.pop(j)
        if D[t,3]!=s: return 'size %d'%t
        avail[n+t]=s
    if D[-1,3]!=n: return 'last size'
    if (np.diff(D[:,2])<0).any(): return 'heights'
    return None
bad={}; cnt=0
for n in [2,3,4,5]:
    for M in graphs(n, loops=(n<=4)):
        if M.sum()==0: continue
        cnt+=1
        A=sparse.csr_matrix(M)
        lab,c=comps(M)
        nloops=int(M.diagonal().sum()); m=(M.sum()-nloops)//2
        acyc = (nloops==0) and (c==n-m)
        try:
            if is_bipartite(A)!=bip(M): bad.setdefault('is_bipartite',M)
            if is_acyclic(A)!=acyc: bad.setdefault('is_acyclic',M)
            cyc=get_cycles(A)
            if (len(cyc)==0)!=acyc: bad.setdefault('get_cycles empty iff acyclic',M)
            seen=set()
            for cy in cyc:
                cy=[int(x) for x in cy]
                if len(set(cy))!=len(cy): bad.setdefault('cycle not simple',M)
                if len(cy)==2: bad.setdefault('cycle len2 undirected',M)
                if not all(M[cy[k],cy[(k+1)%len(cy)]] for k in range(len(cy))): bad.setdefault('cycle not in graph',M)
        except Exception as ex: bad.setdefault(('topo exc',type(ex).__name__,str(ex)[:80]),M)
        if n>=2:
            for name,alg in [('paris',Paris()),('lh',LouvainHierarchy()),('li',LouvainIteration())]:
                try:
                    D=alg.fit_predict(A); r=valid_dendro(D,n)
                    if r: bad.setdefault((name,r),M)
                except Exception as ex: bad.setdefault((name,'exc',type(ex).__name__,str(ex)[:60]),M)
        for name,alg in [('louvain',Louvain()),('leiden',Leiden()),('prop',PropagationClustering())]:
            try:
                alg.fit(A); l=alg.labels_
                k=l.max()+1
                if set(l)!=set(range(k)): bad.setdefault((name,'contig'),M)
                sizes=np.bincount(l)
                if (np.diff(sizes)>0).any(): bad.setdefault((name,'sorted'),M)
                for a_,b_ in itertools.combinations(range(n),2):
                    if l[a_]==l[b_] and lab[a_]!=lab[b_] and name!='prop': bad.setdefault((name,'crosses components'),M)
                P=alg.probs_.toarray(); 
                if not np.allclose(P.sum(1), (M.sum(1)>0)*1.0): bad.setdefault((name,'probs rows'),M)
                if not np.isclose(alg.aggregate_.sum(), M.sum()): bad.setdefault((name,'aggregate total'),M)
            except Exception as ex: bad.setdefault((name,'exc',type(ex).__name__,str(ex)[:60]),M)
print(cnt,'graphs; bad:')
for k,v in bad.items(): print(k, v.tolist())
