import numpy as np, warnings, itertools
from scipy import sparse
warnings.filterwarnings('ignore')
from sknetwork.topology import is_bipartite, is_acyclic, get_cycles, break_cycles, get_connected_components
from sknetwork.path import get_distances
def digraphs(n, loops=False):
    pairs=[(i,j) for i in range(n) for j in range(n) if loops or i!=j]
    for mask in range(1<<len(pairs)):
        M=np.zeros((n,n),int)
        for k,(i,j) in enumerate(pairs):
            if mask>>k&1: M[i,j]=1
        yield M
def simple_cycles_dir(M):
    n=len(M); res=set()
    def dfs(start,v,path):
        for w in np.flatnonzero(M[v]):
            if w==start: res.add(tuple(path))
            elif w>start and w not in path: dfs(start,w,path+[w])
    for s in range(n):
        if M[s,s]: pass
        dfs(s,s,[s])
    return res
def reach(M,roots):
    n=len(M); seen=set(roots); st=list(roots)
    while st:
        u=st.pop()
        for v in np.flatnonzero(M[u]):
            if v not in seen: seen.add(v); st.append(v)
    return seen
bad={}; cnt=0
for n in [2,3,4]:
    for M in digraphs(n, loops=(n<=3)):
        if M.sum()==0: continue
        cnt+=1
        A=sparse.csr_matrix(M)
        truth=simple_cycles_dir(M)   # includes self loops as (s,)
        acyc = len(truth)==0
        try:
            if is_acyclic(A, directed=True)!=acyc: bad.setdefault('is_acyclic',M)
            cyc=get_cycles(A, directed=True)
            got=set()
            for c in cyc:
                c=[int(x) for x in c]; k=c.index(min(c)); got.add(tuple(c[k:]+c[:k]))
            if got!=truth or len(cyc)!=len(got): bad.setdefault('get_cycles',M)
            for root in range(n):
                if M[root].sum()==0: continue
                try:
                    B=break_cycles(A.copy(), root, directed=True)
                except Exception as ex:
                    bad.setdefault(('break exc',type(ex).__name__,str(ex)[:60]),(M,root)); continue
                Bm=B.toarray()
                if len(simple_cycles_dir((Bm>0).astype(int)))>0: bad.setdefault('break not acyclic',(M,root))
                if ((Bm>0)&(M==0)).any(): bad.setdefault('break not subgraph',(M,root))
                if reach(M,[root])!=reach((Bm>0).astype(int),[root]): bad.setdefault('break reach',(M,root))
        except Exception as ex: bad.setdefault(('exc',type(ex).__name__,str(ex)[:80]),M)
print(cnt,'digraphs; bad:')
for k,v in bad.items(): print(k, v[0].tolist() if isinstance(v,tuple) else v.tolist(), v[1] if isinstance(v,tuple) else '')
