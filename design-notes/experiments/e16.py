import numpy as np, warnings, itertools
from scipy import sparse
warnings.filterwarnings('ignore')
rng=np.random.RandomState(0)
from sknetwork.ranking import PageRank, Katz, Closeness, Betweenness
from sknetwork.path import get_distances, get_shortest_path
from sknetwork.topology import get_core_decomposition, color_weisfeiler_lehman, are_isomorphic, count_triangles, count_cliques
from sknetwork.regression import Diffusion, Dirichlet
from sknetwork.classification import DiffusionClassifier, PageRankClassifier
from sknetwork.clustering import get_modularity
from sknetwork.hierarchy import Paris, dasgupta_cost
from sknetwork.embedding import Spectral, GSVD, SVD
def perm(A,p):  # new index p[i] for old i
    n=A.shape[0]; P=sparse.csr_matrix((np.ones(n),(p,np.arange(n))),shape=(n,n)); return sparse.csr_matrix(P@A@P.T)
bad={}
for s in range(40):
    n=9
    M=(rng.rand(n,n)<0.3)*rng.randint(1,4,(n,n)); np.fill_diagonal(M,0)
    if s%2==0: M=M+M.T
    for i in range(n):
        if M[i].sum()==0: M[i,(i+1)%n]=1; 
        if s%2==0: M[(i+1)%n,i]=M[i,(i+1)%n]
    A=sparse.csr_matrix(M.astype(float)); p=rng.permutation(n); B=perm(A,p)
    def eqv(name,f,tol=1e-8):
        a=f(A); b=f(B)
        if not np.allclose(b[p], a, atol=tol): bad.setdefault(name,(s,))
    def inv(name,f,tol=1e-8):
        if not np.allclose(f(A),f(B),atol=tol): bad.setdefault(name,(s,))
    eqv('pagerank', lambda X: PageRank(n_iter=100).fit_predict(X))
    eqv('pagerank RH', lambda X: PageRank(solver='RH',n_iter=50).fit_predict(X))
    eqv('katz', lambda X: Katz().fit_predict(X))
    src=int(rng.randint(n))
    a=get_distances(A,src); b=get_distances(B,int(p[src]))
    if not (b[p]==a).all(): bad.setdefault('dist',(s,))
    eqv('core', lambda X: get_core_decomposition(sparse.csr_matrix(((X+X.T)>0).astype(int))).astype(float))
    inv('tri', lambda X: count_triangles(X)); inv('cl4', lambda X: count_cliques(sparse.csr_matrix(((X+X.T)>0).astype(int)),4))
    wa=color_weisfeiler_lehman(A); wb=color_weisfeiler_lehman(B)
    if not (wb[p]==wa).all(): bad.setdefault('wl',(s,wa.tolist(),wb[p].tolist()))
    if not are_isomorphic(A,B): bad.setdefault('iso',(s,))
    vals={0:1.0, 3:0.0, 5:0.4}; valsB={int(p[k]):v for k,v in vals.items()}
    for cls in [Diffusion, Dirichlet]:
        a=cls(n_iter=7).fit_predict(A,vals); b=cls(n_iter=7).fit_predict(B,valsB)
        if not np.allclose(b[p],a): bad.setdefault(cls.__name__,(s,))
        lo,hi=0.0,1.0
        if (a<lo-1e-12).any() or (a>hi+1e-12).any(): bad.setdefault(cls.__name__+' bounds',(s,a.tolist()))
    d=Dirichlet(n_iter=5).fit_predict(A,vals)
    if not all(abs(d[k]-v)<1e-15 for k,v in vals.items()): bad.setdefault('dirichlet boundary',(s,))
    lab=rng.randint(0,3,n); labB=np.zeros(n,int); labB[p]=lab
    if abs(get_modularity(A,lab)-get_modularity(B,labB))>1e-12: bad.setdefault('modularity',(s,))
    if s%2==0:
        eqv('closeness', lambda X: Closeness().fit_predict(X)); eqv('betweenness', lambda X: Betweenness().fit_predict(X), 1e-5)
        sp=Spectral(3).fit(A); L=np.diag(1/M.sum(1))@M
        R=L@sp.eigenvectors_ - sp.eigenvectors_*sp.eigenvalues_
        if abs(R).max()>1e-8: bad.setdefault('spectral residual',(s,abs(R).max()))
        sb=Spectral(3).fit(B)
        if not np.allclose(np.sort(sp.eigenvalues_),np.sort(sb.eigenvalues_)): bad.setdefault('spectral eig inv',(s,))
        g=GSVD(3).fit(A); e=g.predict(A.toarray()[2]); 
        if not np.allclose(e, g.embedding_row_[2], atol=1e-8): bad.setdefault('gsvd predict',(s,abs(e-g.embedding_row_[2]).max()))
        g=GSVD(3, regularization=0.5, factor_singular=0.3, normalized=False).fit(A); e=g.predict(A.toarray()[2]);
        if not np.allclose(e, g.embedding_row_[2], atol=1e-8): bad.setdefault('gsvd predict reg',(s,abs(e-g.embedding_row_[2]).max()))
print('bad:', bad)
