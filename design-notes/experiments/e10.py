import numpy as np, warnings, os, tempfile, tarfile, io
from scipy import sparse
warnings.filterwarnings('ignore')
from sknetwork.data import from_edge_list
from sknetwork.data.load import is_within_directory, safe_extract
print(from_edge_list([(0,1),(1,0),(1,2)], weighted=False).toarray().astype(int))
print(from_edge_list([(0,1),(1,0),(1,2)], weighted=True).toarray())
print(from_edge_list([(0,1,2),(0,1,3),(1,2,1)], sum_duplicates=False, directed=True).toarray())
print('within', is_within_directory('/d/foo', '/d/foo/../foo_evil/x'), is_within_directory('/d/foo','/d/foo/a'), is_within_directory('/d/foo','/d/bar'))
d = tempfile.mkdtemp()
os.makedirs(d+'/data')
buf = io.BytesIO()
with tarfile.open(fileobj=buf, mode='w') as t:
    ti = tarfile.TarInfo('../data_evil/x.txt'); b=b'hello'; ti.size=len(b); t.addfile(ti, io.BytesIO(b))
buf.seek(0)
with tarfile.open(fileobj=buf) as t:
    try:
        safe_extract(t, d+'/data'); print('extracted; outside exists:', os.path.exists(d+'/data_evil/x.txt'))
    except Exception as ex: print('safe_extract EXC', ex)
import shutil; shutil.rmtree(d)
# BCE gradient
from sknetwork.gnn.loss import BinaryCrossEntropy, CrossEntropy
rng=np.random.RandomState(0)
def numgrad(L, s, lab, eps=1e-6):
    g=np.zeros_like(s)
    for i in range(s.shape[0]):
        for j in range(s.shape[1]):
            sp=s.copy(); sp[i,j]+=eps; sm=s.copy(); sm[i,j]-=eps
            g[i,j]=(L.loss(sp,lab)-L.loss(sm,lab))/(2*eps)
    return g*len(lab)
for L,c in [(CrossEntropy(),3),(BinaryCrossEntropy(),1),(BinaryCrossEntropy(),3)]:
    s=rng.randn(5,c); lab=rng.randint(0,max(c,2),5)
    print(type(L).__name__, c, abs(numgrad(L,s,lab)-L.loss_gradient(s,lab)).max())
from sknetwork.gnn import GNNClassifier
from sknetwork.data import karate_club
g=karate_club(metadata=True)
gnn=GNNClassifier(dims=1, early_stopping=False); gnn.fit(g.adjacency, g.adjacency, g.labels, n_epochs=3, random_state=1)
try: print(gnn.predict_proba().shape)
except Exception as ex: print('predict_proba EXC', type(ex).__name__, ex)
# svg
from sknetwork.visualization import svg_graph, svg_dendrogram, svg_bigraph
import xml.etree.ElementTree as ET
A=g.adjacency[:5][:,:5]
names=['a<b','c&d','"q"',"e'f",'é中']
for f,args in [(svg_graph,(A,)),]:
    s=f(A, position=np.random.RandomState(0).rand(5,2), names=names)
    try: ET.fromstring(s); print('graph xml ok')
    except Exception as ex: print('graph xml BAD', ex)
D=np.array([[0,1,1.,2],[2,3,2.,2],[4,5,3.,3],[6,7,4.,5]])
s=svg_dendrogram(D, names=names)
try: ET.fromstring(s); print('dendro xml ok')
except Exception as ex: print('dendro xml BAD', ex)
s=svg_graph(A, position=np.random.RandomState(0).rand(5,2), names=['a\x01b']*5)
try: ET.fromstring(s); print('ctrl xml ok')
except Exception as ex: print('ctrl xml BAD', ex)
B=sparse.csr_matrix(np.array([[1,0,2.],[0,0,1.]])); B.data[0]=0
nnz=B.nnz; svg_graph(sparse.csr_matrix(np.array([[0,1.],[1,0]])) ); 
C=sparse.csr_matrix(np.array([[0,1.,1],[1,0,0],[1,0,0]])); C.data[0]=0; n0=C.nnz; svg_graph(C, position=np.random.rand(3,2)); print('nnz before/after', n0, C.nnz)
