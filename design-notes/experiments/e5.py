import numpy as np, warnings
from scipy import sparse
warnings.filterwarnings('ignore')
from sknetwork.clustering import Leiden, Louvain, KCenters, PropagationClustering
from sknetwork.data import karate_club, house, painters, star_wars
A = karate_club()
# Leiden dense
for cls in [Louvain, Leiden, PropagationClustering]:
    a = cls().fit(A)
    try:
        b = cls().fit(A.toarray())
        print(cls.__name__, 'dense same labels', (a.labels_==b.labels_).all(), 'probs diff', abs(a.probs_-b.probs_).max() if b.probs_ is not None else None)
    except Exception as ex: print(cls.__name__, 'dense EXC', type(ex).__name__, ex)
    try:
        b = cls().fit(sparse.coo_matrix(A))
        print(cls.__name__, 'coo same labels', (a.labels_==b.labels_).all())
    except Exception as ex: print(cls.__name__, 'coo EXC', type(ex).__name__, ex)
# Leiden determinism across refits in the same process
l1 = Leiden(random_state=0).fit(A).labels_.copy()
diffs=0
for t in range(20):
    l2 = Leiden(random_state=0).fit(A).labels_
    diffs += (l1!=l2).any()
print('leiden refit diffs', diffs)
from sknetwork.data import erdos_renyi, block_model
B = block_model([30,30,30], p_in=0.3, p_out=0.05, seed=1)
l1 = Leiden(random_state=0).fit(B).labels_.copy(); diffs=0
for t in range(20):
    l2 = Leiden(random_state=0).fit(B).labels_
    diffs += (l1!=l2).any()
print('leiden refit diffs block', diffs)
