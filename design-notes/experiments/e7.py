import numpy as np, warnings
from scipy import sparse
warnings.filterwarnings('ignore')
from sknetwork.clustering import Louvain, KCenters
from sknetwork.data import erdos_renyi, karate_club
tot=0
for s in range(30):
    B = erdos_renyi(40, 0.15, seed=s)
    m = Louvain(shuffle_nodes=True, random_state=3)
    l1 = m.fit(B).labels_.copy()
    l2 = m.fit(B).labels_.copy()
    l3 = Louvain(shuffle_nodes=True, random_state=3).fit(B).labels_
    assert (l1==l3).all()
    tot += (l1!=l2).any()
print('louvain shuffle refit != fresh:', tot)
# linalg operators
from sknetwork.linalg import Normalizer, CoNeighbor, Laplacian, Regularizer, SparseLR, Polynome
A = sparse.csr_matrix(np.array([[0,2,0],[1,0,3],[0,0,1.]]))
x = np.array([1.,2.,3.])
N = Normalizer(A); D = np.diag(1/A.toarray().sum(1)) @ A.toarray()
print('Normalizer dot ok', np.allclose(N.dot(x), D@x), 'T ok', np.allclose(N.T.dot(x), D.T@x))
C = CoNeighbor(A); Cd = A.toarray() @ np.diag(1/A.toarray().sum(0)) @ A.toarray().T
print('CoNeighbor ok', np.allclose(C.dot(x), Cd@x), 'T', np.allclose(C.T.dot(x), Cd.T@x))
C2 = -C
print('neg ok', np.allclose(C2.dot(x), -Cd@x), 'orig after neg still', np.allclose(C.dot(x), Cd@x))
L = Laplacian(A+A.T, regularization=0.5, normalized_laplacian=True)
Ad = (A+A.T).toarray(); n=3; Ar = Ad + 0.5*np.ones((n,n))/n; d = Ar.sum(1)
Ld = np.eye(n) - np.diag(d**-.5) @ Ar @ np.diag(d**-.5)
print('Lap norm reg ok', np.allclose(L.dot(x), Ld@x), L.dot(x), Ld@x)
L = Laplacian(A+A.T, regularization=0.5, normalized_laplacian=False)
Ld = np.diag(d) - Ar
print('Lap reg ok', np.allclose(L.dot(x), Ld@x))
from sknetwork.ranking import top_k
try: print(top_k(np.array([1,3,2]), 5, sort=False))
except Exception as ex: print('top_k EXC', type(ex).__name__, ex)
