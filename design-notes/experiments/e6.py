import numpy as np, warnings
from scipy import sparse
warnings.filterwarnings('ignore')
from sknetwork.clustering import Leiden
from sknetwork.data import erdos_renyi
tot=0
for s in range(30):
    B = erdos_renyi(40, 0.15, seed=s)
    if B.nnz==0: continue
    l1 = Leiden().fit(B).labels_.copy()
    l2 = Leiden().fit(B).labels_.copy()
    if (l1!=l2).any():
        tot+=1
print('graphs with refit difference:', tot)
