import numpy as np, warnings, itertools, signal
from scipy import sparse
warnings.filterwarnings('ignore')
from sknetwork.embedding import GSVD, Spectral, SVD, PCA
from sknetwork.ranking import HITS
from sknetwork.data import karate_club, painters
A=karate_club()
for cls in [GSVD, SVD, PCA, Spectral]:
    a=cls(3).fit_transform(A); b=cls(3).fit_transform(A); print(cls.__name__, 'identical', np.array_equal(a,b), abs(a-b).max())
print('HITS identical', np.array_equal(HITS().fit_predict(A), HITS().fit_predict(A)))
# Propagation non-termination search on small digraphs
from sknetwork.classification import Propagation
class TO(Exception): pass
def h(*a): raise TO()
signal.signal(signal.SIGALRM, h)
found=None; cnt=0
n=4
pairs=[(i,j) for i in range(n) for j in range(n) if i!=j]
for mask in range(1,1<<len(pairs)):
    M=np.zeros((n,n),int)
    for k,(i,j) in enumerate(pairs):
        if mask>>k&1: M[i,j]=1
    A_=sparse.csr_matrix(M)
    cnt+=1
    signal.setitimer(signal.ITIMER_REAL, 0.5)
    try:
        Propagation(weighted=False).fit(A_, {0:0,1:1})
        signal.setitimer(signal.ITIMER_REAL, 0)
    except TO:
        found=M; break
    except Exception as ex:
        signal.setitimer(signal.ITIMER_REAL, 0)
print('checked', cnt, 'nonterminating:', None if found is None else found.tolist())
