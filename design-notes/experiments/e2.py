import numpy as np, warnings
warnings.filterwarnings('ignore')
from sknetwork.hierarchy import aggregate_dendrogram, cut_straight, cut_balanced
D = np.array([[0,1,1.,2],[2,3,2.,2],[4,5,3.,3],[6,7,4.,5]])
for k in [1,2,3,4,5]:
    try:
        nd, c = aggregate_dendrogram(D, n_clusters=k, return_counts=True)
        print("agg", k, c, c.sum(), nd.tolist())
    except Exception as e: print("agg EXC", k, type(e).__name__, e)
# cut with return_dendrogram
for k in [2,3,4,5]:
    l, d = cut_straight(D, n_clusters=k, return_dendrogram=True)
    print('cutd', k, l, d.tolist())
# tied heights
D2 = np.array([[0,1,1.,2],[2,3,1.,2],[4,5,1.,4]])
print(cut_straight(D2, n_clusters=2), cut_straight(D2, n_clusters=3), cut_straight(D2, threshold=1.0), cut_straight(D2, threshold=1.5))
print(cut_balanced(D, 2), cut_balanced(D,5))
