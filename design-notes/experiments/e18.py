import numpy as np, warnings; warnings.filterwarnings('ignore')
from sknetwork.gnn import GNNClassifier
from sknetwork.data import karate_club
g=karate_club(metadata=True); A=g.adjacency; lab=g.labels
def run(m): return m.fit(A, A, lab, n_epochs=5, reinit=True, random_state=7).output_.copy()
fresh=run(GNNClassifier(dims=[4,2], early_stopping=False))
m=GNNClassifier(dims=[4,2], early_stopping=False); run(m); again=run(m)
print('refit(reinit=True, same seed) == fresh:', np.array_equal(fresh, again), abs(fresh-again).max())
f2=run(GNNClassifier(dims=[4,2], early_stopping=False)); print('fresh == fresh:', np.array_equal(fresh,f2))
