import numpy as np, warnings
from scipy import sparse
warnings.filterwarnings('ignore')
from sknetwork.classification import Propagation
A = sparse.csr_matrix(np.array([[0,1,0,0,0,0],[1,0,1,0,0,0],[0,1,0,0,0,0],[0,0,0,0,0,0],[0,0,0,0,0,0],[0,0,0,0,0,0]]))
# nnz=4 < n=6 : data[jj] with jj up to 5 -> OOB read when weighted
p = Propagation(); print(p.fit_predict(A, {0:0, 2:1}))
p = Propagation(); print(p.fit_predict(A, {0:7, 2:9}))
