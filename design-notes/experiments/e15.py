import numpy as np, warnings, itertools, re
from scipy import sparse
warnings.filterwarnings('ignore')
from sknetwork.clustering import Louvain, Leiden, get_modularity
from sknetwork.data import erdos_renyi, block_model, karate_club, painters, star_wars, movie_actor
def Qdef(A, labels, weights='degree', res=1.0, labels_col=None):
    A=np.asarray(A.todense(),float)
    if labels_col is not None:
        n1,n2=A.shape; B=np.zeros((n1+n2,n1+n2)); B[:n1,n1:]=A; B[n1:,:n1]=A.T; A=B; labels=np.hstack((labels,labels_col))
    w=A.sum()
    if weights=='degree': o=A.sum(1)/w; i=A.sum(0)/w
    else: n=len(A); o=np.ones(n)/n; i=o
    q=0
    for u in range(len(A)):
        for v in range(len(A)):
            if labels[u]==labels[v]: q+=A[u,v]/w - res*o[u]*i[v]
    return q
rng=np.random.RandomState(0)
bad=0
for s in range(20):
    n=10
    M=(rng.rand(n,n)<0.3)*rng.randint(1,5,(n,n)); np.fill_diagonal(M,0)
    if M.sum()==0: continue
    A=sparse.csr_matrix(M); lab=rng.randint(0,3,n)
    for w in ['degree','uniform']:
        for r in [0.5,1,2]:
            q=get_modularity(A,lab,weights=w,resolution=r); m,f,d=get_modularity(A,lab,weights=w,resolution=r,return_all=True)
            if abs(q-Qdef(A,lab,w,r))>1e-9 or abs(m-(f-r*d))>1e-12: bad+=1
    B=sparse.csr_matrix(M[:6,:8]); 
    if B.nnz:
        q=get_modularity(B, lab[:6], rng.randint(0,3,8)); 
print('get_modularity mismatches', bad)
# Louvain: objective never worse & log
def objective(A, labels, kind, res):
    A=np.asarray(A.todense(),float); n=len(A)
    w=A.sum()
    if kind=='potts': o=np.ones(n)/n; i=o
    elif kind=='newman': o=A.sum(1)/w; i=o
    else: o=A.sum(1)/w; i=A.sum(0)/w
    S=(A+A.T)/ (2*w) if kind!='x' else None
    q=0
    for u in range(n):
        for v in range(n):
            if labels[u]==labels[v]: q+=S[u,v]-res*o[u]*i[v]
    return q
viol=[]
for s in range(40):
    n=12
    sym = s%2==0
    M=(rng.rand(n,n)<0.25)*rng.randint(1,4,(n,n)); np.fill_diagonal(M,0)
    if sym: M=M+M.T
    if M.sum()==0: continue
    A=sparse.csr_matrix(M)
    for cls in [Louvain, Leiden]:
        for kind in ['dugue','newman','potts']:
            for res in [0.5,1,1.7]:
                alg=cls(modularity=kind,resolution=res, shuffle_nodes=(s%3==0), random_state=s)
                try: alg.fit(A)
                except Exception as ex: viol.append((cls.__name__,kind,res,'EXC',str(ex)[:50])); continue
                if alg.bipartite: continue
                l=alg.labels_
                q1=objective(A,l,kind,res); q0=objective(A,np.arange(n),kind,res)
                incs=[float(x) for x in re.findall(r'Increase: ([-\d.e]+)', alg.log)]
                if q1<q0-1e-5: viol.append((cls.__name__,kind,res,'worse',q0,q1))
                if abs((q1-q0)-sum(incs))>2e-3: viol.append((cls.__name__,kind,res,'log',q1-q0,sum(incs)))
print('louvain/leiden violations', len(viol)); print(viol[:8])
