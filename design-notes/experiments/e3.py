import numpy as np, warnings
from scipy import sparse
warnings.filterwarnings('ignore')
from sknetwork.classification import Propagation
# weighted vote: path 0 - 1 - 2 with node1 unlabeled; plus node 3 attached to 1.
# node 1 neighbors: 0 (w=1, label 0), 2 (w=1,label 1), 3 (w=5,label 1)... make weights discriminate vs counts
A = np.zeros((5,5))
def e(i,j,w): A[i,j]=w; A[j,i]=w
e(0,4,10); e(1,4,1); e(2,4,1)   # node 4 unlabeled: label0 vote weight 10 (1 neighbor), label1 weight 2 (2 neighbors)
e(0,3,1)
adj = sparse.csr_matrix(A)
labels = {0:0, 1:1, 2:1}
for w in [True, False]:
    p = Propagation(weighted=w)
    print('weighted', w, p.fit_predict(adj, labels))
# labels >= n
try:
    p = Propagation()
    print(p.fit_predict(adj, {0: 1000000, 1: 2000000}))
except Exception as ex: print('EXC', ex)
