"""C13 — semi-supervised predictions respect the seeds and the local evidence.

Correspondence.  Every case calls the real code (overlay build of the working tree) *in a worker process*
(the vote kernel may crash or loop on a defective tree: a crash or a time-out on an input of the property is
reported as a failing input) and sends
  run  line -> the Lean model (SkNet/Model/Vote.lean, Classify.lean, ClassMetrics.lean) computes the answer
               from the same input; labels, link structure, confusion matrices and errors are compared exactly,
               numbers within EPS after decoding the model's exact rationals
  spec line -> the Lean specification (SkNet/Spec/Classify.lean) evaluated on the implementation's own output:
               labels in the seed set, seeds kept, probability rows, fixed point of the vote, -1 iff unreached,
               k nearest neighbours, link rows, metrics from the confusion matrix.
"""
import json
import os
import select
import subprocess
import sys
import time
from fractions import Fraction

import numpy as np
from scipy import sparse

sys.path.insert(0, os.path.dirname(os.path.dirname(os.path.abspath(__file__))))
from vlib import graphs  # noqa: E402
from vlib.cases import Case, Sub, evaluate as _evaluate
from vlib.core import enc_csr, enc_list, enc_bool, VERIF

PY = '/venv/bin/python'
EPS = '1/1000000000'          # tolerance of DESIGN section 8 for float64 paths
EPS_F = 1e-9
MARGIN = 1e-7                 # a discrete decision is compared exactly only if its margin exceeds this
JOB_TIMEOUT = 10.0            # seconds without an answer from a worker = the call does not return
RETRY_TIMEOUT = 30.0         # a call that gave no answer is run once more, alone, with this limit before it counts as a hang
MAX_TIMEOUTS = 6              # after that many calls that do not return, the remaining calls of the same entry point are skipped
N_WORKERS = 8
# exception classes that are an answer of the code under test; any other class is retried once and then a tool failure
VERDICT_ERRORS = (ValueError, IndexError, TypeError, KeyError, ZeroDivisionError, AssertionError, FloatingPointError,
                  AttributeError, NameError, OverflowError, NotImplementedError)

RULE = ('all directed graphs n<=3 and undirected graphs n=4 (quick: 3 sampled seedings per n<=3 graph, 12 sampled n=4 graphs with 10 '
        'seedings each; thorough: all graphs, all seedings), graphs on 4..7 nodes with two or three seeds (several adjacent nodes to update) with unequal weights x seedings over {-1,a,b[,c]} with at least two classes x weighted/unweighted, '
        'Propagation and DiffusionClassifier on each; structured random graphs n<=12 (undirected, directed, bipartite, disconnected, '
        'unequal dyadic weights, stored zeros, duplicate entries) x seeds as array/list/dict (dicts inserted in shuffled / descending key order) x node_order x n_iter x centering x scale x '
        'force_bipartite x n_neighbors x threshold x solver; direct calls of vote_update with labels >= n and nnz < n; integer '
        'embeddings with ties for the nearest-neighbour cores; random label vectors for the metrics. A case is non-trivial when the '
        'graph has an edge, the seeds carry at least two classes and at least two nodes are not seeds (Propagation, Diffusion; metrics: both '
        'vectors have a non-negative pair); distinct = distinct (entry point, input, options).')
ASSUMPTIONS = [
    'scipy.sparse construction/products, numpy fancy indexing, np.unique, np.argsort are the substrate',
    'np.argpartition(x, k)[:k] returns k positions none of which has a larger key than a position left out (checked '
    'through the nearest-neighbour and link-row specifications on every output)',
    'np.random.shuffle applies the same permutation to any array of the same length under the same seed (used to '
    'hand the node order of node_order="random" to the model)',
    'PageRank scores of PageRankClassifier are recomputed by the harness with the same estimator (C04 owns their values)',
    'np.exp of the soft-max of DiffusionClassifier is outside the rational model: labels are checked against the exact centred '
    'temperatures, probs_ against math.exp of them in Python within 1e-9 (and through the strong row specification)',
    'float32 sums of the vote kernel are exact on the generated weights (integers and dyadic fractions); one job per run uses '
    'weights 2^24 and 2^24+1, which float32 cannot tell apart (known finding F-C13-float32)',
]


# ------------------------------------------------------------------------------------------------
# encoding
# ------------------------------------------------------------------------------------------------
def frac(x):
    f = Fraction(float(x))
    return str(f.numerator) if f.denominator == 1 else '%d/%d' % (f.numerator, f.denominator)


def enc_fmat(rows):
    rows = [list(r) for r in rows]
    if not rows:
        return '-'
    return ';'.join((','.join(frac(x) for x in r) if r else '-') for r in rows)


def dec_fmat(tok):
    if tok == '-':
        return []
    return [([] if r == '-' else [Fraction(x) for x in r.split(',')]) for r in tok.split(';')]


def mat_close(a, b, tol=EPS_F):
    a, b = dec_fmat(a), dec_fmat(b)
    if len(a) != len(b):
        return False
    for r, s in zip(a, b):
        if len(r) != len(s):
            return False
        for x, y in zip(r, s):
            if abs(x - y) > tol:
                return False
    return True


def seed_token(s):
    """s = None | {'form': 'arr'|'list'|'dict', 'vals': [...]} (dict: 'items': [[k, v], ...])"""
    if s is None:
        return '_'
    if s['form'] == 'dict':
        flat = [x for kv in s['items'] for x in kv]
        return 'd:' + enc_list(flat)
    return 'a:' + enc_list(s['vals'])


def seed_arg(s):
    if s is None:
        return None
    if s['form'] == 'dict':
        return {int(k): int(v) for k, v in s['items']}
    if s['form'] == 'list':
        return [int(v) for v in s['vals']]
    return np.array(s['vals'], dtype=int)


def mk_seed(form, vals, rng=None):
    """Seeds in one of the three accepted forms. A dict is built in a *shuffled* insertion order when `rng` is given: Python
    dicts keep insertion order and get_values pairs keys() with values(), so the order of insertion must not matter."""
    vals = [int(v) for v in vals]
    if form == 'dict' and not any(v >= 0 for v in vals):
        form = 'list'          # get_values refuses an empty dict (np.min of an empty array): not a seed set
    if form == 'dict':
        # a dict may also carry negative values (ignored by the library with a warning): keep the first one
        neg = [i for i, v in enumerate(vals) if v < 0][:1] if len(vals) % 3 == 0 else []
        items = [[i, v] for i, v in enumerate(vals) if v >= 0 or i in neg]
        if rng is not None:
            rng.shuffle(items)
            if len(items) >= 2 and rng.random() < 0.5:
                items.sort(key=lambda kv: -kv[0])          # strictly descending keys
        return {'form': 'dict', 'items': items}
    return {'form': form, 'vals': vals}


def seed_vals(s, n):
    if s is None:
        return None
    if s['form'] == 'dict':
        out = [-1] * n
        for k, v in s['items']:
            out[k] = v
        return out
    return list(s['vals'])


def gdesc(m):
    m = sparse.csr_matrix(m)
    return {'shape': [int(m.shape[0]), int(m.shape[1])], 'indptr': [int(x) for x in m.indptr],
            'indices': [int(x) for x in m.indices], 'data': [float(x) for x in m.data]}


def gmat(g):
    return sparse.csr_matrix((np.array(g['data'], dtype=float), np.array(g['indices'], dtype=np.int32),
                              np.array(g['indptr'], dtype=np.int32)), shape=tuple(g['shape']))


def g_token(g):
    return enc_csr(gmat(g))


# ------------------------------------------------------------------------------------------------
# worker side: the implementation
# ------------------------------------------------------------------------------------------------
def _seed_kwargs(job):
    kw = {}
    for k in ('labels', 'labels_row', 'labels_col'):
        if job.get(k) is not None:
            kw[k] = seed_arg(job[k])
    return kw


def _both(algo, total):
    """labels and probability rows of all nodes (rows then columns for a bipartite graph)."""
    lr, lc = np.asarray(algo.labels_row_), np.asarray(algo.labels_col_)
    pr, pc = algo.probs_row_, algo.probs_col_
    if len(lr) == total:
        labels, probs = lr, pr
    else:
        labels = np.concatenate([lr, lc])
        probs = sparse.vstack([sparse.csr_matrix(pr), sparse.csr_matrix(pc)])
    return [int(x) for x in labels], enc_fmat(sparse.csr_matrix(probs).toarray().tolist())


def _observe(algo, refit):
    """What users read: labels_, probs_, predict(), predict_proba(), transform() and the fit_* shortcuts must agree with the
    row / column attributes that the rest of the check compares with the model. Returns a description of the first
    inconsistency, or None."""
    def dense(x):
        return np.asarray(sparse.csr_matrix(x).toarray())
    try:
        if not np.array_equal(np.asarray(algo.labels_), np.asarray(algo.labels_row_)):
            return 'labels_ %s differs from labels_row_ %s' % (np.asarray(algo.labels_).tolist(), np.asarray(algo.labels_row_).tolist())
        if dense(algo.probs_).shape != dense(algo.probs_row_).shape or not np.array_equal(dense(algo.probs_), dense(algo.probs_row_)):
            return 'probs_ differs from probs_row_'
        if not np.array_equal(np.asarray(algo.predict()), np.asarray(algo.labels_)):
            return 'predict() differs from labels_'
        if not np.array_equal(np.asarray(algo.predict(columns=True)), np.asarray(algo.labels_col_)):
            return 'predict(columns=True) differs from labels_col_'
        if not np.array_equal(np.asarray(algo.predict_proba()), dense(algo.probs_)):
            return 'predict_proba() differs from probs_'
        if not np.array_equal(np.asarray(algo.predict_proba(columns=True)), dense(algo.probs_col_)):
            return 'predict_proba(columns=True) differs from probs_col_'
        if not np.array_equal(dense(algo.transform()), dense(algo.probs_)):
            return 'transform() differs from probs_'
        if not np.array_equal(dense(algo.transform(columns=True)), dense(algo.probs_col_)):
            return 'transform(columns=True) differs from probs_col_'
        labels, probs = np.asarray(algo.labels_).copy(), dense(algo.probs_).copy()
        if not np.array_equal(np.asarray(refit('fit_predict')), labels):
            return 'fit_predict differs from labels_ of fit'
        if not np.array_equal(np.asarray(refit('fit_predict_proba')), probs):
            return 'fit_predict_proba differs from probs_ of fit'
        if not np.array_equal(dense(refit('fit_transform')), probs):
            return 'fit_transform differs from probs_ of fit'
    except (AttributeError, TypeError, ValueError, IndexError) as e:
        return 'reading the fitted attributes raises %s: %s' % (type(e).__name__, str(e)[:120])
    return None


def _routed(job):
    from sknetwork.utils.format import get_adjacency_values
    kw = _seed_kwargs(job)
    adjacency, values, bip = get_adjacency_values(gmat(job['graph']), force_bipartite=bool(job.get('force_bipartite')),
                                                  values=kw.get('labels'), values_row=kw.get('labels_row'),
                                                  values_col=kw.get('labels_col'))
    return sparse.csr_matrix(adjacency), values.astype(int), bool(bip)


def exec_job(job):
    kind = job['kind']
    if kind == 'vote':
        from sknetwork.classification.vote import vote_update
        g = job['graph']
        out = vote_update(np.array(g['indptr'], dtype=np.int32), np.array(g['indices'], dtype=np.int32),
                          np.array(g['data'], dtype=np.float32), np.array(job['labels'], dtype=np.int32),
                          np.array(job['index'], dtype=np.int32))
        return {'labels': [int(x) for x in np.asarray(out)]}
    if kind == 'prop':
        from sknetwork.classification import Propagation
        from sknetwork.classification.vote import vote_update
        m = gmat(job['graph'])
        np.random.seed(job['np_seed'])
        algo = Propagation(n_iter=job['n_iter'], node_order=job['order'], weighted=job['weighted'])
        algo.fit(m, **_seed_kwargs(job))

        def refit(name):
            np.random.seed(job['np_seed'])
            return getattr(Propagation(n_iter=job['n_iter'], node_order=job['order'], weighted=job['weighted']), name)(
                m, **_seed_kwargs(job))
        observe = _observe(algo, refit)
        adjacency, values, bip = _routed(job)
        n = adjacency.shape[0]
        labels, probs = _both(algo, n)
        single = len(set(values[values >= 0].tolist())) == 1
        index_remain = np.arange(n) if single else np.flatnonzero(values < 0)
        sigma = None
        if job['order'] == 'random':
            np.random.seed(job['np_seed'])
            sigma = np.arange(len(index_remain))
            np.random.shuffle(sigma)
        elif job['order'] in ('decreasing', 'increasing'):
            w = adjacency.T.dot(np.ones(n))
            key = -w[index_remain] if job['order'] == 'decreasing' else w[index_remain]
            sigma = np.argsort(key)
        index = index_remain if sigma is None else index_remain[sigma]
        data = adjacency.data.astype(np.float32) if job['weighted'] else np.ones(adjacency.nnz, dtype=np.float32)
        lab = np.array(labels, dtype=np.int32)
        after = np.asarray(vote_update(adjacency.indptr.astype(np.int32), adjacency.indices.astype(np.int32), data,
                                       lab.copy(), index.astype(np.int32)))
        return {'labels': labels, 'probs': probs, 'sigma': None if sigma is None else [int(x) for x in sigma],
                'stable': bool(np.array_equal(after, lab)), 'bipartite': bip, 'observe': observe,
                'n_free': int(len(index_remain))}
    if kind == 'diff':
        from sknetwork.classification import DiffusionClassifier
        algo = DiffusionClassifier(n_iter=job['n_iter'], centering=job['centering'], scale=job.get('scale', 5))
        algo.fit(gmat(job['graph']), force_bipartite=bool(job.get('force_bipartite')), **_seed_kwargs(job))

        def refit(name):
            return getattr(DiffusionClassifier(n_iter=job['n_iter'], centering=job['centering'], scale=job.get('scale', 5)),
                           name)(gmat(job['graph']), force_bipartite=bool(job.get('force_bipartite')), **_seed_kwargs(job))
        observe = _observe(algo, refit)
        adjacency, values, bip = _routed(job)
        labels, probs = _both(algo, adjacency.shape[0])
        return {'labels': labels, 'probs': probs, 'bipartite': bip, 'observe': observe,
                'n_free': int((values < 0).sum())}
    if kind == 'knn':
        from sknetwork.classification import NNClassifier
        from sknetwork.linalg.normalizer import normalize
        algo = NNClassifier(n_neighbors=job['k'], normalize=job['normalize'])
        algo.fit(gmat(job['graph']), **_seed_kwargs(job))
        observe = _observe(algo, lambda name: getattr(NNClassifier(n_neighbors=job['k'], normalize=job['normalize']), name)(
            gmat(job['graph']), **_seed_kwargs(job)))
        adjacency, values, bip = _routed(job)
        labels, probs = _both(algo, adjacency.shape[0])
        emb = normalize(adjacency, p=2) if job['normalize'] else adjacency
        return {'labels': labels, 'probs': probs, 'emb': enc_fmat(sparse.csr_matrix(emb).toarray().tolist()),
                'values': [int(x) for x in values], 'bipartite': bip, 'observe': observe}
    if kind == 'knn_core':
        from sknetwork.classification import NNClassifier
        emb = np.array(job['emb'], dtype=float)
        values = np.array(job['values'], dtype=int)
        algo = NNClassifier(n_neighbors=job['k'])
        probs, labels = algo._fit_core(sparse.csr_matrix(emb) if job.get('sparse') else emb, values,
                                       np.flatnonzero(values >= 0), np.flatnonzero(values < 0))
        return {'labels': [int(x) for x in labels], 'probs': enc_fmat(sparse.csr_matrix(probs).toarray().tolist()),
                'emb': enc_fmat(emb.tolist()), 'values': [int(x) for x in values]}
    if kind == 'rank':
        from sknetwork.classification import PageRankClassifier
        from sknetwork.ranking import PageRank
        algo = PageRankClassifier(damping_factor=job['damping'], solver=job['solver'], n_iter=job['n_iter'])
        algo.fit(gmat(job['graph']), **_seed_kwargs(job))
        observe = _observe(algo, lambda name: getattr(
            PageRankClassifier(damping_factor=job['damping'], solver=job['solver'], n_iter=job['n_iter']), name)(
                gmat(job['graph']), **_seed_kwargs(job)))
        adjacency, values, bip = _routed(job)
        labels, probs = _both(algo, adjacency.shape[0])
        uniq = np.unique(values[values >= 0])
        pr = PageRank(job['damping'], job['solver'], job['n_iter'], 0.)
        scores = np.array([pr.fit_predict(adjacency, (values == lab).astype(int)) for lab in uniq]).T
        return {'labels': labels, 'probs': probs, 'scores': enc_fmat(scores.tolist()),
                'values': [int(x) for x in values], 'bipartite': bip, 'observe': observe}
    if kind == 'link':
        from sknetwork.linkpred import NNLinker
        from sknetwork.linalg.normalizer import normalize
        from sknetwork.utils.format import get_adjacency
        m = gmat(job['graph'])
        algo = NNLinker(n_neighbors=job['k'], threshold=job['threshold'])
        idx = None if job.get('index') is None else np.array(job['index'], dtype=int)
        links = sparse.csr_matrix(algo.fit_predict(m, idx))
        adjacency, bip = get_adjacency(m)
        emb = normalize(sparse.csr_matrix(adjacency), p=2)
        rows = []
        for i in range(links.shape[0]):
            lo, hi = links.indptr[i], links.indptr[i + 1]
            rows.append(sorted((int(c), frac(v)) for c, v in zip(links.indices[lo:hi], links.data[lo:hi])))
        return {'rows': rows, 'shape': [int(x) for x in links.shape],
                'emb': enc_fmat(sparse.csr_matrix(emb).toarray().tolist()), 'bipartite': bool(bip)}
    if kind == 'link_core':
        from sknetwork.linkpred import NNLinker
        emb = np.array(job['emb'], dtype=float)
        mask = np.array(job['mask'], dtype=bool)
        algo = NNLinker(n_neighbors=job['k'], threshold=job['threshold'])
        links = sparse.csr_matrix(algo._fit_core(sparse.csr_matrix(emb) if job.get('sparse') else emb, mask))
        rows = []
        for i in range(links.shape[0]):
            lo, hi = links.indptr[i], links.indptr[i + 1]
            rows.append(sorted((int(c), frac(v)) for c, v in zip(links.indices[lo:hi], links.data[lo:hi])))
        return {'rows': rows, 'shape': [int(x) for x in links.shape], 'emb': enc_fmat(emb.tolist())}
    if kind == 'metric':
        from sknetwork.classification import metrics as M
        t = np.array(job['t'], dtype=int)
        p = np.array(job['p'], dtype=int)
        name = job['name']
        if name == 'accuracy':
            return {'value': frac(M.get_accuracy_score(t, p))}
        if name == 'confusion':
            c = M.get_confusion_matrix(t, p).toarray()
            return {'value': ';'.join(enc_list(r) for r in c.tolist()) if c.shape[0] else '-'}
        if name == 'f1s':
            a, b, c = M.get_f1_scores(t, p, True)
            return {'value': enc_fmat([a.tolist(), b.tolist(), c.tolist()])}
        if name == 'f1':
            a, b, c = M.get_f1_score(t, p, True)
            one = M.get_f1_score(t, p)
            if float(one) != float(a):
                raise AssertionError('get_f1_score differs with return_precision_recall')
            return {'value': ','.join([frac(a), frac(b), frac(c)])}
        return {'value': frac(M.get_average_f1_score(t, p, average=name if name != 'other' else 'geometric'))}
    raise KeyError(kind)


def worker_main(overlay_root, jobs_path):
    import warnings
    warnings.simplefilter('ignore')
    sys.path.insert(0, overlay_root)
    import sknetwork
    assert os.path.abspath(sknetwork.__file__).startswith(os.path.abspath(overlay_root))
    out = sys.stdout
    for ln in open(jobs_path):
        i, job = json.loads(ln)
        out.write('S %d\n' % i)
        out.flush()
        try:
            res = exec_job(job)
            res['status'] = 'ok'
        except VERDICT_ERRORS as e:
            res = {'status': 'err', 'err': type(e).__name__, 'msg': str(e)[:200]}
        except Exception as e:      # OSError of a fork, MemoryError, ...: the machine, not the code under test
            res = {'status': 'toolerr', 'err': type(e).__name__, 'msg': str(e)[:200]}
        out.write('R %d %s\n' % (i, json.dumps(res)))
        out.flush()


# ------------------------------------------------------------------------------------------------
# parent side: run jobs in workers, survive crashes and hangs
# ------------------------------------------------------------------------------------------------
def _run_shard(overlay_root, todo, results, tag, budget, timeout=None):
    """todo: list of (i, job). Fills results[i]. Restarts the worker after a crash / time-out."""
    d = os.path.join(VERIF, '.cache', 'c13')
    os.makedirs(d, exist_ok=True)
    remaining = list(todo)
    rounds = 0
    while remaining:
        # entry points that keep hanging are not called again (each hang costs JOB_TIMEOUT seconds)
        if budget['timeouts'] >= MAX_TIMEOUTS:
            keep = []
            for i, job in remaining:
                if job_sig(job)['entry'] in budget['entries']:
                    results[i] = {'status': 'skipped'}
                else:
                    keep.append((i, job))
            remaining = keep
            if not remaining:
                break
        rounds += 1
        path = os.path.join(d, 'jobs_%s_%d_%d.jsonl' % (tag, os.getpid(), rounds))
        with open(path, 'w') as fh:
            for i, job in remaining:
                fh.write(json.dumps([i, job]) + '\n')
        env = dict(os.environ)
        env.setdefault('OMP_NUM_THREADS', '1')
        p = subprocess.Popen([PY, '-u', os.path.abspath(__file__), '--worker', overlay_root, path],
                             stdout=subprocess.PIPE, stderr=open(path + '.err', 'w'), env=env, bufsize=0)
        fd = p.stdout.fileno()
        current = None
        failed = None
        buf = b''
        started = False
        done = 0
        try:
            while True:
                r, _, _ = select.select([fd], [], [], (timeout or JOB_TIMEOUT) if started else 120.0)
                if not r:
                    failed = 'timeout'
                    break
                chunk = os.read(fd, 1 << 16)
                if not chunk:
                    break
                buf += chunk
                while b'\n' in buf:
                    ln, buf = buf.split(b'\n', 1)
                    ln = ln.decode()
                    started = True
                    if ln.startswith('S '):
                        current = int(ln[2:])
                    elif ln.startswith('R '):
                        _, i, js = ln.split(' ', 2)
                        results[int(i)] = json.loads(js)
                        current = None
                        done += 1
                if budget['timeouts'] >= MAX_TIMEOUTS and current is None and \
                        any(job_sig(j)['entry'] in budget['entries'] for _, j in remaining[done:]):
                    break      # another shard found a hanging entry point: restart without its jobs
        finally:
            if p.poll() is None:
                p.kill()
            p.wait()
            if done >= len(remaining):
                for q in (path, path + '.err'):
                    try:
                        os.remove(q)
                    except OSError:
                        pass
        if done >= len(remaining):
            break
        if failed is None and current is None and p.returncode in (0, -9):
            remaining = remaining[done:]        # stopped on purpose between two jobs
            continue
        if failed is None:
            failed = 'crash rc=%s' % p.returncode
        if current is None:
            # died between jobs (or at start-up): that is a tool problem, not a verdict
            from vlib.core import ToolFailure
            raise ToolFailure('C13 worker stopped outside a job (%s)' % failed)
        results[current] = {'status': 'timeout' if failed == 'timeout' else 'crash', 'detail': failed}
        if failed == 'timeout':
            budget['timeouts'] += 1
            budget['entries'].add(job_sig(remaining[done][1])['entry'])
        remaining = remaining[done + 1:]


def run_jobs(ctx, jobs, root=None):
    import concurrent.futures
    root = root or (ctx.overlay_root if hasattr(ctx, 'overlay_root') else ctx.ctx.overlay_root)
    results = [None] * len(jobs)
    k = max(1, min(N_WORKERS, len(jobs) // 20 + 1))
    shards = [[] for _ in range(k)]
    for i, job in enumerate(jobs):
        shards[i % k].append((i, job))
    budget = {'timeouts': 0, 'entries': set()}
    with concurrent.futures.ThreadPoolExecutor(max_workers=k) as ex:
        futs = [ex.submit(_run_shard, root, sh, results, 's%d' % j, budget) for j, sh in enumerate(shards) if sh]
        for f in futs:
            f.result()
    return results


# ------------------------------------------------------------------------------------------------
# cases from (job, result)
# ------------------------------------------------------------------------------------------------
def _seed_tokens(job):
    return ' '.join(seed_token(job.get(k)) for k in ('labels', 'labels_row', 'labels_col'))


def _seed_form(job):
    for k in ('labels', 'labels_row', 'labels_col'):
        if job.get(k) is not None:
            return job[k]['form']
    return 'none'


def _n_classes(job):
    vals = []
    g = job.get('graph')
    for k in ('labels', 'labels_row', 'labels_col'):
        s = job.get(k)
        if s is not None:
            vals += [v for v in (seed_vals(s, 10 ** 6) if s['form'] != 'dict' else [kv[1] for kv in s['items']]) if v >= 0]
    return len(set(vals))


def _has_unlabelled(job):
    g = job['graph']
    nr, nc = g['shape']
    if job.get('labels') is not None:
        s = job['labels']
        k = sum(1 for kv in s['items'] if kv[1] >= 0) if s['form'] == 'dict' else sum(1 for v in s['vals'] if v >= 0)
        return k < nr or nr != nc
    return True


def _float32_exact(g):
    """A sufficient condition for the float32 votes of the kernel to be exact on graph `g` (the routed adjacency may be the
    matrix itself or its bipartite block form, so rows and columns are both looked at): every weight is a multiple of one
    power of two `q`, and the sum of the absolute weights of any row or column is below 2^24 * q; then every partial sum
    of weights of a node is an integer below 2^24 times `q`, hence a float32."""
    data = [abs(Fraction(float(w))) for w in g['data']]
    if not data or not any(data):
        return True
    if any(float(np.float32(float(w))) != float(w) for w in data):
        return False
    q = Fraction(1)
    for w in data:
        while w and (w / q).denominator != 1:
            q /= 2
    rows = {}
    cols = {}
    for i in range(len(g['indptr']) - 1):
        for p in range(g['indptr'][i], g['indptr'][i + 1]):
            rows[i] = rows.get(i, 0) + data[p]
            cols[g['indices'][p]] = cols.get(g['indices'][p], 0) + data[p]
    return max(list(rows.values()) + list(cols.values())) / q < 2 ** 24


def job_sig(job):
    kind = job['kind']
    entry = {'vote': 'vote_update', 'prop': 'Propagation', 'diff': 'DiffusionClassifier', 'knn': 'NNClassifier',
             'knn_core': 'NNClassifier._fit_core', 'rank': 'PageRankClassifier', 'link': 'NNLinker',
             'link_core': 'NNLinker._fit_core', 'metric': 'metrics'}[kind]
    sig = {'entry': entry}
    if kind == 'prop':
        sig.update(order=job['order'], weighted=job['weighted'], mode='seeds' if _n_classes(job) >= 2 else 'no-seeds',
                   float32_exact=(not job['weighted']) or _float32_exact(job['graph']))
    elif kind == 'diff':
        sig.update(centering=job['centering'])
    elif kind == 'rank':
        sig.update(solver=job['solver'])
    elif kind == 'metric':
        sig.update(metric=job['name'],
                   true_label_without_prediction=any(a >= 0 > b for a, b in zip(job['t'], job['p'])))
    return sig


def cases_of(job, res):
    """List of Case for one executed job; `res['status']` is ok or err (crash / timeout are handled before)."""
    kind = job['kind']
    sig = job_sig(job)
    key0 = (kind, json.dumps(job, sort_keys=True))
    err = 'err ' + res['err'] if res['status'] == 'err' else None
    out = []
    if kind == 'vote':
        g = job['graph']
        gt = '%d %s %s %s' % (g['shape'][0], enc_list(g['indptr']), enc_list(g['indices']),
                              ','.join(frac(x) for x in g['data']) if g['data'] else '-')
        run = 'c13.vote %s %s %s' % (gt, enc_list(job['labels']), enc_list(job['index']))
        impl = err or 'ok ' + enc_list(res['labels'])
        out.append(Case(key0, sig, run, impl, None, len(g['indices']) > 0 and len(job['index']) > 0, job))
        return out
    if kind == 'prop':
        gt = g_token(job['graph'])
        st = _seed_tokens(job)
        nit = '_' if job['n_iter'] < 0 else str(int(job['n_iter']))
        sg = '_'
        if res['status'] == 'ok' and res['sigma'] is not None:
            sg = enc_list(res['sigma'])
        run = 'c13.prop %s %s %s %s %s' % (gt, st, enc_bool(job['weighted']), nit, sg)
        if not sig['float32_exact']:
            run = None      # the model votes in exact arithmetic: it is not meant to agree where float32 rounds the votes
        impl = err or 'ok %s %s' % (enc_list(res['labels']), res['probs'])
        spec = None
        # non-trivial: at least two nodes are updated (with one free node the in-place sweep, the order and the stop test
        # are all trivial)
        nontriv = len(job['graph']['indices']) > 0 and _n_classes(job) >= 2 and res.get('n_free', 0) >= 2
        if res['status'] == 'ok':
            # labels in the seed set and seeds kept (the fixed-point item is a case of its own, below)
            spec = 'c13.spec_prop %s %s %s %s 0' % (gt, st, enc_bool(job['weighted']), enc_list(res['labels']))
        if run is not None or spec is not None:
            out.append(Case(key0, dict(sig, check='labels'), run, impl, spec, nontriv, job, canon='prop'))
        if res['status'] == 'ok' and res['stable']:
            out.append(Case(key0 + ('fixed-point',), dict(sig, check='fixed-point'), None, impl,
                            'c13.spec_prop %s %s %s %s 1' % (gt, st, enc_bool(job['weighted']), enc_list(res['labels'])),
                            False, job))
        if res['status'] == 'ok':
            out.append(Case(key0 + ('rows',), dict(sig, check='rows'), None, impl, 'c13.spec_prop_rows %s %s %s %s %s' % (
                gt, st, EPS, enc_list(res['labels']), res['probs']), False, job))
        return out
    if kind == 'diff':
        gt = g_token(job['graph'])
        st = _seed_tokens(job)
        fb = enc_bool(job.get('force_bipartite'))
        run = 'c13.diff %s %s %s %d %s' % (gt, fb, st, job['n_iter'], enc_bool(job['centering']))
        impl = err or 'ok %s %s' % (enc_list(res['labels']), res['probs'])
        spec = None
        if res['status'] == 'ok':
            spec = 'c13.spec_diff %s %s %s %d %s %s %s %s %s' % (
                gt, fb, st, job['n_iter'], enc_bool(job['centering']), EPS, enc_bool(job.get('symmetric')),
                enc_list(res['labels']), res['probs'])
        nontriv = len(job['graph']['indices']) > 0 and _n_classes(job) >= 2 and res.get('n_free', 0) >= 2
        out.append(Case(key0, sig, run, impl, spec, nontriv, job, canon='diff'))
        return out
    if kind in ('knn', 'knn_core'):
        if res['status'] == 'ok':
            run = 'c13.knn %s %s %d' % (res['emb'], enc_list(res['values']), job['k'])
            impl = 'ok %s %s' % (enc_list(res['labels']), res['probs'])
            # the label counts of each row (row * k rounded): the specification checks them against the row
            ntrain = sum(1 for v in res['values'] if v >= 0)
            kk = job['k'] if job['k'] < ntrain else ntrain - 1
            cnts = ';'.join((','.join(str(int(round(float(x) * kk))) for x in r) if r else '-')
                            for r in dec_fmat(res['probs'])) or '-'
            spec = 'c13.spec_knn %s %s %d %s %s %s %s' % (res['emb'], enc_list(res['values']), job['k'], EPS,
                                                         enc_list(res['labels']), res['probs'], cnts)
            vals = res['values']
            nontriv = len(set(v for v in vals if v >= 0)) >= 2 and any(v < 0 for v in vals)
            out.append(Case(key0, sig, run, impl, spec, nontriv, job, canon='knn'))
        return out
    if kind == 'rank':
        if res['status'] == 'ok':
            run = 'c13.rank %s %s' % (enc_list(res['values']), res['scores'])
            impl = 'ok %s %s' % (enc_list(res['labels']), res['probs'])
            spec = 'c13.spec_rank %s %s %s %s %s' % (enc_list(res['values']), EPS, enc_list(res['labels']), res['probs'],
                                                    res['scores'])
            out.append(Case(key0, sig, run, impl, spec, _n_classes(job) >= 2, job, canon='rank'))
        return out
    if kind in ('link', 'link_core'):
        if res['status'] == 'ok':
            emb = res['emb']
            if kind == 'link':
                nrow = job['graph']['shape'][0]
                mask = [0] * nrow
                for i in (range(nrow) if job.get('index') is None else job['index']):
                    mask[i] = 1
            else:
                mask = [int(bool(x)) for x in job['mask']]
            rows_tok = ';'.join((','.join('%d,%s' % (c, v) for c, v in r) if r else '-') for r in res['rows']) \
                if res['rows'] else '-'
            thr = frac(job['threshold'])
            run = 'c13.link %s %s %d %s' % (emb, enc_list(mask), job['k'], thr)
            impl = 'ok ' + rows_tok
            spec = 'c13.spec_link %s %s %d %s %s %s' % (emb, enc_list(mask), job['k'], thr, EPS, rows_tok)
            out.append(Case(key0, sig, run, impl, spec, any(res['rows']), job, canon='link'))
        return out
    if kind == 'metric':
        t, p = enc_list(job['t']), enc_list(job['p'])
        name = job['name']
        run = 'c13.metric %s %s %s' % (name, t, p)
        if res['status'] == 'ok':
            v = res['value']
            if name == 'f1s':
                impl = 'ok ' + v.replace(';', ' ')
            elif name == 'f1':
                impl = 'ok ' + v.replace(',', ' ')
            else:
                impl = 'ok ' + v
            spec = 'c13.spec_metric %s %s %s %s %s' % (name, t, p, EPS, v)
            if name == 'other':
                spec = None
        else:
            impl, spec = err, None
        nontriv = any(a >= 0 and b >= 0 for a, b in zip(job['t'], job['p']))
        if name == 'weighted' and spec is not None:
            # the spec line of the weighted average fails by design on the inputs of the known finding: the run line is
            # a case of its own, so that a model/code disagreement on those inputs is still reported
            out.append(Case(key0, dict(sig, check='run'), run, impl, None, nontriv, job, canon='metric'))
            out.append(Case(key0 + ('spec',), dict(sig, check='spec'), None, impl, spec, False, job))
            return out
        out.append(Case(key0, sig, run, impl, spec, nontriv, job, canon='metric'))
        return out
    raise KeyError(kind)


# ------------------------------------------------------------------------------------------------
# comparison of a model answer with the implementation's
# ------------------------------------------------------------------------------------------------
def _top_gap(row):
    s = sorted(row, reverse=True)
    return float(s[0] - s[1]) if len(s) > 1 else 1.0


def _kth_gap(keys, k):
    """gap between the k-th and (k+1)-th smallest key (inf when the split is vacuous)"""
    s = sorted(keys)
    if k <= 0 or k >= len(s):
        return 1.0
    return float(s[k] - s[k - 1])


class Ties:
    skipped = 0


class Hanging:
    """entry points with a confirmed call that does not return in this run: the failing-input search does not call them again"""
    entries = set()


def _same(c, model, impl, spec_ok):
    if model.startswith('err') or impl.startswith('err'):
        # same refusal, numpy may word the class differently only for the cases listed here
        return model.startswith('err') and impl.startswith('err') and c.canon in ('metric',) and False
    m, i = model.split(' '), impl.split(' ')
    if c.canon == 'prop':
        # model: ok labels t probs ; impl: ok labels probs
        return len(m) == 4 and len(i) == 3 and m[1] == i[1] and mat_close(m[3], i[2])
    if c.canon == 'diff':
        # model: ok labels reached temps ; impl: ok labels probs.  Labels are compared exactly when every arg-max
        # of the exact temperatures is clear; ties are judged by the spec line alone.
        if len(m) != 4 or len(i) != 3:
            return False
        temps = dec_fmat(m[3])
        if c.desc.get('centering') and not _softmax_close(temps, m[2], i[2], c.desc.get('scale', 5)):
            return False
        if m[1] == i[1]:
            return True
        if all(_top_gap(r) > MARGIN for r in temps if r):
            return False
        Ties.skipped += 1
        return spec_ok
    if c.canon in ('knn', 'rank', 'link'):
        if len(m) != len(i):
            return False
        if c.canon == 'link':
            if _rows_close(m[1], i[1]):
                return True
        elif m[1] == i[1] and mat_close(m[2], i[2]):
            return True
        # a tie (or near tie) at a selection boundary / arg-max: any valid choice is accepted by the spec line
        if _ambiguous(c, m, i):
            Ties.skipped += 1
            return spec_ok
        return False
    if c.canon == 'metric':
        if len(m) != len(i):
            return False
        return all(a == b or mat_close(a, b) for a, b in zip(m[1:], i[1:]))
    return False


def _softmax_close(temps, reached_tok, probs_tok, scale):
    """probs_ of DiffusionClassifier(centering=True) against the soft-max of the model's exact centred temperatures:
    normalize(exp(scale * t)) on the reached nodes, null rows elsewhere."""
    import math
    reached = [] if reached_tok == '-' else [int(x) for x in reached_tok.split(',')]
    probs = dec_fmat(probs_tok)
    if len(probs) != len(temps):
        return False
    for i, (t, p) in enumerate(zip(temps, probs)):
        if len(t) != len(p):
            return False
        if i < len(reached) and reached[i]:
            e = [math.exp(float(scale) * float(x)) for x in t]
            z = sum(e)
            want = [x / z for x in e]
        else:
            want = [0.0] * len(t)
        if any(abs(float(a) - b) > EPS_F for a, b in zip(p, want)):
            return False
    return True


def _dec_rows(tok):
    if tok == '-':
        return []
    rows = []
    for r in tok.split(';'):
        if r == '-':
            rows.append([])
        else:
            xs = r.split(',')
            rows.append([(int(xs[k]), Fraction(xs[k + 1])) for k in range(0, len(xs), 2)])
    return rows


def _rows_close(a, b):
    def dec(tok):
        if tok == '-':
            return []
        rows = []
        for r in tok.split(';'):
            if r == '-':
                rows.append([])
            else:
                xs = r.split(',')
                rows.append([(int(xs[k]), Fraction(xs[k + 1])) for k in range(0, len(xs), 2)])
        return rows
    a, b = dec(a), dec(b)
    if len(a) != len(b):
        return False
    for r, s in zip(a, b):
        if [x[0] for x in r] != [x[0] for x in s]:
            return False
        if any(abs(x[1] - y[1]) > EPS_F for x, y in zip(r, s)):
            return False
    return True


def _ambiguous(c, m=None, i=None):
    """Is there a (near-)tie at a top-k boundary or an arg-max of this case? Computed from the run line itself
    (for NNLinker: only on the rows where model and implementation differ)."""
    toks = c.run.split(' ')
    if c.canon == 'rank':
        scores = dec_fmat(toks[2])
        for r in scores:
            s = sum(abs(x) for x in r)
            if s and _top_gap([x / s for x in r]) <= MARGIN:
                return True
        return False
    emb = dec_fmat(toks[1])

    def dot(a, b):
        return sum(x * y for x, y in zip(a, b))
    if c.canon == 'knn':
        vals = [int(x) for x in toks[2].split(',')]
        k = int(toks[3])
        train = [j for j, v in enumerate(vals) if v >= 0]
        if k >= len(train):
            k = len(train) - 1
        for i, v in enumerate(vals):
            if v >= 0:
                continue
            ds = [dot(emb[j], emb[j]) - 2 * dot(emb[j], emb[i]) + dot(emb[i], emb[i]) for j in train]
            if _kth_gap(ds, k) <= MARGIN:
                return True
            # arg-max of the counts
            sel = sorted(range(len(train)), key=lambda p: ds[p])[:k]
            cnt = {}
            for p in sel:
                cnt[vals[train[p]]] = cnt.get(vals[train[p]], 0) + 1
            top = sorted(cnt.values(), reverse=True)
            if len(top) > 1 and top[0] == top[1]:
                pass    # np.argmax is deterministic on exact ties: compared exactly
        return False
    if c.canon == 'link':
        mask = [int(x) for x in toks[2].split(',')] if toks[2] != '-' else []
        k = int(toks[3])
        thr = Fraction(toks[4])
        n, nrow = len(emb), len(mask)
        cols = list(range(nrow, n)) if nrow < n else list(range(n))
        if k >= len(cols):
            k = len(cols) - 1
        mrows, irows = _dec_rows(m[1]), _dec_rows(i[1])
        if len(mrows) == 0 and nrow == 1:
            mrows = [[]]
        if len(irows) == 0 and nrow == 1:
            irows = [[]]
        if len(mrows) != nrow or len(irows) != nrow:
            return False
        for r in range(nrow):
            if not mask[r]:
                continue
            same_cols = [x[0] for x in mrows[r]] == [x[0] for x in irows[r]]
            if same_cols and all(abs(x[1] - y[1]) <= EPS_F for x, y in zip(mrows[r], irows[r])):
                continue
            # this row differs: is the difference explained by a (near-)tie at the k-th similarity or by a similarity of the
            # top k that float arithmetic may put on the other side of the threshold?
            sims = [dot(emb[j], emb[r]) for j in cols]
            order = sorted(range(len(sims)), key=lambda q: -sims[q])
            top = order[:k + 1]
            near_thr = any(0 < abs(sims[q] - thr) <= MARGIN or (sims[q] == thr and sims[q] != 0) for q in top)
            if _kth_gap([-x for x in sims], k) > MARGIN and not near_thr:
                return False
        return True
    return False


def evaluate(ctx, cases):
    _evaluate(ctx, cases, same=_same)


def _retry_timeouts(ctx, jobs, results, root=None):
    """A worker that is silent for JOB_TIMEOUT seconds may be a healthy job on a loaded machine: every such job is run
    once more, alone, with RETRY_TIMEOUT; only a second silence makes it a call that does not return.  A job that raised
    an exception outside VERDICT_ERRORS (OSError of a fork, MemoryError, ...) is run once more too; a second exception of
    that kind is a tool failure, never a verdict."""
    import concurrent.futures
    idx = [i for i, r in enumerate(results) if r is not None and r.get('status') in ('timeout', 'toolerr')]
    if not idx:
        return
    root = root or (ctx.overlay_root if hasattr(ctx, 'overlay_root') else ctx.ctx.overlay_root)

    def one(i):
        out = [None]
        _run_shard(root, [(0, jobs[i])], out, 'retry%d' % i, {'timeouts': 0, 'entries': set()}, timeout=RETRY_TIMEOUT)
        return i, out[0]
    with concurrent.futures.ThreadPoolExecutor(max_workers=min(16, len(idx))) as ex:
        for i, res in ex.map(one, idx):
            was = results[i].get('status')
            if res is not None and res.get('status') == 'toolerr':
                from vlib.core import ToolFailure
                raise ToolFailure('C13 worker: %s: %s (twice) on %s' % (res.get('err'), res.get('msg'),
                                                                        json.dumps(jobs[i])[:300]))
            if res is not None and res.get('status') in ('ok', 'err'):
                results[i] = res
                ctx.count('slow-job' if was == 'timeout' else 'retried-after-%s' % results[i].get('err', 'error'))
            elif res is not None and res.get('status') == 'crash':
                results[i] = res
            elif was == 'toolerr':
                from vlib.core import ToolFailure
                raise ToolFailure('C13 worker: job failed with %s, then gave no answer' % results[i].get('err'))
    # the calls skipped after the budget of time-outs are run if the time-outs were not confirmed
    if not any(r is not None and r.get('status') == 'timeout' for r in results):
        sk = [i for i, r in enumerate(results) if r is not None and r.get('status') == 'skipped']
        if sk:
            again = run_jobs(ctx, [jobs[i] for i in sk], root=root)
            for i, r in zip(sk, again):
                results[i] = {'status': 'skipped'} if (r is None or r.get('status') in ('timeout', 'toolerr')) else r


def run_and_evaluate(ctx, jobs):
    """Execute jobs on the implementation, turn them into cases, evaluate. Crashes / hangs are failing inputs."""
    results = run_jobs(ctx, jobs)
    _retry_timeouts(ctx, jobs, results)
    cases = []
    for job, res in zip(jobs, results):
        ctx.count('kind:' + job['kind'])
        if job['kind'] == 'prop' and res is not None and res.get('status') == 'ok':
            ctx.count('prop:stable' if res.get('stable') else 'prop:not-stable')
            ctx.count('prop:free>=2' if res.get('n_free', 0) >= 2 else 'prop:free<=1')
            if res.get('n_free', 0) >= 2 and job.get('order') is not None:
                ctx.count('prop:order-matters')
        if job['kind'] == 'diff' and res is not None and res.get('status') == 'ok':
            ctx.count('diff:free>=2' if res.get('n_free', 0) >= 2 else 'diff:free<=1')
        if res is None:
            from vlib.core import ToolFailure
            raise ToolFailure('C13: a job returned no result')
        if res['status'] == 'skipped':
            ctx.count('skipped-after-timeouts:' + job['kind'])
            continue
        if res['status'] in ('crash', 'timeout'):
            sig = dict(job_sig(job), failure=res['status'])
            if res['status'] == 'timeout':
                Hanging.entries.add(sig['entry'])
            ctx.case(('fail', json.dumps(job, sort_keys=True)), True)
            ctx.spec_fail(sig, job, {'what': 'the call %s on this input' % (
                'did not return within %.0f s, nor within %.0f s when run alone' % (JOB_TIMEOUT, RETRY_TIMEOUT)
                if res['status'] == 'timeout' else
                'killed the interpreter (%s)' % res.get('detail'))})
            continue
        if res['status'] == 'err' and job['kind'] not in ('metric', 'prop', 'diff', 'vote'):
            # the nearest-neighbour / ranking entry points must not raise on the generated (valid) inputs
            ctx.case(('err', json.dumps(job, sort_keys=True)), True)
            ctx.spec_fail(dict(job_sig(job), failure='raises'), job, {'what': 'raises %s: %s' % (res['err'], res.get('msg'))})
            continue
        if res['status'] == 'ok' and res.get('observe'):
            # labels_ / probs_ / predict* (what users read) disagree with the row / column attributes
            ctx.case(('observe', json.dumps(job, sort_keys=True)), True)
            ctx.spec_fail(dict(job_sig(job), failure='attributes-inconsistent'), job, {'what': res['observe']})
        elif res['status'] == 'ok' and 'observe' in res:
            ctx.count('observed:labels_,probs_,predict*')
        cases += cases_of(job, res)
    evaluate(ctx, cases)
    if hasattr(ctx, 'extra'):
        ctx.extra['tie_skipped'] = Ties.skipped
        ctx.extra['tolerances'] = {'EPS': EPS, 'MARGIN': MARGIN, 'JOB_TIMEOUT_s': JOB_TIMEOUT, 'RETRY_TIMEOUT_s': RETRY_TIMEOUT}
    return results


# ------------------------------------------------------------------------------------------------
# generators
# ------------------------------------------------------------------------------------------------
WEIGHTS = [1, 1, 2, 3, 5, 8, 0.5, 0.25]
LABEL_POOL = [0, 1, 2, 3, 5, 7, 11]


def _csr(n, es, w=None, m=None):
    m = n if m is None else m
    if not es:
        return sparse.csr_matrix((n, m), dtype=float)
    data = np.ones(len(es)) if w is None else np.asarray(w, dtype=float)
    a = sparse.csr_matrix((data, ([e[0] for e in es], [e[1] for e in es])), shape=(n, m))
    a.sort_indices()
    return a


def _weights(rng, es, directed):
    if directed:
        return [rng.choice(WEIGHTS) for _ in es]
    return graphs.sym_weights(rng, es, WEIGHTS)


def _seedings(n, classes):
    """all vectors over {-1} + classes with at least two classes present"""
    import itertools
    for v in itertools.product([-1] + list(classes), repeat=n):
        if len(set(x for x in v if x >= 0)) >= 2:
            yield list(v)


def _rand_seeding(rng, n, min_classes=2, p_seed=0.4):
    k = rng.choice([2, 2, 3])
    classes = rng.sample(LABEL_POOL, k)
    while True:
        v = [rng.choice(classes) if rng.random() < p_seed else -1 for _ in range(n)]
        if len(set(x for x in v if x >= 0)) >= min(min_classes, n):
            return v


def _prop_job(rng, g, seeds, weighted=True, order=None, n_iter=-1):
    job = {'kind': 'prop', 'graph': g, 'weighted': weighted, 'order': order, 'n_iter': n_iter,
           'np_seed': rng.randrange(10 ** 6)}
    job.update(seeds)
    return job


def _form(rng):
    return rng.choice(['arr', 'list', 'dict'])


def _seed_kw_square(rng, v, form=None):
    return {'labels': mk_seed(form or _form(rng), v, rng)}


def _seed_kw_bip(rng, nr, nc, vr, vc):
    """labels_row / labels_col / both, or `labels` alone (rows only) on a rectangular matrix"""
    mode = rng.choice(['both', 'both', 'row', 'labels', 'labels+col'])
    if mode == 'labels+col':
        # `labels` is an alias of `labels_row` for a bipartite input and is stacked with `labels_col`
        return {'labels': mk_seed(_form(rng), vr, rng), 'labels_col': mk_seed(_form(rng), vc, rng)}
    if mode == 'both':
        return {'labels_row': mk_seed(_form(rng), vr, rng), 'labels_col': mk_seed(_form(rng), vc, rng)}
    if mode == 'row':
        return {'labels_row': mk_seed(_form(rng), vr, rng)}
    return {'labels': mk_seed(_form(rng), vr, rng)}


def _is_symmetric(es):
    st = set(es)
    return all((j, i) in st for (i, j) in es)


def _link_threshold(rng, a, core_emb=None):
    """A threshold that separates the candidates of some row: half-way between two similarities that occur (or one that
    occurs exactly), so that the threshold mask of NNLinker does some work."""
    if core_emb is not None:
        emb = np.array(core_emb, dtype=float)
    else:
        d = np.asarray(sparse.csr_matrix(a).toarray(), dtype=float)
        if d.shape[0] != d.shape[1]:
            d = np.block([[np.zeros((d.shape[0], d.shape[0])), d], [d.T, np.zeros((d.shape[1], d.shape[1]))]])
        nrm = np.sqrt((d ** 2).sum(axis=1))
        nrm[nrm == 0] = 1
        emb = d / nrm[:, None]
    sims = sorted(set(np.round(emb @ emb[rng.randrange(emb.shape[0])], 12).tolist()))
    mode = rng.random()
    if len(sims) >= 2 and mode < 0.6:
        k = rng.randrange(len(sims) - 1)
        return float(np.float32((sims[k] + sims[k + 1]) / 2))
    if mode < 0.8:
        return float(rng.choice(sims))
    return float(rng.choice([0, 0.25, 0.5]))


def _with_zeros_and_duplicates(rng, a):
    """The same graph stored with an explicit zero entry and a duplicated entry (scipy keeps both)."""
    a = sparse.csr_matrix(a).copy()
    n = a.shape[0]
    rows = []
    for i in range(n):
        lo, hi = a.indptr[i], a.indptr[i + 1]
        ent = [(int(a.indices[q]), float(a.data[q])) for q in range(lo, hi)]
        if ent and rng.random() < 0.5:
            c, w = rng.choice(ent)
            ent.remove((c, w))
            ent += [(c, w / 2), (c, w / 2)]          # a duplicate: the two halves add up to the weight
        free = [j for j in range(a.shape[1]) if j not in [c for c, _ in ent] and j != i]
        if free and rng.random() < 0.5:
            ent.append((rng.choice(free), 0.0))      # a stored zero
        rows.append(ent)
    indptr = [0]
    indices, data = [], []
    for ent in rows:
        indices += [c for c, _ in ent]
        data += [w for _, w in ent]
        indptr.append(len(indices))
    return {'shape': [n, a.shape[1]], 'indptr': indptr, 'indices': indices, 'data': data}


def gen_jobs(ctx, scale=1.0, mode='run'):
    """mode 'run': the jobs of a check; mode 'search': the small space of the failing-input search — every graph with at most
    3 nodes x every seeding, all nine entry points, nothing sampled below n = 4."""
    rng = ctx.rng
    quick = ctx.quick
    search_mode = (mode == 'search')
    jobs = []

    # ---- 1. small graphs x seedings: Propagation (both weightings) and DiffusionClassifier on each
    small = []
    for n in (2, 3):
        for es in graphs.all_digraphs(n):
            small.append((n, es))
    und4 = [(4, es) for es in graphs.all_undirected(4)]
    if quick:
        und4 = rng.sample(und4, 12)
    small += und4
    for n, es in small:
        sym = _is_symmetric(es)
        w = _weights(rng, es, not sym)
        g = gdesc(_csr(n, es, w))
        seedings = list(_seedings(n, (1, 3) if n < 4 else (0, 2)))
        if n == 3:
            seedings += [s for s in _seedings(3, (0, 1, 2)) if len(set(s)) == 3 and -1 not in s][:2]
            seedings += [[-1, 0, 1], [2, -1, 0], [1, 0, -1]]
        if quick and not (search_mode and n <= 3):
            # quick tier: few seedings on the tiny graphs (at most one node to update there), the time goes to section 1b
            cap = 3 if n <= 3 else 10
            if len(seedings) > cap:
                seedings = rng.sample(seedings, cap)
        for si, v in enumerate(seedings):
            kw = _seed_kw_square(rng, v)
            for weighted in (True, False):
                jobs.append(_prop_job(rng, g, kw, weighted=weighted,
                                      order=rng.choice([None, None, 'increasing', 'decreasing', 'random']),
                                      n_iter=rng.choice([-1, -1, -1, 1, 2])))
            jobs.append({'kind': 'diff', 'graph': g, 'n_iter': rng.choice([1, 2, 3, 10]),
                         'centering': rng.random() < 0.6, 'scale': rng.choice([5, 5, 1, 2.5]), 'symmetric': sym, **kw})
            if es and (search_mode and si < 2 or (not quick and si < 1)):
                jobs.append({'kind': 'knn', 'graph': g, 'k': rng.choice([1, 2]), 'normalize': rng.random() < 0.5, **kw})
                jobs.append({'kind': 'link', 'graph': g, 'k': rng.choice([1, 2]),
                             'threshold': _link_threshold(rng, gmat(g)), 'index': None})
                if si == 0:
                    jobs.append({'kind': 'rank', 'graph': g, 'damping': 0.85, 'solver': 'piteration', 'n_iter': 10, **kw})

    # ---- 1b. graphs with several adjacent nodes to update: n = 4..7, exactly two or three seeds
    n_free = int((10 if search_mode else 140 if quick else 500) * (1 if search_mode else scale))
    for t in range(n_free):
        n = rng.randint(4, 7)
        kind = rng.choice(['path', 'cycle', 'star', 'grid', 'random_undirected', 'random_undirected', 'blocks',
                           'random_directed', 'dag', 'dicycle'])
        es = graphs.structured(rng, kind, n)
        directed = kind in graphs.DIRECTED_KINDS
        a = _csr(n, es, _weights(rng, es, directed))
        if rng.random() < 0.2:
            a = graphs.unsorted_copy(a, rng)
        g = gdesc(a)
        k = rng.choice([2, 2, 3])
        nodes = rng.sample(range(n), k)
        classes = rng.sample(LABEL_POOL, 2 if k == 2 or rng.random() < 0.5 else 3)
        v = [-1] * n
        for q, node in enumerate(nodes):
            v[node] = classes[q % len(classes)]
        if rng.random() < 0.15:
            v = [(-2 if x == -1 and rng.random() < 0.5 else x) for x in v]      # negative labels other than -1
        kw = _seed_kw_square(rng, v)
        if t % 3 == 0:
            # the same seeds once as a dict inserted in descending key order and once as an array: the answers must be
            # those of the same model input
            kw = {'labels': mk_seed('dict', v, rng)}
            jobs.append(_prop_job(rng, g, {'labels': mk_seed('arr', v)}, weighted=True, order=None, n_iter=-1))
            ctx.count('seeds:dict-and-array')
        ctx.count('graph:free-nodes')
        for weighted in (True, False):
            jobs.append(_prop_job(rng, g, kw, weighted=weighted,
                                  order=rng.choice([None, 'increasing', 'decreasing', 'random', 'random']),
                                  n_iter=rng.choice([-1, -1, -1, 1, 2, 3])))
        jobs.append({'kind': 'diff', 'graph': g, 'n_iter': rng.choice([1, 2, 3, 10]), 'centering': rng.random() < 0.6,
                     'scale': rng.choice([5, 5, 1, 2.5]), 'symmetric': not directed, **kw})

    if not search_mode:
        # ---- 2. structured random graphs
        n_struct = int((36 if quick else 400) * scale)
        for name, n, es, _ in graphs.suite(rng, n_struct, 3, 12):
            kind = name.rstrip('0123456789')
            directed = kind in graphs.DIRECTED_KINDS
            w = _weights(rng, es, directed)
            a = _csr(n, es, w)
            if rng.random() < 0.3:
                a = graphs.unsorted_copy(a, rng)
            g = gdesc(a)
            ctx.count('graph:' + kind)
            v = _rand_seeding(rng, n, p_seed=0.25)
            kw = _seed_kw_square(rng, v)
            for weighted in (True, False):
                jobs.append(_prop_job(rng, g, kw, weighted=weighted,
                                      order=rng.choice([None, 'increasing', 'decreasing', 'random']),
                                      n_iter=rng.choice([-1, -1, 1, 3, 5, 0, -3])))
            jobs.append({'kind': 'diff', 'graph': g, 'n_iter': rng.choice([1, 2, 5, 10]), 'centering': rng.random() < 0.6,
                         'scale': rng.choice([5, 5, 1, 2.5]), 'symmetric': not directed, **kw})
            if rng.random() < 0.3:
                # a square matrix taken as a biadjacency matrix: the labels are those of the rows
                jobs.append({'kind': 'diff', 'graph': g, 'n_iter': rng.choice([1, 3, 10]), 'centering': rng.random() < 0.6,
                             'scale': 5, 'symmetric': True, 'force_bipartite': True, **kw})
            if len(es) > 0:
                jobs.append({'kind': 'knn', 'graph': g, 'k': rng.choice([1, 2, 3, 5]), 'normalize': rng.random() < 0.6, **kw})
                jobs.append({'kind': 'link', 'graph': g, 'k': rng.choice([1, 2, 3, 10]),
                             'threshold': _link_threshold(rng, a),
                             'index': None if rng.random() < 0.5 else sorted(rng.sample(range(n), rng.randint(1, n)))})
            if rng.random() < 0.8 and len(es) > 0:
                jobs.append({'kind': 'rank', 'graph': g, 'damping': rng.choice([0.85, 0.5]),
                             'solver': rng.choice(['piteration', 'piteration', 'diteration', 'lanczos', 'bicgstab']),
                             'n_iter': rng.choice([5, 10]), **kw})

        # ---- 2b. directed graphs for DiffusionClassifier (heat flows against the edges, distances along them)
        for _ in range(int((30 if quick else 300) * scale)):
            n = rng.randint(3, 10)
            es = graphs.structured(rng, rng.choice(graphs.DIRECTED_KINDS), n)
            g = gdesc(_csr(n, es, [rng.choice(WEIGHTS) for _ in es]))
            kw = _seed_kw_square(rng, _rand_seeding(rng, n))
            ctx.count('graph:directed-diffusion')
            jobs.append({'kind': 'diff', 'graph': g, 'n_iter': rng.choice([1, 2, 5, 10]), 'centering': rng.random() < 0.6,
                         'scale': rng.choice([5, 1]), 'symmetric': _is_symmetric(es), **kw})

        # ---- 2c. stored zeros and duplicate entries; weights that float32 cannot tell apart
        for _ in range(int((6 if quick else 60) * scale)):
            n = rng.randint(3, 8)
            es = graphs.structured(rng, rng.choice(['random_undirected', 'path', 'star', 'cycle']), n)
            g = _with_zeros_and_duplicates(rng, _csr(n, es, graphs.sym_weights(rng, es, [1, 2, 4, 0.5])))
            kw = _seed_kw_square(rng, _rand_seeding(rng, n))
            ctx.count('graph:stored-zeros-duplicates')
            jobs.append(_prop_job(rng, g, kw, weighted=rng.random() < 0.7, order=None, n_iter=rng.choice([-1, 3])))
            jobs.append({'kind': 'diff', 'graph': g, 'n_iter': rng.choice([2, 10]), 'centering': rng.random() < 0.5,
                         'scale': 5, 'symmetric': False, **kw})
        big = float(2 ** 24)
        jobs.append(_prop_job(rng, gdesc(_csr(3, [(0, 1), (0, 2), (1, 0), (2, 0)], [big, big + 1, big, big + 1])),
                              {'labels': mk_seed('dict', [-1, 0, 1])}, weighted=True, order=None, n_iter=-1))

        # ---- 2d. inputs at the edges of the quantifier: seeds on the columns only, no seed at all (the refusal of
        #          DiffusionClassifier), labels=None, a repeated index and a negative threshold for NNLinker
        for _ in range(int((6 if quick else 40) * scale)):
            nr, nc = rng.randint(2, 5), rng.randint(2, 5)
            es = graphs.random_edges(rng, nr, 0.6, m=nc)
            if not es:
                continue
            g = gdesc(_csr(nr, es, [rng.choice(WEIGHTS) for _ in es], m=nc))
            vc = _rand_seeding(rng, nc, p_seed=0.7) if nc >= 2 else [1]
            kw = {'labels_col': mk_seed(_form(rng), vc, rng)}
            ctx.count('graph:column-seeds-only')
            jobs.append(_prop_job(rng, g, kw, weighted=rng.random() < 0.6, order=rng.choice([None, 'random']), n_iter=-1))
            jobs.append({'kind': 'diff', 'graph': g, 'n_iter': rng.choice([1, 3]), 'centering': rng.random() < 0.6,
                         'scale': 5, 'symmetric': True, **kw})
            if _n_classes({'graph': g, **kw}) >= 2:
                jobs.append({'kind': 'knn', 'graph': g, 'k': rng.choice([1, 2]), 'normalize': rng.random() < 0.5, **kw})
                jobs.append({'kind': 'rank', 'graph': g, 'damping': 0.85, 'solver': 'piteration', 'n_iter': 10, **kw})
        for _ in range(int((4 if quick else 20) * scale)):
            n = rng.randint(3, 6)
            es = graphs.structured(rng, rng.choice(['path', 'random_undirected', 'random_directed']), n)
            if not es:
                continue
            a = _csr(n, es, [rng.choice(WEIGHTS) for _ in es])
            g = gdesc(a)
            jobs.append({'kind': 'diff', 'graph': g, 'n_iter': 2, 'centering': rng.random() < 0.5, 'scale': 5,
                         'symmetric': False, 'labels': mk_seed('arr', [-1] * n)})        # refused: no seed
            jobs.append({'kind': 'diff', 'graph': g, 'n_iter': 2, 'centering': rng.random() < 0.5, 'scale': 5,
                         'symmetric': False})                                            # labels=None
            idx = [rng.randrange(n) for _ in range(n)]
            jobs.append({'kind': 'link', 'graph': g, 'k': rng.choice([1, 2]), 'threshold': rng.choice([-0.5, -1]),
                         'index': idx})

        # ---- 3. bipartite graphs (rectangular and square-forced through labels_row / labels_col)
        n_bip = int((14 if quick else 150) * scale)
        for _ in range(n_bip):
            nr, nc = rng.randint(2, 6), rng.randint(2, 6)
            es = graphs.random_edges(rng, nr, rng.choice([0.3, 0.5, 0.7]), m=nc)
            w = [rng.choice(WEIGHTS) for _ in es]
            a = _csr(nr, es, w, m=nc)
            g = gdesc(a)
            v = _rand_seeding(rng, nr + nc, p_seed=0.45)
            vr, vc = v[:nr], v[nr:]
            if not any(x >= 0 for x in vr):
                vr[0] = v[nr] if v[nr] >= 0 else 1
            kw = _seed_kw_bip(rng, nr, nc, vr, vc)
            if nr == nc and 'labels' in kw and 'labels_col' not in kw:
                kw = {'labels_row': kw['labels']}
            ctx.count('graph:bipartite')
            jobs.append(_prop_job(rng, g, kw, weighted=rng.random() < 0.6,
                                  order=rng.choice([None, 'increasing', 'decreasing', 'random']), n_iter=rng.choice([-1, 2, 4])))
            nclass = _n_classes({'graph': g, **kw})
            jobs.append({'kind': 'diff', 'graph': g, 'n_iter': rng.choice([1, 3, 10]), 'centering': rng.random() < 0.6,
                         'scale': rng.choice([5, 1]), 'symmetric': True, **kw})
            if nclass >= 2 and es:
                jobs.append({'kind': 'knn', 'graph': g, 'k': rng.choice([1, 2, 3]), 'normalize': rng.random() < 0.6, **kw})
                if rng.random() < 0.5:
                    jobs.append({'kind': 'rank', 'graph': g, 'damping': 0.85,
                                 'solver': rng.choice(['piteration', 'diteration', 'lanczos', 'bicgstab']), 'n_iter': 10, **kw})
            if es:
                jobs.append({'kind': 'link', 'graph': g, 'k': rng.choice([1, 2, 10]), 'threshold': _link_threshold(rng, a),
                             'index': None})

    # ---- 4. the kernel alone: labels >= n, nnz < n, unequal weights, partial index
    n_vote = int((60 if quick else 600) * scale)
    for t in range(n_vote):
        n = rng.randint(2, 8)
        p = rng.choice([0.1, 0.3, 0.6])
        es = graphs.random_edges(rng, n, p, directed=True, loops=rng.random() < 0.2)
        a = _csr(n, es, [rng.choice(WEIGHTS) for _ in es])
        g = gdesc(a)
        pool = rng.choice([[0, 1], [0, 1, 2], [n, n + 3], [1, 40], [0, 2, 9]])
        labels = [rng.choice(pool + [-1]) for _ in range(n)]
        if t == 0:
            labels[0] = 10 ** 6       # far beyond any buffer sized by the number of nodes
        index = [i for i in range(n) if rng.random() < 0.7]
        if index and rng.random() < 0.15:
            index.append(rng.choice(index))      # a node visited twice in the same sweep
        rng.shuffle(index)
        jobs.append({'kind': 'vote', 'graph': g, 'labels': labels, 'index': index})

    if not search_mode:
        # ---- 5. directed cycles without seeds (every node starts with its own label): the sweep may cycle
        for n in (3, 4, 5):
            g = gdesc(_csr(n, graphs.structured(rng, 'dicycle', n)))
            jobs.append(_prop_job(rng, g, {}, weighted=True, order=None, n_iter=-1))
        # disjoint directed cycles of lengths 3, 4, 6: the configurations come back only after 30 sweeps, the default
        # n_iter = -1 stops after n + 1 = 14
        es, off = [], 0
        for ln in (3, 4, 6):
            es += [(off + i, off + (i + 1) % ln) for i in range(ln)]
            off += ln
        jobs.append(_prop_job(rng, gdesc(_csr(13, es)), {}, weighted=True, order=None, n_iter=-1))
        jobs.append(_prop_job(rng, gdesc(_csr(3, [(0, 1), (1, 2), (2, 0)])), {'labels': mk_seed('arr', [0, 1, 2])}))
        jobs.append(_prop_job(rng, gdesc(_csr(3, [(0, 1), (1, 0), (1, 2), (2, 1)])), {'labels': mk_seed('arr', [2, 0, 1])}))

    # ---- 6. nearest-neighbour cores on integer embeddings (exact ties)
    n_core = int((40 if quick else 400) * scale)
    for _ in range(n_core):
        n = rng.randint(3, 9)
        d = rng.randint(1, 3)
        emb = [[rng.choice([0, 1, 2, -1]) for _ in range(d)] for _ in range(n)]
        vals = _rand_seeding(rng, n, p_seed=0.5)
        if all(v >= 0 for v in vals):
            vals[rng.randrange(n)] = -1
        jobs.append({'kind': 'knn_core', 'emb': emb, 'values': vals, 'k': rng.choice([1, 2, 3, 4]),
                     'sparse': rng.random() < 0.5})
        nrow = n if rng.random() < 0.6 else rng.randint(1, n - 1)
        jobs.append({'kind': 'link_core', 'emb': emb, 'mask': [int(rng.random() < 0.8) for _ in range(nrow)],
                     'k': rng.choice([1, 2, 3, 10]), 'threshold': _link_threshold(rng, None, core_emb=emb),
                     'sparse': rng.random() < 0.5})

    # ---- 7. metrics
    n_met = int((50 if quick else 600) * scale)
    for t in range(n_met):
        n = rng.randint(1, 9)
        k = rng.choice([2, 2, 3, 4])
        pool = list(range(k)) if rng.random() < 0.7 else rng.sample(range(6), k)
        tt = [rng.choice(pool + [-1]) for _ in range(n)]
        pp = [(x if rng.random() < 0.6 and x >= 0 else rng.choice(pool + [-1])) for x in tt]
        if t % 11 == 0:
            pp = pp[:-1]                     # length mismatch
        for name in ('accuracy', 'confusion', 'f1s', 'macro', 'micro', 'weighted'):
            jobs.append({'kind': 'metric', 'name': name, 't': tt, 'p': pp})
        if rng.random() < 0.1:
            jobs.append({'kind': 'metric', 'name': 'other', 't': tt, 'p': pp})
        bt = [rng.choice([0, 1, -1]) for _ in range(n)]
        bp = [rng.choice([0, 1, 1, -1]) for _ in range(n)]
        jobs.append({'kind': 'metric', 'name': 'f1', 't': bt, 'p': bp})
    return jobs


def corpus_jobs():
    p = os.path.join(VERIF, 'corpus', 'C13.jsonl')
    out = []
    if os.path.exists(p):
        for ln in open(p):
            ln = ln.strip()
            if ln and not ln.startswith('#'):
                out.append(json.loads(ln)['case'])
    return out


def run_checked_build(ctx, jobs, plain_results):
    """Thorough tier: the kernel jobs once more on the bounds-checked build of the working tree (Cython boundscheck,
    _GLIBCXX_ASSERTIONS): an access outside a buffer raises or aborts instead of passing silently.  Time-outs are retried
    alone as in the main pass; the reference answers are those of the main pass."""
    from vlib import overlay
    root, info = overlay.sync('checked')
    pick = [i for i, j in enumerate(jobs) if j['kind'] in ('vote', 'prop')]
    sel = [jobs[i] for i in pick]
    results = run_jobs(ctx, sel, root=root)
    _retry_timeouts(ctx, sel, results, root=root)
    for job, res, ref in zip(sel, results, [plain_results[i] for i in pick]):
        ctx.count('checked-build:' + job['kind'])
        if res is None or res['status'] == 'skipped':
            continue
        bad = None
        if res['status'] in ('crash', 'timeout'):
            bad = 'the bounds-checked build %s' % ('aborted (%s)' % res.get('detail') if res['status'] == 'crash' else
                                                   'did not return within %.0f s, nor within %.0f s alone' % (JOB_TIMEOUT, RETRY_TIMEOUT))
        elif res['status'] == 'err' and (ref is None or ref.get('status') != 'err'):
            bad = 'the bounds-checked build raises %s: %s' % (res['err'], res.get('msg'))
        elif res['status'] == 'ok' and ref is not None and ref.get('status') == 'ok' and res.get('labels') != ref.get('labels'):
            bad = 'the bounds-checked build answers %s, the plain build %s' % (res.get('labels'), ref.get('labels'))
        if bad:
            ctx.case(('checked', json.dumps(job, sort_keys=True)), True)
            ctx.spec_fail(dict(job_sig(job), failure='out-of-bounds', check='checked-build'), job, {'what': bad})
    ctx.extra['checked_build'] = {'jobs': len(sel), 'overlay': info}


def run(ctx):
    Ties.skipped = 0
    Hanging.entries = set()
    jobs = corpus_jobs()
    ctx.count('corpus', len(jobs))
    jobs += gen_jobs(ctx, scale=1.0 if ctx.quick else 5.0)
    results = run_and_evaluate(ctx, jobs)
    if not ctx.quick:
        run_checked_build(ctx, jobs, results)


def search(ctx, pending):
    """Failing-input search: the specification on the implementation over the small space of gen_jobs(mode='search') —
    every (di)graph with at most 3 nodes x every seeding for Propagation / DiffusionClassifier (undirected n = 4: all in the
    thorough tier, 12 sampled in the quick tier), NNClassifier / NNLinker / PageRankClassifier on those graphs, the vote
    kernel alone, the nearest-neighbour cores on integer embeddings and the metrics — plus the corpus."""
    from vlib.core import load_findings, match_finding
    sub = Sub(ctx)
    sub.overlay_root = ctx.overlay_root
    jobs = [j for j in corpus_jobs() + gen_jobs(sub, mode='search') if job_sig(j)['entry'] not in Hanging.entries]
    run_and_evaluate(sub, jobs)
    # a failing input explains a broken tie only if it is about the same entry point and is not an already
    # recorded finding (those are reported by the main run itself)
    entries = {p[1].get('entry') for p in pending}
    findings = load_findings()
    out = [f for f in sub.found(limit=10 ** 6)
           if f['sig'].get('entry') in entries and match_finding(findings, ctx.prop, f['sig']) is None]
    return out[:5]


def replay(ctx, payload):
    job = payload.get('case') or (payload.get('what_no_longer_checks') or {}).get('case')
    if not isinstance(job, dict) or 'kind' not in job:
        jobs = corpus_jobs() + gen_jobs(ctx, mode='search')
    else:
        jobs = [job]
    run_and_evaluate(ctx, jobs)


if __name__ == '__main__' and len(sys.argv) >= 4 and sys.argv[1] == '--worker':
    sys.path.insert(0, os.path.join(VERIF, 'tools'))
    worker_main(sys.argv[2], sys.argv[3])
