"""C20 — drawings are well-formed SVG showing every node and edge once.

Correspondence: every case calls the real `visualize_graph` / `visualize_bigraph` / `visualize_dendrogram`
(overlay build of /repo's working tree) and sends
  run  line -> the Lean model (SkNet/Model/Svg.lean) builds the same document; compared character for character
               after the canonicalisation below (numbers printed as `#`, marker definitions as a multiset);
  spec line -> the Lean specification (SkNet/Spec/Xml.lean: recogniser of well-formed XML; SkNet/Spec/Svg.lean:
               expected node shapes / edge paths / displayed names, stated from the input alone) evaluated on the
               string the implementation returned; a real XML parser (expat) must accept the string too;
  spec_file -> the bytes of the file written with `filename`, decoded by the Lean UTF-8 decoder, are the returned string.
Theorems (SkNet/Properties/C20.lean) tie model and specification for every input.
"""
import os
import re
import shutil
import xml.etree.ElementTree as ET
from fractions import Fraction

import numpy as np
from scipy import sparse

from vlib import graphs
from vlib.cases import Case, Sub, evaluate as _evaluate
from vlib import core

RULE = ('corpus; hostile sweep (every entry of a hostile alphabet through the five text templates, with filename); '
        'degenerate / malformed stream (labels, scores, colours, names of wrong length or empty, edge labels out of range, '
        'empty / short / long membership, falsy canvas, node_order subsets / repeats / out of range, layout of the wrong '
        'shape, 0 and 1 nodes, invalid and empty dendrograms, n_clusters out of range: "raises iff raises" is compared, '
        'not the exception class); deterministic option matrix (every display option of the three entry points at '
        'least once, on a graph with unsorted indices, a stored zero and a negative weight, and on a symmetric graph, '
        'names as list / object array / str array, hostile colour strings); positions at and below the float64 resolution '
        'of the layout and on the same pixel (domain decided per case); all digraphs n<=3 x 4 position patterns x directed in {None,True,False} with hostile '
        'names; 40/1500 digraphs n=4; 70/700 structured random graphs n<=10 (explicit zeros, unsorted indices, '
        'int/bool/float and signed weights) with random option bundles; all 0/1 biadjacency matrices up to 2x3 + 50/500 '
        'random bigraphs (stored zeros, signed); 120/1500 random valid dendrograms 2..9 leaves; a second configuration '
        '(ASCII default encoding, subprocess). A case is non-trivial when the drawing has at least one edge path or pie '
        'sector or a name with a character that needs sanitising; distinct = distinct (entry point, input, options)')
ASSUMPTIONS = ['numbers are abstract tokens: the model is compared with the implementation after every number printed in '
               'a numeric attribute is replaced by #, and score colours rgb(...) by rgb(#)',
               'set(edge_colors) iterates in an unspecified order: marker definitions are compared as a multiset',
               'np.argsort returns some permutation (theorems); for the exact run lines: equal keys carry equal colours, '
               'so the masked document does not depend on the permutation',
               'Spring().fit_transform, cut_straight and Louvain are external (their outputs are inputs of the model; '
               'a case is skipped and counted when Spring raises)',
               'CSR input has no duplicate entries (the model answers OutOfModel on them; none is generated)',
               'the coincidence test of svg_edge_directed is taken on float64 images of the positions, the model takes it '
               'in exact arithmetic: they agree when the rescaled float64 images of distinct positions are distinct; '
               'a case where they are not (decided per case from float64 images computed by the harness) is outside the domain: '
               'its run line is skipped and its spec line is evaluated on the positions as drawn (counted in the evidence); Spring '
               'layouts are random floats (collision probability negligible)',
               'exception classes are not compared (raises iff raises is)',
               'the XML recogniser accepts a subset of XML 1.0 (no prolog / comments / PI / CDATA, ASCII names); expat '
               'is run on every returned string as a second opinion']

HOSTILE = ['<', '>', '&', '"', "'", ']]>', '\x00', '\x01', '\x08', '\x0b', '\x0c', '\x1f', '\x7f', '\x85', '\t', '\n',
           '\r', 'é', 'ß', '中', '😀', '\ud800', '\udfff', '\ufffe', '\uffff', '&amp;', '&#60;', '<!--', '<![CDATA[',
           '</text>', '</svg>', ' ', '', 'a', 'Z', '7', '-', '=', '/>', '\\', '%', '{}', '{0}']
HOSTILE_COLORS = ['<', 'a"b', 'a&b', "x'y>", 'c\x01', 'x' * 70, 'y' * 63 + '"<', 'ab\x00', '\ud800']
NEEDS_SANITISING = set('<>&"\'') | {chr(c) for c in list(range(0, 9)) + [11, 12] + list(range(14, 32))} | \
    {'\ud800', '\udfff', '\ufffe', '\uffff'}
COLORS = ['red', 'blue', 'green', 'black', 'gray', '#ff0000', 'rgb(1, 2, 3)', 'orange', 'white',
          # hostile colour strings: markup, quotes, characters XML cannot represent, more than 64 characters (numpy
          # 'U64' arrays truncate), NULs (numpy str arrays drop trailing ones)
          '<', 'a"b', 'a&b', "x'y>", '\u00e9<', 'c\x01', 'x' * 70, 'y' * 63 + '"<', 'a\x00b', 'ab\x00', '\ud800', '']


# ---- protocol encoding ----------------------------------------------------------------------
def enc_str(s):
    return 's' + ','.join(str(ord(c)) for c in s)


def enc_doc(s):
    return ','.join(str(ord(c)) for c in s) if s else '-'


def dec_doc(s):
    return '' if s == '-' else ''.join(chr(int(x)) for x in s.split(','))


def enc_rat(x):
    f = Fraction(x)
    return str(f.numerator) if f.denominator == 1 else '%d/%d' % (f.numerator, f.denominator)


def enc_opt(x, f):
    return '_' if x is None else f(x)


def enc_names(names):
    if names is None:
        return '_'
    return ';'.join(enc_str(str(x)) for x in names) if len(names) else '-'


def _ix(k, n):
    """numpy's reading of an index into an axis of length n (external): k in [-n, -1] is n + k; anything else out of
    range is sent as an index that is out of range for the model too"""
    k = int(k)
    if k >= 0:
        return k
    return n + k if n + k >= 0 else n + 10 ** 6


def enc_labels(lab, n=0):
    if lab is None:
        return '_'
    kind, v = lab
    if kind == 'D':
        return 'D' + ','.join('%d:%d' % (_ix(k, n), int(x)) for k, x in v)
    return kind + ','.join(str(int(x)) for x in v)


def enc_scores(sc, n=0):
    if sc is None:
        return '_'
    kind, v = sc
    if kind == 'D':
        return 'D' + ','.join(str(_ix(k, n)) for k, _ in v)
    return kind + str(len(v))


def enc_probs(p):
    """p = ('dense'|'sparse', ncols, rows) with rows = list of stored (col, value) lists"""
    if p is None:
        return '_'
    _, k, rows = p
    return 'P%d@' % k + ';'.join((','.join('%d:%s' % (c, enc_rat(v)) for c, v in r) if r else '-') for r in rows)


def enc_label_colors(lc):
    if lc is None:
        return '_'
    kind, v = lc
    if kind == 'D':
        return 'D' + ';'.join('%d:%s' % (int(k), enc_str(x)) for k, x in v)
    return 'L' + ';'.join(enc_str(x) for x in v)


def enc_entries(es):
    return ';'.join('%d,%d,%s' % (i, j, enc_rat(w)) for i, j, w in es) if es else '-'


def enc_pos(pos):
    return ';'.join('%s,%s' % (enc_rat(x), enc_rat(y)) for x, y in pos) if len(pos) else '-'


# ---- canonicalisation of documents ------------------------------------------------------------
NUM = r'-?(?:\d+\.?\d*(?:e[-+]?\d+)?|nan|inf)'
NUMERIC_ATTRS = {'width', 'height', 'cx', 'cy', 'r', 'x', 'y', 'stroke-width', 'font-size', 'd', 'transform'}
_ATTR = re.compile(r'([A-Za-z_:][-A-Za-z0-9_:.]*)="([^"]*)"')
_TEXT = re.compile(r'(<text\b[^>]*>)(.*?)(</text>)', re.S)
_DEFS = re.compile(r'(?:<defs>.*?</defs>\n)+', re.S)


def _mask_attr(m):
    k, v = m.group(1), m.group(2)
    if k in NUMERIC_ATTRS:
        v = re.sub(NUM, '#', v)
    elif k == 'style':
        v = re.sub(r'fill:rgb\(.*\);stroke:', 'fill:rgb(#);stroke:', v, flags=re.S)
        v = re.sub(r'stroke-width:' + NUM + r'$', 'stroke-width:#', v)
    return '%s="%s"' % (k, v)


def _mask_markup(s):
    return _ATTR.sub(_mask_attr, s)


def canon(doc):
    """numbers -> #, score colours -> rgb(#), marker definitions sorted; text content untouched"""
    m = _DEFS.search(doc)
    if m:
        blocks = re.findall(r'<defs>.*?</defs>\n', m.group(0), flags=re.S)
        doc = doc[:m.start()] + ''.join(sorted(blocks)) + doc[m.end():]
    out, pos = [], 0
    for m in _TEXT.finditer(doc):
        out.append(_mask_markup(doc[pos:m.start()]))
        out.append(_mask_markup(m.group(1)))
        out.append(m.group(2))
        out.append(m.group(3))
        pos = m.end()
    out.append(_mask_markup(doc[pos:]))
    return ''.join(out)


def expat_ok(doc):
    try:
        root = ET.fromstring(doc)
        return root.tag.endswith('svg')
    except Exception:
        return False


# ---- temp directory for files -------------------------------------------------------------------
_TMP = [None]


def tmpdir():
    if _TMP[0] is None:
        d = os.path.join(core.CACHE, 'c20_tmp_%d' % os.getpid())
        shutil.rmtree(d, ignore_errors=True)
        os.makedirs(d)
        _TMP[0] = d
    return _TMP[0]


def cleanup():
    if _TMP[0]:
        shutil.rmtree(_TMP[0], ignore_errors=True)
        _TMP[0] = None


_FILE_NO = [0]
SKIPS = {}
OBS = {}


def _skip(why):
    SKIPS[why] = SKIPS.get(why, 0) + 1


def call_impl(f, kwargs, with_file):
    """Run the implementation. Returns (answer, returned string or None, file content or None)."""
    path = None
    if with_file:
        _FILE_NO[0] += 1
        path = os.path.join(tmpdir(), 'img%d' % _FILE_NO[0])
        kwargs = dict(kwargs, filename=path)
    try:
        with np.errstate(all='ignore'):
            doc = f(**kwargs)
    except (ValueError, IndexError, TypeError, KeyError, ZeroDivisionError, UnicodeError, AttributeError,
            NotImplementedError) as e:
        return 'err ' + type(e).__name__, None, None
    content = None
    if path is not None:
        try:
            with open(path + '.svg', 'rb') as fh:
                content = fh.read()
        except Exception:  # the file is missing or unreadable: reported through spec_file
            content = b'\xff'

        try:
            os.remove(path + '.svg')
        except OSError:
            pass
    return 'ok', doc, content


# ---- building the inputs from a JSON-able description -------------------------------------------
def _names_from(desc):
    """names are stored as [kind, value]: 's' code points, 'i' int, 'f' float, 'n' numpy str"""
    if desc is None:
        return None
    out = []
    for kind, v in desc:
        if kind == 's':
            out.append(''.join(chr(c) for c in v))
        elif kind == 'i':
            out.append(int(v))
        elif kind == 'f':
            out.append(float(v))
        else:
            out.append(np.str_(''.join(chr(c) for c in v)))
    return out


def _names_arg(desc, as_array):
    """the `names` argument: a list, an object ndarray (True) or a str-dtype ndarray ('str': the documented type;
    numpy drops trailing NULs, the model receives what `str(name)` gives)"""
    names = _names_from(desc)
    if names is None or not as_array:
        return names
    if as_array == 'str':
        return np.array([str(x) for x in names]) if names else np.array([], dtype='U1')
    return np.array(names, dtype=object)


CONTAINERS = {'csr': lambda m: m, 'csc': sparse.csc_matrix, 'coo': sparse.coo_matrix, 'lil': sparse.lil_matrix,
              'dok': sparse.dok_matrix, 'csr_array': sparse.csr_array, 'dense': lambda m: m.toarray()}


def _matrix(shape, indptr, indices, data, dtype, container='csr'):
    dt = {'float': float, 'int': int, 'bool': bool}[dtype]
    m = sparse.csr_matrix((np.array(data, dtype=dt), np.array(indices, dtype=np.int32),
                           np.array(indptr, dtype=np.int32)), shape=tuple(shape))
    return CONTAINERS[container](m)


def _stored(m):
    """the stored entries, in the order of the CSR copy the drawing functions work on (scipy is external)"""
    c = sparse.csr_matrix(m, copy=True)
    return _entries(c.indptr.tolist(), c.indices.tolist(), [Fraction(float(v)) for v in c.data])


def _entries(indptr, indices, data):
    es = []
    for i in range(len(indptr) - 1):
        for p in range(indptr[i], indptr[i + 1]):
            es.append((i, int(indices[p]), Fraction(data[p])))
    return es


def _labels_arg(lab):
    if lab is None:
        return None
    kind, v = lab
    if kind == 'D':
        return {int(k): int(x) for k, x in v}
    return list(v) if kind == 'L' else np.array(v, dtype=int)


def _scores_arg(sc):
    if sc is None:
        return None
    kind, v = sc
    if kind == 'D':
        return {int(k): float(x) for k, x in v}
    return list(v) if kind == 'L' else np.array(v, dtype=float)


def _probs_arg(p, n):
    if p is None:
        return None
    kind, k, rows = p
    if kind == 'dense':
        a = np.zeros((len(rows), k))
        for i, r in enumerate(rows):
            for c, v in r:
                a[i, c] = float(v)
        return a
    indptr, indices, data = [0], [], []
    for r in rows:
        for c, v in r:
            indices.append(c)
            data.append(float(v))
        indptr.append(len(indices))
    return sparse.csr_matrix((np.array(data, dtype=float), np.array(indices, dtype=np.int32),
                              np.array(indptr, dtype=np.int32)), shape=(len(rows), k))


def _label_colors_arg(lc):
    if lc is None:
        return None
    kind, v = lc
    if kind == 'D':
        return {int(k): x for k, x in v}
    return list(v)


LAYOUT_KEYS = ['margin', 'node_size', 'node_size_max', 'font_size', 'scale']


def _common_tokens(o, prefix_names=('names',)):
    toks = []
    for k in LAYOUT_KEYS:
        if k in o:
            toks.append('%s=%s' % (k, enc_rat(o[k])))
    for k in ('width', 'height'):
        if k in o:
            toks.append('%s=%s' % (k, enc_opt(o[k], enc_rat)))
    if 'display_edges' in o:
        toks.append('display_edges=%d' % int(o['display_edges']))
    if o.get('edge_labels'):
        toks.append('edge_labels=' + ';'.join('%d,%d,%d' % tuple(e) for e in o['edge_labels']))
    if 'edge_color' in o:
        toks.append('edge_color=' + enc_opt(o['edge_color'], enc_str))
    if 'label_colors' in o:
        toks.append('label_colors=' + enc_label_colors(o['label_colors']))
    return toks


def graph_case(desc):
    from sknetwork.visualization import visualize_graph, svg_graph
    from sknetwork.embedding import Spring
    o = desc['opts']
    n = desc['n']
    has_adj = desc['indptr'] is not None
    kwargs = {}
    es = []
    adj = None
    if has_adj:
        adj = _matrix((n, n), desc['indptr'], desc['indices'], desc['data'], desc.get('dtype', 'float'),
                      desc.get('container', 'csr'))
        es = _stored(adj)
        kwargs['adjacency'] = adj
    pos = desc['position']
    if pos is not None:
        kwargs['position'] = np.array(pos, dtype=float)
        mpos = [(Fraction(x), Fraction(y)) for x, y in pos]
    elif not has_adj:
        mpos = []           # neither adjacency nor position: the code raises
    else:
        # Spring is external: its layout is an input of the model
        tmp = sparse.csr_matrix(adj, copy=True)
        tmp.eliminate_zeros()
        np.random.seed(desc['spring_seed'])
        try:
            sp = Spring().fit_transform(tmp)
        except Exception:
            _skip('Spring raised')
            return None
        mpos = [(Fraction(float(x)), Fraction(float(y))) for x, y in sp]
    names = _names_arg(desc.get('names'), desc.get('names_array'))
    if names is not None:
        kwargs['names'] = names
    toks = ['n=%d' % n, 'has_adj=%d' % int(has_adj), 'has_pos=%d' % int(pos is not None), 'es=' + enc_entries(es),
            'pos=' + enc_pos(mpos), 'names=' + enc_names(names)]
    if 'name_position' in o:
        kwargs['name_position'] = o['name_position']
        toks.append('name_position=' + (o['name_position'] if o['name_position'] in ('left', 'right', 'above', 'below') else 'other'))
    if o.get('labels') is not None:
        kwargs['labels'] = _labels_arg(o['labels'])
        toks.append('labels=' + enc_labels(o['labels'], n))
    if o.get('scores') is not None:
        kwargs['scores'] = _scores_arg(o['scores'])
        toks.append('scores=' + enc_scores(o['scores'], n))
    if o.get('probs') is not None:
        kwargs['probs'] = _probs_arg(o['probs'], n)
        toks.append('probs=' + enc_probs(o['probs']))
    if o.get('node_order') is not None:
        kwargs['node_order'] = np.array(o['node_order'], dtype=int)
        toks.append('node_order=' + (','.join(str(_ix(i, n)) for i in o['node_order']) if o['node_order'] else '-'))
    for k in ('seeds', 'margin_text', 'node_size_min', 'node_width', 'node_width_max', 'edge_width', 'edge_width_min',
              'edge_width_max', 'display_edge_weight'):
        if k in o:
            kwargs[k] = o[k]
    if 'seeds' in o and isinstance(o['seeds'], list) and o['seeds'] and isinstance(o['seeds'][0], list):
        kwargs['seeds'] = {int(k): v for k, v in o['seeds']}
    for k in LAYOUT_KEYS + ['width', 'height', 'display_edges', 'edge_color', 'directed']:
        if k in o:
            kwargs[k] = o[k]
    if o.get('edge_labels') is not None:
        kwargs['edge_labels'] = [tuple(e) for e in o['edge_labels']]
    if 'label_colors' in o:
        kwargs['label_colors'] = _label_colors_arg(o['label_colors'])
    if 'node_color' in o:
        kwargs['node_color'] = o['node_color']
        toks.append('node_color=' + enc_str(o['node_color']))
    dnw = o.get('display_node_weight')
    if dnw is not None:
        kwargs['display_node_weight'] = dnw
    if o.get('node_weights') is not None:
        kwargs['node_weights'] = np.array(o['node_weights'], dtype=float)
    eff_dnw = dnw if dnw is not None else (o.get('node_weights') is not None)
    toks.append('dnw=%d' % int(bool(eff_dnw)))
    if 'directed' in o:
        toks.append('directed=' + enc_opt(o['directed'], lambda b: str(int(b))))
    toks += _common_tokens(o)
    f = svg_graph if desc.get('alias') else visualize_graph
    if pos is None and has_adj:
        np.random.seed(desc['spring_seed'])
    ans, doc, content = call_impl(f, kwargs, desc.get('file', False))
    # the count statement is about a canvas with a non-zero dimension and scale, and nodes inside the layout
    degenerate = not ((o.get('width', 400) or o.get('height', 300)) and o.get('scale', 1))
    # domain of the model: the float64 images of distinct positions are distinct (see `_float_images`)
    extra, run = [], True
    cls = _float_classes(mpos, o, names, eff_dnw) if (doc is not None and not degenerate) else None
    if cls is not None and any(mpos[k] != mpos[c] for k, c in enumerate(cls)):
        # two nodes given distinct positions are drawn at the same float64 point: outside the domain of the exact
        # model (run line not compared); the specification is evaluated on the positions *as drawn*
        OBS['domain:float-images-collide'] = OBS.get('domain:float-images-collide', 0) + 1
        run = False
        extra = ['pos=' + enc_pos([mpos[c] for c in cls])]
    return _mk_case('graph', 'visualize_graph', desc, toks, ans, doc, content, spec=not degenerate,
                    run=run, spec_extra=extra)


def _float_images(position, o, names, dnw):
    """float64 images of the positions: `rescale` then `position *= scale`, written here a second time with numpy
    (same operations in the same order) — an observation of where float64 puts the nodes, independent of the code
    under test"""
    position = np.array(position, dtype=float)
    width, height = o.get('width', 400), o.get('height', 300)
    margin, node_size, node_size_max = o.get('margin', 20), o.get('node_size', 7), o.get('node_size_max', 20)
    font_size, name_position = o.get('font_size', 12), o.get('name_position', 'right')

    def mm(v):
        v = v.astype(float)
        v_min, v_max = np.min(v), np.max(v)
        v -= v_min
        if v_max > v_min:
            v /= (v_max - v_min)
        else:
            v = .5 * np.ones_like(v)
        return v
    x = position[:, 0]
    y = position[:, 1]
    span_x = np.max(x) - np.min(x)
    span_y = np.max(y) - np.min(y)
    x = mm(x)
    y = 1 - mm(y)
    pos = np.vstack((x, y)).T
    if width and not height:
        height = width
        if span_x and span_y:
            height *= span_y / span_x
    elif height and not width:
        width = height
        if span_x and span_y:
            width *= span_x / span_y
    pos = pos * np.array([width, height])
    if names is not None:
        lengths = np.array([len(str(name)) for name in names])
        if name_position == 'left':
            m = -np.min(pos[:, 0] - lengths * font_size)
            pos[:, 0] += m * (m > 0)
        elif name_position == 'right':
            pass
        else:
            m = -np.min(pos[:, 0] - lengths * font_size / 2)
            pos[:, 0] += m * (m > 0)
            if name_position == 'above':
                pos[:, 1] += font_size
    pos += max(margin, node_size_max * dnw, node_size)
    pos *= o.get('scale', 1)
    return pos


def _float_classes(mpos, o, names, dnw):
    """for every node the first node drawn at the same float64 point; None when the layout cannot be computed"""
    try:
        with np.errstate(all='ignore'):
            img = _float_images([[float(x), float(y)] for x, y in mpos], o, names, dnw)
    except Exception:
        return None
    if not np.all(np.isfinite(img)):
        return None
    cls = []
    for k in range(len(img)):
        cls.append(next(c for c in range(k + 1) if img[c][0] == img[k][0] and img[c][1] == img[k][1]))
    return cls


def bigraph_case(desc):
    from sknetwork.visualization import visualize_bigraph, svg_bigraph
    o = desc['opts']
    nr, nc = desc['shape']
    b = _matrix((nr, nc), desc['indptr'], desc['indices'], desc['data'], desc.get('dtype', 'float'),
                desc.get('container', 'csr'))
    es = _stored(b)
    kwargs = {'biadjacency': b}
    toks = ['n_row=%d' % nr, 'n_col=%d' % nc, 'es=' + enc_entries(es)]
    for side in ('row', 'col'):
        names = _names_arg(desc.get('names_' + side), desc.get('names_array'))
        if names is not None:
            kwargs['names_' + side] = names
        toks.append('names_%s=%s' % (side, enc_names(names)))
        if o.get('labels_' + side) is not None:
            kwargs['labels_' + side] = _labels_arg(o['labels_' + side])
            toks.append('labels_%s=%s' % (side, enc_labels(o['labels_' + side], nr if side == 'row' else nc)))
        if o.get('scores_' + side) is not None:
            kwargs['scores_' + side] = _scores_arg(o['scores_' + side])
            toks.append('scores_%s=%s' % (side, enc_scores(o['scores_' + side], nr if side == 'row' else nc)))
        if o.get('probs_' + side) is not None:
            kwargs['probs_' + side] = _probs_arg(o['probs_' + side], nr if side == 'row' else nc)
            toks.append('probs_%s=%s' % (side, enc_probs(o['probs_' + side])))
        if 'color_' + side in o:
            kwargs['color_' + side] = o['color_' + side]
            toks.append('color_%s=%s' % (side, enc_str(o['color_' + side])))
        if o.get('seeds_' + side) is not None:
            kwargs['seeds_' + side] = o['seeds_' + side]
        if o.get('node_weights_' + side) is not None:
            kwargs['node_weights_' + side] = np.array(o['node_weights_' + side], dtype=float)
        if o.get('position_' + side) is not None:
            kwargs['position_' + side] = np.array(o['position_' + side], dtype=float)
    if o.get('position_row') is not None and o.get('position_col') is not None:
        toks.append('pos_len=%d' % (len(o['position_row']) + len(o['position_col'])))
    for k in ('reorder', 'margin_text', 'node_size_min', 'node_width', 'node_width_max', 'edge_width', 'edge_width_min',
              'edge_width_max', 'display_edge_weight', 'display_node_weight'):
        if k in o:
            kwargs[k] = o[k]
    for k in LAYOUT_KEYS + ['width', 'height', 'display_edges', 'edge_color']:
        if k in o:
            kwargs[k] = o[k]
    if o.get('edge_labels') is not None:
        kwargs['edge_labels'] = [tuple(e) for e in o['edge_labels']]
    if 'label_colors' in o:
        kwargs['label_colors'] = _label_colors_arg(o['label_colors'])
    toks += _common_tokens(o)
    f = svg_bigraph if desc.get('alias') else visualize_bigraph
    ans, doc, content = call_impl(f, kwargs, desc.get('file', False))
    return _mk_case('bigraph', 'visualize_bigraph', desc, toks, ans, doc, content)


def dendro_case(desc):
    from sknetwork.visualization import visualize_dendrogram, svg_dendrogram
    from sknetwork.hierarchy import cut_straight
    o = desc['opts']
    d = np.array(desc['dendrogram'], dtype=float)
    kwargs = {'dendrogram': d}
    names = _names_arg(desc.get('names'), desc.get('names_array'))
    if names is not None:
        kwargs['names'] = names
    for k in ('rotate', 'rotate_names', 'reorder', 'n_clusters', 'color', 'width', 'height', 'margin', 'margin_text',
              'scale', 'line_width', 'font_size'):
        if k in o:
            kwargs[k] = o[k]
    colors_tok = None
    if o.get('colors') is not None:
        kind, v = o['colors']
        kwargs['colors'] = {int(k): x for k, x in v} if kind == 'D' else (list(v) if kind == 'L' else np.array(v))
        cl = [x for _, x in v] if kind == 'D' else list(v)
        colors_tok = 'colors=' + (';'.join(enc_str(x) for x in cl) if cl else '-')
    d = d.reshape((-1, 4)) if d.size == 0 else d
    kwargs['dendrogram'] = d
    try:
        with np.errstate(all='ignore'):
            cut = cut_straight(d, o.get('n_clusters', 2), return_dendrogram=False)
        cut_tok = 'cut=' + (','.join(str(int(x)) for x in cut) if len(cut) else '-')
    except Exception:
        cut_tok = 'cut=_'           # cut_straight (external) raised: so does the drawing function
    toks = ['merges=' + (';'.join('%d,%d' % (int(r[0]), int(r[1])) for r in d) if len(d) else '-'),
            cut_tok, 'names=' + enc_names(names),
            'rotate=%d' % int(o.get('rotate', False)), 'rotate_names=%d' % int(o.get('rotate_names', True)),
            'reorder=%d' % int(o.get('reorder', False))]
    if 'color' in o:
        toks.append('color=' + enc_str(o['color']))
    if colors_tok:
        toks.append(colors_tok)
    f = svg_dendrogram if desc.get('alias') else visualize_dendrogram
    ans, doc, content = call_impl(f, kwargs, desc.get('file', False))
    cases = _mk_case('dendrogram', 'visualize_dendrogram', desc, toks, ans, doc, content)
    # the leaf order (it only moves the drawing: compared exactly on its own)
    from sknetwork.visualization.dendrograms import get_index
    try:
        idx = 'ok ' + (','.join(str(int(x)) for x in get_index(d, o.get('reorder', False))) or '-')
    except (KeyError, IndexError, ValueError) as e:
        idx = 'err ' + type(e).__name__
    run = 'c20.index %s reorder=%d' % (toks[0], int(o.get('reorder', False)))
    cases.append(Case(('index', toks[0], o.get('reorder', False)), {'entry': 'get_index'}, run, idx, None, len(d) > 1, desc))
    return cases


def _mk_case(cmd, entry, desc, toks, ans, doc, content, spec=True, run=True, spec_extra=()):
    args = ' '.join(toks)
    run = 'c20.%s %s' % (cmd, args) if run else None
    sig = {'entry': entry}
    sig.update(desc.get('sig', {}))
    cases = []
    if doc is None:
        cases.append(Case((cmd, args), sig, 'c20.%s %s' % (cmd, args), ans, None, False, desc))
        return cases
    impl = 'ok ' + enc_doc(canon(doc))
    spec_line = None
    if spec:
        # (the first occurrence of a key wins: `spec_extra` overrides what the run line says)
        spec_line = 'c20.spec_%s %s %s expat=%d doc=%s' % (cmd, ' '.join(spec_extra), args, int(expat_ok(doc)),
                                                        enc_doc(doc))
    else:
        # outside the domain of the count statement: the returned string must still be a well-formed document
        spec_line = 'c20.wf expat=%d doc=%s' % (int(expat_ok(doc)), enc_doc(doc))
    nontrivial = ('<path' in doc) or any(c in NEEDS_SANITISING for nm in _all_names(desc) for c in nm)
    cases.append(Case((cmd, args), sig, run, impl, spec_line, nontrivial, desc, canon='doc'))
    if content is not None:
        same = 'c20.spec_file doc=%s bytes=%s' % (enc_doc(doc), ','.join(str(b) for b in content) or '-')
        cases.append(Case((cmd, args, 'file'), dict(sig, clause='file'), None, 'ok', same, True, desc))
    return cases


def _all_names(desc):
    out = []
    for k in ('names', 'names_row', 'names_col'):
        for kind, v in (desc.get(k) or []):
            out.append(''.join(chr(c) for c in v) if kind in ('s', 'n') else str(v))
    return out


def _same(c, model, impl, spec_ok):
    if c.canon == 'doc' and model.startswith('ok ') and impl.startswith('ok '):
        return canon(dec_doc(model[3:])) == dec_doc(impl[3:])
    if model.startswith('err ') and impl.startswith('err ') and model != 'err OutOfModel':
        # "raises iff raises" is what is compared; the exception class belongs to numpy / scipy, not to the property
        # (the number of class differences goes into the evidence)
        CLASS_DIFF[0] += 1
        return True
    return False


class _Lean:
    """the context handed to vlib's `evaluate`: answers `holds <remark>` are counted and read as `holds`"""

    def __init__(self, ctx):
        self._ctx = ctx

    def __getattr__(self, k):
        return getattr(self._ctx, k)

    def lean(self, lines):
        out = []
        for a in self._ctx.lean(lines):
            if a.startswith('holds '):
                self._ctx.count('spec:' + a[6:])
                a = 'holds'
            out.append(a)
        return out


CLASS_DIFF = [0]


def evaluate(ctx, cases):
    CLASS_DIFF[0] = 0
    _evaluate(_Lean(ctx), [c for c in cases if c is not None], same=_same)
    if CLASS_DIFF[0]:
        ctx.count('exit-class-differs', CLASS_DIFF[0])


# ---- generators ----------------------------------------------------------------------------------
def name_desc(rng, k, hostile=0.7):
    """k names: hostile pieces glued with harmless text; some non-str names"""
    out = []
    for i in range(k):
        r = rng.random()
        if r < hostile:
            parts = [rng.choice(HOSTILE) for _ in range(rng.choice([1, 1, 2, 3]))]
            glue = rng.choice(['', 'a', ' b ', 'node'])
            s = glue.join(parts) if rng.random() < 0.7 else glue + ''.join(parts) + glue
            out.append(['s', [ord(c) for c in s]])
        elif r < hostile + 0.1:
            out.append(['i', rng.randrange(-5, 1000)])
        elif r < hostile + 0.15:
            out.append(['f', rng.choice([0.5, 1.0, -2.25, 1e-05])])
        elif r < hostile + 0.2:
            out.append(['n', [ord(c) for c in rng.choice(['x<y', 'numpy', 'é&'])]])
        else:
            out.append(['s', [ord(c) for c in 'node %d' % i]])
    return out


def csr_parts(rng, n, m, edges, weights=None, zeros=0.0, shuffle=False):
    """indptr/indices/data in storage order; optional explicit zeros and unsorted indices"""
    rows = [[] for _ in range(n)]
    for k, (i, j) in enumerate(edges):
        w = 1 if weights is None else weights[k]
        rows[i].append((j, w))
    if zeros:
        present = set(edges)
        for i in range(n):
            for j in range(m):
                if (i, j) not in present and rng.random() < zeros:
                    rows[i].append((j, 0))
    indptr, indices, data = [0], [], []
    for r in rows:
        r.sort()
        if shuffle:
            rng.shuffle(r)
        for j, w in r:
            indices.append(j)
            data.append(w)
        indptr.append(len(indices))
    return indptr, indices, data


def rand_labels(rng, n, allow_neg=True):
    vals = [rng.randrange(-1 if allow_neg else 0, 13) for _ in range(n)]
    k = rng.random()
    if k < 0.4:
        return ['L', vals]
    if k < 0.7:
        return ['A', vals]
    keys = rng.sample(range(n), rng.randrange(1, n + 1))
    return ['D', [[i, vals[i]] for i in keys]]


def rand_scores(rng, n):
    vals = [rng.choice([0, 1, 2.5, -1, 7, 7]) for _ in range(n)]
    k = rng.random()
    if k < 0.4:
        return ['L', vals]
    if k < 0.7:
        return ['A', vals]
    keys = rng.sample(range(n), rng.randrange(1, n + 1))
    return ['D', [[i, vals[i]] for i in keys]]


def rand_probs(rng, n, kmax=4):
    k = rng.randrange(1, kmax + 1)
    kind = rng.choice(['dense', 'sparse'])
    rows = []
    for _ in range(n):
        r = rng.random()
        if r < 0.2:
            row = []
        elif r < 0.45:
            row = [(rng.randrange(k), rng.choice([1, 0.5, 0.25]))]
        else:
            cols = sorted(rng.sample(range(k), rng.randrange(1, k + 1)))
            row = [(c, rng.choice([0.5, 0.25, 0.125, 1])) for c in cols]
        if kind == 'sparse' and rng.random() < 0.25:
            # an explicit zero stored in the membership matrix
            free = [c for c in range(k) if c not in [x for x, _ in row]]
            if free:
                row = sorted(row + [(rng.choice(free), 0)])
        rows.append([[c, v] for c, v in row])
    if all(not r for r in rows):
        rows[0] = [[0, 1]]
    return [kind, k, rows]


def rand_label_colors(rng):
    k = rng.random()
    if k < 0.4:
        return None
    if k < 0.7:
        return ['L', [rng.choice(COLORS) for _ in range(rng.randrange(1, 5))]]
    keys = rng.sample(range(6), rng.randrange(1, 4))
    return ['D', [[i, rng.choice(COLORS)] for i in keys]]


def rand_edge_labels(rng, nr, nc, edges):
    out = []
    for _ in range(rng.randrange(1, 4)):
        if edges and rng.random() < 0.6:
            i, j = rng.choice(edges)
        else:
            i, j = rng.randrange(nr), rng.randrange(nc)
        out.append([i, j, rng.randrange(-2, 14)])
    return out


def rand_dims(rng, o):
    r = rng.random()
    if r < 0.15:
        o['width'], o['height'] = rng.choice([200, 64, 400.5]), None
    elif r < 0.3:
        o['width'], o['height'] = None, rng.choice([200, 64])
    elif r < 0.4:
        o['width'], o['height'] = rng.choice([300, 128]), 0
    elif r < 0.5:
        o['width'], o['height'] = rng.choice([300, 128]), rng.choice([100, 256])
    if rng.random() < 0.3:
        o['scale'] = rng.choice([2, 0.5, 3])
    if rng.random() < 0.3:
        o['margin'] = rng.choice([0, 5, 40])
    if rng.random() < 0.2:
        o['font_size'] = rng.choice([8, 14, 20])
    if rng.random() < 0.2:
        o['node_size'] = rng.choice([3, 10, 25])


def graph_options(rng, n, edges, rich=True):
    o = {}
    if rng.random() < 0.5:
        o['name_position'] = rng.choice(['left', 'right', 'above', 'below', 'elsewhere'])
    if not rich:
        return o
    r = rng.random()
    if r < 0.3:
        o['labels'] = rand_labels(rng, n)
    elif r < 0.5:
        o['scores'] = rand_scores(rng, n)
    elif r < 0.8:
        o['probs'] = rand_probs(rng, n)
        if rng.random() < 0.3:
            o['labels'] = ['A', [rng.randrange(0, 4) for _ in range(n)]]
    if rng.random() < 0.3 and 'labels' in o and 'scores' not in o:
        o['scores'] = rand_scores(rng, n)       # labels win
    lc = rand_label_colors(rng)
    if lc is not None and not ('probs' in o and 'labels' not in o and lc[0] == 'D'):
        o['label_colors'] = lc
    r = rng.random()
    if r < 0.3:
        o['node_order'] = rng.sample(range(n), n)
    elif r < 0.36:
        o['node_order'] = rng.sample(range(n), rng.randrange(0, n))        # a subset
    elif r < 0.42:
        o['node_order'] = [rng.randrange(n) for _ in range(rng.randrange(1, n + 3))]   # with repeats
    if rng.random() < 0.3:
        o['seeds'] = rng.sample(range(n), rng.randrange(0, n + 1))
        if o['seeds'] and rng.random() < 0.4:
            o['seeds'] = [[i, 1] for i in o['seeds']]      # a dict {node: label}
    if rng.random() < 0.25:
        o['node_weights'] = [rng.choice([0, 1, 2, 5]) for _ in range(n)]
        if rng.random() < 0.5:
            o['display_node_weight'] = rng.choice([True, False])
    elif rng.random() < 0.15:
        o['display_node_weight'] = True
    if rng.random() < 0.3:
        o['node_color'] = rng.choice(COLORS)
    if rng.random() < 0.15:
        o['display_edges'] = False
    if rng.random() < 0.4:
        o['edge_labels'] = rand_edge_labels(rng, n, n, edges)
    if rng.random() < 0.3:
        o['edge_color'] = rng.choice(COLORS)
    if rng.random() < 0.4:
        o['display_edge_weight'] = True
    r = rng.random()
    if r < 0.25:
        o['directed'] = True
    elif r < 0.5:
        o['directed'] = False
    rand_dims(rng, o)
    return o


POSITION_PATTERNS = ['distinct', 'pair', 'all', 'line', 'random', 'grid', 'column']


def positions(rng, n, pattern):
    if pattern == 'distinct':
        return [[i, (i * i) % 5] for i in range(n)]
    if pattern == 'all':
        return [[2, 3] for _ in range(n)]
    if pattern == 'line':
        return [[i, 1] for i in range(n)]
    if pattern == 'column':
        return [[1, i] for i in range(n)]
    if pattern == 'grid':      # nodes sharing an abscissa or an ordinate, all distinct
        return [[i % 2, i // 2] for i in range(n)]
    if pattern == 'pair':
        p = [[i, (2 * i) % 3] for i in range(n)]
        if n >= 2:
            a, b = rng.sample(range(n), 2)
            p[b] = list(p[a])
        return p
    return [[rng.choice([0, 1, 2, 0.5, -1.25]), rng.choice([0, 1, 2, 0.5])] for _ in range(n)]


def gen_graph_cases(ctx):
    rng = ctx.rng
    quick = ctx.quick
    descs = []
    # exhaustive digraphs
    for n in (1, 2, 3):
        gs = list(graphs.all_digraphs(n, loops=(n <= 2)))
        for es in gs:
            for pattern in ('distinct', 'pair', 'all', 'grid'):
                if n == 1 and pattern != 'distinct':
                    continue
                for directed in (None, True, False):
                    indptr, indices, data = csr_parts(rng, n, n, es)
                    o = {}
                    if directed is not None:
                        o['directed'] = directed
                    if rng.random() < 0.3:
                        o['name_position'] = rng.choice(['left', 'above', 'below'])
                    descs.append({'f': 'visualize_graph', 'n': n, 'indptr': indptr, 'indices': indices, 'data': data,
                                  'position': positions(rng, n, pattern), 'names': name_desc(rng, n), 'opts': o,
                                  'file': rng.random() < 0.1})
                    ctx.count('graph:exhaustive-n%d' % n)
    # digraphs on 4 nodes (thorough: 1500 sampled, quick: 40), random position pattern and options
    g4 = list(graphs.all_digraphs(4))
    for es in rng.sample(g4, 40 if quick else 1500):
        indptr, indices, data = csr_parts(rng, 4, 4, es)
        descs.append({'f': 'visualize_graph', 'n': 4, 'indptr': indptr, 'indices': indices, 'data': data,
                      'position': positions(rng, 4, rng.choice(POSITION_PATTERNS)), 'names': name_desc(rng, 4),
                      'opts': graph_options(rng, 4, es, rich=rng.random() < 0.5), 'file': rng.random() < 0.1})
        ctx.count('graph:sampled-n4')
    # structured random graphs with rich options
    for name, n, es, w in graphs.suite(rng, 70 if quick else 700, 2, 10):
        wts = [rng.choice([1, 2, 3, 0.5, 8]) for _ in es]
        if rng.random() < 0.12:      # a signed graph
            wts = [rng.choice([1, -1, 2, -0.5]) for _ in es]
        if all((j, i) in set(es) for i, j in es) and rng.random() < 0.8:   # else: symmetric structure, asymmetric weights
            sw = {}
            wts = [sw.setdefault((min(i, j), max(i, j)), rng.choice([1, 2, 0.5])) for i, j in es]
        dtype = rng.choice(['float', 'float', 'int', 'bool'])
        if dtype != 'float':
            wts = [max(1, int(x)) for x in wts]
        indptr, indices, data = csr_parts(rng, n, n, es, wts, zeros=rng.choice([0, 0, 0.15]),
                                          shuffle=rng.random() < 0.3)
        pattern = rng.choice(POSITION_PATTERNS)
        desc = {'f': 'visualize_graph', 'n': n, 'indptr': indptr, 'indices': indices, 'data': data, 'dtype': dtype,
                'position': positions(rng, n, pattern), 'opts': graph_options(rng, n, es), 'file': rng.random() < 0.25,
                'alias': rng.random() < 0.1}
        if rng.random() < 0.7:
            desc['names'] = name_desc(rng, n)
            desc['names_array'] = rng.choice([False, False, True, 'str'])
        r = rng.random()
        if r < 0.12 and n >= 3 and es:
            desc['position'] = None
            desc['spring_seed'] = rng.randrange(1000)
        elif r < 0.2:
            desc['indptr'] = desc['indices'] = desc['data'] = None     # adjacency=None
            desc['opts'].pop('edge_labels', None) if rng.random() < 0.5 else None
        descs.append(desc)
        ctx.count('graph:structured:' + name.rstrip('0123456789'))
    return descs


def bigraph_options(rng, nr, nc, edges, rich=True):
    o = {}
    if not rich:
        return o
    for side, k in (('row', nr), ('col', nc)):
        r = rng.random()
        if r < 0.25:
            o['labels_' + side] = rand_labels(rng, k)
        elif r < 0.4:
            o['scores_' + side] = rand_scores(rng, k)
        elif r < 0.6:
            o['probs_' + side] = rand_probs(rng, k)
        if rng.random() < 0.2:
            o['color_' + side] = rng.choice(COLORS)
        if rng.random() < 0.2:
            o['seeds_' + side] = rng.sample(range(k), rng.randrange(0, k + 1))
    lc = rand_label_colors(rng)
    has_bare_probs = any(('probs_' + s in o and 'labels_' + s not in o) for s in ('row', 'col'))
    if lc is not None and not (has_bare_probs and lc[0] == 'D'):
        o['label_colors'] = lc
    if rng.random() < 0.5:
        o['reorder'] = False
    if rng.random() < 0.15:
        o['display_edges'] = False
    if rng.random() < 0.4:
        o['edge_labels'] = rand_edge_labels(rng, nr, nc, edges)
    r = rng.random()
    if r < 0.2:
        o['edge_color'] = rng.choice(COLORS)
    elif r < 0.3:
        o['edge_color'] = None
    if rng.random() < 0.3:
        o['display_edge_weight'] = False
    if rng.random() < 0.2:
        o['display_node_weight'] = True
    if rng.random() < 0.15:
        o['position_row'] = [[rng.choice([0, 1, 2]), rng.choice([0, 1, 2])] for _ in range(nr)]
        o['position_col'] = [[rng.choice([0, 1, 2]), rng.choice([0, 1, 2])] for _ in range(nc)]
    rand_dims(rng, o)
    return o


def gen_bigraph_cases(ctx):
    rng = ctx.rng
    quick = ctx.quick
    descs = []
    for nr, nc in [(1, 1), (1, 2), (2, 1), (2, 2), (2, 3)] + ([] if quick else [(3, 2), (3, 3)]):
        allb = list(graphs.all_bipartite(nr, nc))
        if len(allb) > (40 if quick else 200):
            allb = rng.sample(allb, 40 if quick else 200)
        for es in allb:
            indptr, indices, data = csr_parts(rng, nr, nc, es)
            desc = {'f': 'visualize_bigraph', 'shape': [nr, nc], 'indptr': indptr, 'indices': indices, 'data': data,
                    'opts': {'reorder': rng.random() < 0.5} if es else {'reorder': False},
                    'file': rng.random() < 0.1}
            if rng.random() < 0.8:
                desc['names_row'] = name_desc(rng, nr)
            if rng.random() < 0.8:
                desc['names_col'] = name_desc(rng, nc)
            descs.append(desc)
            ctx.count('bigraph:exhaustive-%dx%d' % (nr, nc))
    for _ in range(50 if quick else 500):
        nr, nc = rng.randrange(1, 7), rng.randrange(1, 7)
        es = graphs.random_edges(rng, nr, rng.choice([0.2, 0.5, 0.8]), m=nc)
        wts = [rng.choice([1, 2, 3, 0.5]) for _ in es]
        signed = rng.random() < 0.15
        if signed:
            wts = [rng.choice([1, -1, 2, -0.5]) for _ in es]
        dtype = 'float' if signed else rng.choice(['float', 'float', 'int', 'bool'])
        if dtype != 'float':
            wts = [max(1, int(x)) for x in wts]
        indptr, indices, data = csr_parts(rng, nr, nc, es, wts, zeros=rng.choice([0, 0, 0.2]),
                                          shuffle=rng.random() < 0.3)
        o = bigraph_options(rng, nr, nc, es)
        if not es or signed:
            o['reorder'] = False        # Louvain (external) refuses an empty or signed matrix
        desc = {'f': 'visualize_bigraph', 'shape': [nr, nc], 'indptr': indptr, 'indices': indices, 'data': data,
                'dtype': dtype, 'opts': o, 'file': rng.random() < 0.25, 'alias': rng.random() < 0.1}
        if rng.random() < 0.7:
            desc['names_row'] = name_desc(rng, nr)
        if rng.random() < 0.7:
            desc['names_col'] = name_desc(rng, nc)
        desc['names_array'] = rng.choice([False, False, True, 'str'])
        descs.append(desc)
        ctx.count('bigraph:random')
    return descs


def random_dendrogram(rng, n):
    """a valid dendrogram on n leaves: random merges, non-decreasing heights (ties included)"""
    alive = list(range(n))
    size = {i: 1 for i in range(n)}
    rows, h = [], 0.0
    for t in range(n - 1):
        i, j = rng.sample(alive, 2)
        alive.remove(i)
        alive.remove(j)
        h += rng.choice([0, 0.5, 1, 2])
        size[n + t] = size[i] + size[j]
        rows.append([i, j, max(h, 0.5), size[n + t]])
        alive.append(n + t)
    return rows


def gen_dendro_cases(ctx):
    rng = ctx.rng
    descs = []
    for k in range(120 if ctx.quick else 1500):
        n = rng.randrange(2, 10)
        d = random_dendrogram(rng, n)
        o = {'rotate': rng.random() < 0.5, 'rotate_names': rng.random() < 0.5, 'reorder': rng.random() < 0.5,
             'n_clusters': rng.randrange(1, n + 1)}
        if rng.random() < 0.3:
            o['color'] = rng.choice(COLORS)
        r = rng.random()
        if r < 0.2:
            o['colors'] = ['L', [rng.choice(COLORS) for _ in range(rng.randrange(1, 4))]]
        elif r < 0.35:
            o['colors'] = ['D', [[i, rng.choice(COLORS)] for i in range(rng.randrange(1, 4))]]
        elif r < 0.45:
            o['colors'] = ['A', [rng.choice(COLORS) for _ in range(rng.randrange(1, 4))]]
        if rng.random() < 0.3:
            o['scale'] = rng.choice([2, 0.5])
        if rng.random() < 0.2:
            o['font_size'] = rng.choice([8, 20])
        desc = {'f': 'visualize_dendrogram', 'dendrogram': d, 'opts': o, 'file': rng.random() < 0.2,
                'alias': rng.random() < 0.1}
        if rng.random() < 0.8:
            desc['names'] = name_desc(rng, n)
            desc['names_array'] = rng.choice([False, False, True, 'str'])
        descs.append(desc)
        ctx.count('dendrogram:n%d' % n)
    return descs


def hostile_sweep(ctx, full=True):
    """every entry of the hostile alphabet as a name, through every text template"""
    descs = []
    alphabet = list(HOSTILE) + [chr(c) for c in range(0, 32)] + ['\x7f', '\x80', '\x9f', '\ud7ff', '\ue000', '\ufffd']
    if not full:
        alphabet = alphabet[::3]
    for s in alphabet:
        nm = [['s', [ord(c) for c in s]], ['s', [ord(c) for c in 'x' + s + 'y']]]
        descs.append({'f': 'visualize_graph', 'n': 2, 'indptr': [0, 1, 1], 'indices': [1], 'data': [1],
                      'position': [[0, 0], [1, 1]], 'names': nm, 'opts': {}, 'file': True})
        descs.append({'f': 'visualize_bigraph', 'shape': [1, 2], 'indptr': [0, 1], 'indices': [1], 'data': [1],
                      'names_row': nm[:1], 'names_col': nm, 'opts': {'reorder': False}, 'file': True})
        for rotate, rn in ((False, True), (False, False), (True, True)):
            descs.append({'f': 'visualize_dendrogram', 'dendrogram': [[0, 1, 1, 2]], 'names': nm,
                          'opts': {'rotate': rotate, 'rotate_names': rn}, 'file': True})
        ctx.count('hostile-sweep')
    return descs


# -- degenerate / malformed stream: every raise site and boundary of the three entry points ------------------------
def _g(n, edges, weights=None, **kw):
    """a fixed graph description (storage order as given)"""
    rows = [[] for _ in range(n)]
    for k, (i, j) in enumerate(edges):
        rows[i].append((j, 1 if weights is None else weights[k]))
    indptr, indices, data = [0], [], []
    for r in rows:
        for j, w in r:
            indices.append(j)
            data.append(w)
        indptr.append(len(indices))
    d = {'f': 'visualize_graph', 'n': n, 'indptr': indptr, 'indices': indices, 'data': data,
         'position': [[0, 0], [1, 0], [2, 1], [0, 2], [2, 2]][:n], 'opts': {}, 'file': False}
    d.update(kw)
    return d


def _names(*strs):
    return [['s', [ord(c) for c in x]] for x in strs]


PATH3 = [(0, 1), (1, 0), (1, 2), (2, 1)]


def degenerate_graph_descs():
    out = []

    def add(opts=None, **kw):
        d = _g(3, PATH3, **kw)
        d['opts'] = dict(opts or {})
        d['sig'] = {'stream': 'degenerate'}
        out.append(d)
    # labels
    for lab in (['L', [-1, -1, -1]], ['A', [-1, -1, -1]], ['L', [0, -1, -1]], ['D', []], ['D', [[5, 1]]], ['D', [[0, -1]]],
                ['L', [0, 1, 2, 3]], ['L', [0, 1]], ['A', [0, 1, 2, 3]], ['A', [0, 1]], ['L', []]):
        for lc in (None, ['L', []], ['D', []], ['L', ['red']]):
            o = {'labels': lab}
            if lc is not None:
                o['label_colors'] = lc
            add(o)
    # scores
    for sc in (['D', []], ['L', []], ['A', []], ['D', [[5, 1.0]]], ['A', [1, 2, 3, 4]], ['A', [1, 2]], ['L', [1, 2]],
               ['L', [1, 2, 3, 4]], ['A', [7, 7, 7]], ['D', [[0, 1.0], [2, 1.0]]]):
        add({'scores': sc})
    # names of the wrong length, of every container type
    for nm in ([], ['a'], ['a', 'b<'], ['a', 'b', 'c', 'd&']):
        for arr in (False, True, 'str'):
            for npos in ('right', 'left', 'above'):
                add({'name_position': npos}, names=_names(*nm), names_array=arr)
    add({}, names=_names('a\x00', 'b', 'c\x00\x00'), names_array='str')
    add({}, names=_names('\ud800', 'b', '<'), names_array='str')
    # edge labels out of range / without colours
    for el in ([[-1, 0, 1]], [[0, 3, 1]], [[3, 0, 1]], [[0, -1, 1]], [[0, 1, 1], [0, 5, 2]], [[0, 2, -7]], [[0, 2, 1], [0, 2, 1]]):
        add({'edge_labels': el})
        add({'edge_labels': el, 'label_colors': ['L', []]})
        add({'edge_labels': el, 'label_colors': ['D', []]})
    # membership
    half = [[0, 0.5], [1, 0.5]]
    add({'probs': ['dense', 2, [[], [], []]]})
    add({'probs': ['sparse', 2, [[[0, 0]], [], []]]})
    add({'probs': ['dense', 2, [[[0, 1]], [[1, 1]], half]], 'label_colors': ['D', [[0, 'red']]]})
    add({'probs': ['dense', 2, [[[0, 1]], [[1, 1]]]]})                      # fewer rows than nodes
    add({'probs': ['dense', 2, [[[0, 1]], [[1, 1]], [[0, 1]], [[1, 1]]]]})   # more rows
    add({'probs': ['dense', 0, [[], [], []]]})
    add({'probs': ['dense', 12, [[[11, 1]], [[0, 0.5], [11, 0.5]], []]]})     # more labels than colours
    add({'probs': ['dense', 2, [half, [[1, 1]], []]], 'label_colors': ['L', []]})
    add({'probs': ['dense', 2, [half, [[1, 1]], []]], 'labels': ['A', [0, 0, 1]]})
    add({'probs': ['dense', 3, [[[2, 1]], [[1, 1]], []]], 'labels': ['A', [0, -1, 1]], 'label_colors': ['L', ['red']]})
    # canvas
    for w, h in ((None, None), (0, 0), (None, 0), (0, None), (0, 300), (400, 0)):
        add({'width': w, 'height': h, 'directed': True})
    add({'scale': 0, 'directed': True})
    add({'scale': -1})
    # node order
    for order in ([0], [0, 0, 0, 0], [2, 0], [0, 5], [], [1, 1]):
        add({'node_order': order})
        add({'node_order': order, 'probs': ['dense', 2, [[[0, 0.5], [1, 0.5]], [[1, 1]], []]]})
    # layout / shape mismatches
    add(position=[[0, 0], [1, 0]])
    add(position=[[0, 0], [1, 0], [2, 1], [3, 3]])
    add({}, position=[[0, 0], [1, 0]], names=_names('a', 'b', 'c'))
    # numpy reads negative indices from the end
    add({'labels': ['D', [[-1, 2]]]})
    add({'labels': ['D', [[-4, 2]]]})
    add({'scores': ['D', [[-1, 0.5], [0, 1.0]]]})
    add({'node_order': [-1, -2, -3]})
    add({'node_order': [-4]})
    add({'node_order': [-1, 0]}, names=_names('a', 'b', 'c'))
    # one node, several names: numpy broadcasts the lengths the other way round and the code returns
    for npos in ('left', 'right', 'above', 'below'):
        out.append({'f': 'visualize_graph', 'n': 1, 'indptr': [0, 1], 'indices': [0], 'data': [1], 'position': [[5, 5]],
                    'names': _names('a', 'b<', 'c'), 'opts': {'name_position': npos}, 'file': False,
                    'sig': {'stream': 'degenerate'}})
    # every container scipy offers, with and without edge labels
    for cont in ('csc', 'coo', 'lil', 'dok', 'csr_array', 'dense'):
        for o in ({}, {'edge_labels': [[0, 1, 1], [0, 2, 2]]}, {'directed': True, 'edge_labels': [[2, 0, 3]]}):
            d = _g(3, [(0, 2), (0, 1), (1, 2), (2, 1)], [2, 1, 0, 3], container=cont)
            d['opts'] = dict(o)
            d['sig'] = {'stream': 'degenerate', 'container': cont}
            out.append(d)
    out.append({'f': 'visualize_graph', 'n': 0, 'indptr': [0], 'indices': [], 'data': [], 'position': [], 'opts': {},
                'file': False, 'sig': {'stream': 'degenerate'}})
    out.append({'f': 'visualize_graph', 'n': 3, 'indptr': None, 'indices': None, 'data': None, 'position': None,
                'opts': {}, 'file': False, 'sig': {'stream': 'degenerate'}})
    out.append({'f': 'visualize_graph', 'n': 1, 'indptr': [0, 0], 'indices': [], 'data': [], 'position': [[5, 5]],
                'names': _names('only'), 'opts': {'directed': True}, 'file': True, 'sig': {'stream': 'degenerate'}})
    out.append({'f': 'visualize_graph', 'n': 1, 'indptr': [0, 1], 'indices': [0], 'data': [1], 'position': [[5, 5]],
                'opts': {'edge_labels': [[0, 0, 1]]}, 'file': False, 'sig': {'stream': 'degenerate'}})
    return out


def degenerate_bigraph_descs():
    out = []
    base = {'shape': [2, 3], 'indptr': [0, 2, 4], 'indices': [0, 1, 1, 2], 'data': [-1, 1, 2, -3]}

    def add(opts=None, **kw):
        d = {'f': 'visualize_bigraph', 'opts': dict({'reorder': False}, **(opts or {})), 'file': False,
             'sig': {'stream': 'degenerate'}}
        d.update(base)
        d.update(kw)
        out.append(d)
    add()
    for w, h in ((None, None), (0, 0), (None, 0), (0, None), (0, 300), (400, None)):
        add({'width': w, 'height': h})
    add({'scale': 0})
    add({'scores_row': ['D', [[0, 1.0], [1, 2.0]]], 'scores_col': ['D', [[0, 1.0], [1, 2.0], [2, 3.0]]]})
    add({'scores_row': ['D', [[1, 2.0]]], 'scores_col': ['D', [[0, 1.0]]]})
    add({'scores_row': ['D', [[1, 2.0]]]})
    add({'scores_row': ['D', []], 'scores_col': ['L', [1, 2, 3]]})
    add({'scores_row': ['L', [1, 2]], 'scores_col': ['D', []]})
    add({'scores_col': ['A', [1, 2]]})
    add({'labels_row': ['D', []]})
    add({'labels_row': ['L', [-1, -1]], 'label_colors': ['L', []]})
    add({'labels_col': ['L', [0, 1]]})
    add({'labels_col': ['A', [0, -1, 2]], 'label_colors': ['D', []]})
    add({'probs_row': ['dense', 2, [[], []]]})
    add({'probs_col': ['dense', 2, [[[0, 1]], [[0, 0.5], [1, 0.5]], []]], 'label_colors': ['D', [[0, 'red']]]})
    add({'probs_row': ['dense', 2, [[[0, 0.5], [1, 0.5]]]]})
    add({'edge_labels': [[2, 0, 1]]})
    add({'edge_labels': [[0, 3, 1]]})
    add({'edge_labels': [[0, 2, 1], [0, 0, 3]], 'label_colors': ['L', []]})
    add({'edge_labels': [[0, 2, 1], [0, 2, 1], [1, 1, -4]]})
    for nm in ([], ['a'], ['a', 'b<', 'c']):
        for arr in (False, 'str'):
            add(names_row=_names(*nm), names_array=arr)
            add(names_col=_names(*nm), names_array=arr)
    add(shape=[0, 2], indptr=[0], indices=[], data=[])
    add(shape=[2, 0], indptr=[0, 0, 0], indices=[], data=[])
    # an empty side with an empty list of names
    add(shape=[0, 2], indptr=[0], indices=[], data=[], names_row=[])
    add(shape=[2, 0], indptr=[0, 0, 0], indices=[], data=[], names_col=[])
    add(shape=[0, 2], indptr=[0], indices=[], data=[], names_col=_names('a', 'b'))
    # positions of the wrong length
    add({'position_row': [[0, 0]], 'position_col': [[1, 0], [1, 1], [1, 2]]})
    add({'position_row': [[0, 0], [0, 1]], 'position_col': [[1, 0]]})
    add({'position_row': [[0, 0], [0, 1], [0, 2]], 'position_col': [[1, 0], [1, 1], [1, 2]]})
    add({'position_row': [], 'position_col': []})
    add({'position_row': [[0, 0], [0, 1]]})                                # only one side given: ignored
    add({'labels_row': ['D', [[-1, 1]]], 'scores_col': ['D', [[-3, 0.5]]]})
    for cont in ('csc', 'coo', 'lil', 'dok', 'csr_array', 'dense'):
        add({'edge_labels': [[0, 2, 1], [1, 0, 3]]}, container=cont, sig={'stream': 'degenerate', 'container': cont})
    add(shape=[0, 0], indptr=[0], indices=[], data=[])
    add(shape=[1, 1], indptr=[0, 1], indices=[0], data=[0])
    return out


def degenerate_dendro_descs():
    out = []
    D = [[0, 1, 1, 2], [2, 3, 2, 3]]

    def add(d=D, opts=None, **kw):
        x = {'f': 'visualize_dendrogram', 'dendrogram': d, 'opts': dict(opts or {}), 'file': False,
             'sig': {'stream': 'degenerate'}}
        x.update(kw)
        out.append(x)
    for rotate in (False, True):
        for colors in (['L', []], ['D', []], ['A', []], ['L', ['red']]):
            for k in (1, 2, 3):
                add(opts={'colors': colors, 'n_clusters': k, 'rotate': rotate})
        for k in (0, 4, 5, -1):
            add(opts={'n_clusters': k, 'rotate': rotate})
        for nm in ([], ['a'], ['a', 'b'], ['a', 'b', 'c', 'd<']):
            for arr in (False, 'str'):
                add(opts={'rotate': rotate, 'rotate_names': not rotate}, names=_names(*nm), names_array=arr)
        add(d=[], opts={'rotate': rotate})
        add(d=[], opts={'rotate': rotate, 'n_clusters': 1}, names=_names('a'))
        add(d=[[0, 0, 1, 2], [2, 3, 2, 3]], opts={'rotate': rotate})          # a child used twice
        add(d=[[0, 7, 1, 2], [2, 3, 2, 3]], opts={'rotate': rotate})          # a child that does not exist
        add(d=[[3, 2, 1, 2], [0, 1, 2, 3]], opts={'rotate': rotate})          # a merge used before it is made
        add(d=[[0, 1, 1, 2], [0, 2, 2, 3]], opts={'rotate': rotate})          # a leaf merged again
        add(d=[[0, 1, 1, 2], [3, 2, 1, 3]], opts={'rotate': rotate, 'reorder': True})   # equal heights
        add(d=[[0, 1, 0, 2]], opts={'rotate': rotate})                        # height 0: division by zero
    return out


# -- deterministic option matrix: every display option at least once per run ------------------------------------------
def option_matrix_descs():
    out = []
    # G1: unsorted column indices, a stored zero, a negative weight; G2: a symmetric triangle with a pendant node
    g1 = dict(n=4, indptr=[0, 3, 5, 6, 7], indices=[2, 1, 3, 0, 2, 3, 1], data=[2, -1, 0, 1, 3, 1, 0.5])
    g2 = dict(n=4, indptr=[0, 2, 5, 7, 8], indices=[1, 2, 0, 2, 3, 0, 1, 1], data=[1, 2, 1, 3, 1, 2, 3, 1])
    pos = [[0, 0], [1, 0], [0, 1], [1, 0]]          # nodes 1 and 3 coincide
    names = _names('a<b', 'q"\'', 'x\x01y', 'caf\u00e9')
    probs = ['dense', 3, [[[0, 0.5], [1, 0.5]], [[2, 1]], [], [[0, 0.25], [1, 0.25], [2, 0.5]]]]
    sprobs = ['sparse', 3, [[[0, 0.5], [1, 0], [2, 0.5]], [[2, 1]], [[1, 0]], [[0, 1], [1, 0]]]]
    single = [
        {}, {'name_position': 'left'}, {'name_position': 'right'}, {'name_position': 'above'},
        {'name_position': 'below'}, {'name_position': 'diagonal'},
        {'labels': ['L', [0, 1, -1, 12]]}, {'labels': ['A', [3, 3, 0, 1]]}, {'labels': ['D', [[2, 1], [0, 4]]]},
        {'labels': ['L', [0, 1, 2, 3]], 'label_colors': ['L', ['red']]},
        {'labels': ['L', [0, 1, 2, 3]], 'label_colors': ['L', ['red', 'blue', '#00ff00']]},
        {'labels': ['L', [0, 1, 2, 3]], 'label_colors': ['D', [[1, 'red'], [3, 'blue']]]},
        {'scores': ['L', [0.5, 1, 2, -1]]}, {'scores': ['A', [1, 1, 1, 1]]}, {'scores': ['D', [[1, 0.5], [2, 7]]]},
        {'labels': ['L', [0, 1, 2, 3]], 'scores': ['L', [1, 2, 3, 4]]},
        {'probs': probs}, {'probs': sprobs}, {'probs': probs, 'labels': ['A', [0, 1, 2, 3]]},
        {'probs': probs, 'label_colors': ['L', ['red', 'blue']]}, {'probs': probs, 'scores': ['L', [1, 2, 3, 4]]},
        {'seeds': [0, 2]}, {'seeds': [[1, 0], [3, 1]]}, {'seeds': []}, {'seeds': 2},
        {'width': 200, 'height': None}, {'width': None, 'height': 150}, {'width': 64, 'height': 0},
        {'width': 300, 'height': 100}, {'margin': 0}, {'margin': 50}, {'margin_text': 10}, {'scale': 2}, {'scale': 0.5},
        {'node_order': [3, 2, 1, 0]}, {'node_order': [1, 3, 0, 2], 'probs': probs},
        {'node_size': 3}, {'node_size': 30}, {'node_size_min': 2}, {'node_size_max': 40},
        {'display_node_weight': True}, {'display_node_weight': True, 'node_size_max': 40, 'margin': 5},
        {'node_weights': [1, 2, 3, 4]}, {'node_weights': [1, 2, 3, 4], 'display_node_weight': False},
        {'node_weights': [2, 2, 2, 2]}, {'node_width': 2}, {'node_width_max': 6, 'seeds': [0]},
        {'node_color': 'red'}, {'node_color': '#ff0000'}, {'display_edges': False},
        {'display_edges': False, 'edge_labels': [[0, 1, 1]]},
        {'edge_labels': [[0, 1, 1]]}, {'edge_labels': [[3, 0, 2]]}, {'edge_labels': [[0, 1, 1], [3, 0, 2], [1, 3, 5], [2, 2, 0]]},
        {'edge_labels': [[0, 1, 1], [1, 3, 13]], 'label_colors': ['L', ['red', 'blue']]},
        {'edge_labels': [[0, 1, 1], [1, 3, 2]], 'label_colors': ['D', [[0, 'red'], [2, 'blue']]]},
        {'edge_width': 3}, {'edge_width_min': 1, 'edge_width_max': 5, 'display_edge_weight': True},
        {'display_edge_weight': True}, {'display_edge_weight': False}, {'edge_color': 'blue'}, {'edge_color': 'rgb(1, 2, 3)'},
        {'font_size': 8}, {'font_size': 20, 'name_position': 'above'},
    ] + [{'node_color': c} for c in HOSTILE_COLORS] + [{'edge_color': c} for c in HOSTILE_COLORS] + [
        {'labels': ['L', [0, 1, 2, 3]], 'label_colors': ['L', HOSTILE_COLORS[:4]]},
        {'labels': ['L', [0, 1, 2, 5]], 'label_colors': ['D', [[k, c] for k, c in enumerate(HOSTILE_COLORS[3:])]]},
        {'probs': probs, 'label_colors': ['L', HOSTILE_COLORS[4:7]]},
        {'edge_labels': [[0, 1, 0], [3, 0, 1], [1, 3, 2]], 'label_colors': ['L', HOSTILE_COLORS[:3]]},
        {'edge_labels': [[0, 1, 0], [3, 0, 5]], 'label_colors': ['D', [[0, HOSTILE_COLORS[5]], [5, HOSTILE_COLORS[7]]]]},
    ]
    k = 0
    for g in (g1, g2):
        for o in single:
            for directed in ((None, True) if g is g2 else (None, False)):
                k += 1
                oo = dict(o)
                if directed is not None:
                    oo['directed'] = directed
                d = {'f': 'visualize_graph', 'position': pos, 'opts': oo, 'file': k % 7 == 0, 'alias': k % 11 == 0,
                     'names': names if k % 4 else None, 'names_array': [False, True, 'str'][k % 3],
                     'dtype': 'float', 'sig': {'stream': 'option-matrix'}}
                d.update(g)
                out.append(d)
    # bigraph
    b1 = dict(shape=[2, 3], indptr=[0, 3, 5], indices=[2, 0, 1, 1, 2], data=[1, -2, 0, 3, 0.5])
    nr, nc = 2, 3
    prow = ['dense', 2, [[[0, 0.5], [1, 0.5]], [[1, 1]]]]
    pcol = ['sparse', 2, [[[0, 1], [1, 0]], [], [[0, 0.5], [1, 0.5]]]]
    bsingle = [
        {}, {'reorder': True}, {'labels_row': ['L', [0, 11]]}, {'labels_col': ['D', [[2, 1]]]},
        {'labels_row': ['A', [1, -1]], 'labels_col': ['L', [0, 1, 2]], 'label_colors': ['L', ['red', 'blue']]},
        {'scores_row': ['L', [1, 2]]}, {'scores_col': ['A', [1, 1, 5]]},
        {'scores_row': ['L', [1, 2]], 'scores_col': ['L', [0, 5, 9]]},
        {'scores_row': ['D', [[0, 1.0], [1, 2.0]]], 'scores_col': ['D', [[0, 1.0], [1, 2.0], [2, 3.0]]]},
        {'probs_row': prow}, {'probs_col': pcol}, {'probs_row': prow, 'probs_col': pcol},
        {'probs_row': prow, 'label_colors': ['L', ['red']]}, {'seeds_row': [1]}, {'seeds_col': [[0, 1], [2, 1]]},
        {'position_row': [[0, 0], [0, 1]], 'position_col': [[1, 0], [1, 1], [0, 0]]},
        {'width': 200, 'height': None}, {'width': None, 'height': 150}, {'margin': 0, 'margin_text': 10}, {'scale': 2},
        {'node_size': 3, 'node_size_min': 2, 'node_size_max': 30, 'display_node_weight': True},
        {'node_weights_row': [1, 5], 'node_weights_col': [1, 1, 3], 'display_node_weight': True},
        {'node_width': 2, 'node_width_max': 5, 'seeds_row': [0]}, {'color_row': 'red', 'color_col': 'blue'},
        {'display_edges': False}, {'edge_labels': [[0, 2, 1], [1, 0, 3], [0, 0, 12]]},
        {'edge_labels': [[0, 2, 1]], 'label_colors': ['D', [[1, 'red']]]}, {'edge_width': 3, 'display_edge_weight': False},
        {'edge_width_min': 1, 'edge_width_max': 4}, {'edge_color': 'blue'}, {'edge_color': None}, {'font_size': 20},
    ] + [{'color_row': c, 'color_col': HOSTILE_COLORS[(k + 1) % len(HOSTILE_COLORS)], 'edge_color': HOSTILE_COLORS[k - 1]}
         for k, c in enumerate(HOSTILE_COLORS)] + [
        {'labels_row': ['L', [0, 1]], 'labels_col': ['L', [2, 3, 4]], 'label_colors': ['L', HOSTILE_COLORS[:5]]},
        {'probs_row': prow, 'label_colors': ['L', HOSTILE_COLORS[5:7]]},
    ]
    for k, o in enumerate(bsingle):
        oo = dict({'reorder': False}, **o)
        d = {'f': 'visualize_bigraph', 'opts': oo, 'file': k % 5 == 0, 'alias': k % 7 == 0,
             'names_row': _names('r<1', 'r\x022') if k % 2 == 0 else None,
             'names_col': _names('c&1', '', '\ud83d\ude00') if k % 3 != 1 else None,
             'names_array': [False, True, 'str'][k % 3], 'sig': {'stream': 'option-matrix'}}
        d.update(b1)
        if oo['reorder']:       # Louvain (external) refuses signed weights
            d['data'] = [abs(x) for x in b1['data']]
        out.append(d)
    # dendrogram
    D = [[1, 2, 1, 2], [0, 4, 1.5, 3], [3, 5, 2, 4]]
    dsingle = [
        {}, {'rotate': True}, {'rotate_names': False}, {'rotate': True, 'rotate_names': False}, {'reorder': True},
        {'reorder': True, 'rotate': True}, {'n_clusters': 1}, {'n_clusters': 3}, {'n_clusters': 4},
        {'color': 'green'}, {'colors': ['L', ['red', 'blue']], 'n_clusters': 3},
        {'colors': ['D', [[0, 'red'], [1, 'blue']]]}, {'colors': ['A', ['red']], 'n_clusters': 3},
        {'width': 200, 'height': 100}, {'margin': 0, 'margin_text': 10}, {'scale': 2}, {'line_width': 0.5},
        {'font_size': 20}, {'font_size': 8, 'rotate': True},
    ] + [{'color': c, 'colors': ['L', [HOSTILE_COLORS[k - 1]]], 'n_clusters': 2, 'rotate': k % 2 == 0}
         for k, c in enumerate(HOSTILE_COLORS)] + [
        {'colors': ['D', [[0, HOSTILE_COLORS[1]], [1, HOSTILE_COLORS[7]]]], 'n_clusters': 2},
        {'colors': ['A', HOSTILE_COLORS[4:8]], 'n_clusters': 3},
    ]
    for k, o in enumerate(dsingle):
        out.append({'f': 'visualize_dendrogram', 'dendrogram': D, 'opts': dict(o), 'file': k % 4 == 0, 'alias': k % 6 == 0,
                    'names': _names('a<b', 'x\x01', 'q"', 'caf\u00e9') if k % 4 != 2 else None,
                    'names_array': [False, True, 'str'][k % 3], 'sig': {'stream': 'option-matrix'}})
    return out


# -- positions at and below the resolution of float64 after rescaling -------------------------------------------------
def near_coincident_descs():
    """Ordinary cases (ordinary signature): whether a pair is inside the model's domain is decided per case from the
    float64 images (`_float_classes`), not by this generator."""
    out = []
    base = dict(n=3, indptr=[0, 1, 2, 2], indices=[1, 0], data=[1, 1])
    layouts = []
    for eps in (2.0 ** -60, 2.0 ** -50, 2.0 ** -700, 1e-17, 1e-6, 1e-3):
        layouts += [[[0, 0], [eps, 0], [1, 1]], [[0, 0], [0, eps], [1, 1]]]
    layouts += [[[1, 1], [1 + 2.0 ** -52, 1], [0, 0]], [[1, 1], [1, 1 + 2.0 ** -30], [0, 0]],
                [[2.0 ** 60, 0], [2.0 ** 60 + 256, 0], [0, 1]], [[2.0 ** 60, 0], [2.0 ** 60 + 2.0 ** 20, 0], [0, 1]]]
    k = 0
    for pos in layouts:
        for directed in (True, False, None):
            k += 1
            o = {} if directed is None else {'directed': directed}
            if k % 4 == 0:
                o['width'], o['height'] = 1, 1            # every node on the same few pixels
            d = {'f': 'visualize_graph', 'position': pos, 'opts': o, 'file': False,
                 'names': _names('a', 'b<', 'c') if k % 3 == 0 else None, 'sig': {'stream': 'near-coincident'}}
            d.update(base)
            out.append(d)
    return out


BUILDERS = {'visualize_graph': graph_case, 'visualize_bigraph': bigraph_case, 'visualize_dendrogram': dendro_case}


def cases_of(descs):
    out = []
    for d in descs:
        cs = BUILDERS[d['f']](d)
        if cs:
            out += cs
    return out


def corpus_descs():
    p = os.path.join(core.VERIF, 'corpus', 'C20.jsonl')
    out = []
    if os.path.exists(p):
        import json
        for ln in open(p):
            ln = ln.strip()
            if ln and not ln.startswith('#'):
                out.append(json.loads(ln))
    return out


# -- a second configuration: the interpreter's default text encoding is ASCII (C locale, no UTF-8 mode) -------------
LOCALE_ENV = {'LC_ALL': 'C', 'LANG': 'C', 'PYTHONUTF8': '0', 'PYTHONCOERCECLOCALE': '0', 'PYTHONIOENCODING': 'utf-8'}


def locale_descs():
    nm = [['s', [ord(c) for c in 'caf\u00e9']], ['s', [0x4e2d, 0x1f600]], ['s', [120, 1]]]
    sig = {'locale': 'C (ascii default encoding)'}
    return [
        {'f': 'visualize_graph', 'n': 3, 'indptr': [0, 1, 2, 2], 'indices': [1, 2], 'data': [1, 1],
         'position': [[0, 0], [1, 1], [2, 0]], 'names': nm, 'opts': {}, 'file': True, 'sig': sig},
        {'f': 'visualize_bigraph', 'shape': [1, 3], 'indptr': [0, 2], 'indices': [0, 2], 'data': [1, 1],
         'names_row': nm[:1], 'names_col': nm, 'opts': {'reorder': False}, 'file': True, 'sig': sig},
        {'f': 'visualize_dendrogram', 'dendrogram': [[0, 1, 1, 2], [3, 2, 2, 3]], 'names': nm, 'opts': {}, 'file': True,
         'sig': sig},
    ]


def worker_main():
    """Runs in the subprocess: build the cases (calls the implementation), print them as JSON."""
    import json
    import sys
    descs = json.load(sys.stdin)
    out = []
    try:
        for c in cases_of(descs):
            out.append({'key': list(map(str, c.key)), 'sig': c.sig, 'run': c.run, 'impl': c.impl, 'spec': c.spec,
                        'nontrivial': c.nontrivial, 'desc': c.desc, 'canon': c.canon})
    finally:
        cleanup()
    json.dump(out, sys.stdout)


def locale_cases(ctx, descs=None):
    import json
    import subprocess
    import sys
    root = getattr(ctx, 'overlay_root', None) or getattr(getattr(ctx, 'ctx', None), 'overlay_root', None)
    if root is None:
        raise core.ToolFailure('no overlay root: the second configuration (ASCII locale) cannot be run')
    tools = os.path.join(core.VERIF, 'tools')
    code = 'import sys; sys.path[:0] = [%r, %r]; from harness import c20; c20.worker_main()' % (root, tools)
    env = dict(os.environ)
    env.update(LOCALE_ENV)
    r = subprocess.run([sys.executable, '-c', code], input=json.dumps(descs if descs is not None else locale_descs()), env=env, stdout=subprocess.PIPE,
                       stderr=subprocess.PIPE, text=True, timeout=300, encoding='utf-8')
    if r.returncode != 0:
        raise core.ToolFailure('locale worker failed: ' + r.stderr[-2000:])
    cases = []
    for d in json.loads(r.stdout):
        if str(d['impl']).startswith('err Unicode'):
            # the drawing could not be written in this configuration: a failing input of the property
            ctx.spec_fail(d['sig'], d['desc'], {'impl': d['impl'], 'configuration': LOCALE_ENV})
            continue
        cases.append(Case(tuple(d['key']) + ('locale',), d['sig'], d['run'], d['impl'], d['spec'], d['nontrivial'],
                          d['desc'], canon=d['canon']))
    ctx.count('configuration:ascii-locale', len(cases))
    return cases


def run(ctx):
    try:
        descs = corpus_descs()
        ctx.count('corpus', len(descs))
        in_locale = [d for d in descs if (d.get('sig') or {}).get('locale')]
        descs = [d for d in descs if not (d.get('sig') or {}).get('locale')]
        descs += hostile_sweep(ctx)
        for name, extra in (('degenerate', degenerate_graph_descs() + degenerate_bigraph_descs() + degenerate_dendro_descs()),
                            ('option-matrix', option_matrix_descs()), ('near-coincident', near_coincident_descs())):
            ctx.count('stream:' + name, len(extra))
            descs += extra
        descs += gen_graph_cases(ctx)
        descs += gen_bigraph_cases(ctx)
        descs += gen_dendro_cases(ctx)
        SKIPS.clear()
        OBS.clear()
        cases = cases_of(descs) + locale_cases(ctx, in_locale + locale_descs())
        for why, k in SKIPS.items():
            ctx.count('skipped:' + why, k)
            ctx.note('%d case(s) skipped: %s' % (k, why))
        for what, k in OBS.items():
            ctx.count(what, k)
        for c in cases:      # which exits were reached (goes into the evidence)
            if str(c.impl).startswith('err '):
                ctx.count('exit:%s:%s' % (c.sig.get('entry'), c.impl[4:]))
        evaluate(ctx, cases)
    finally:
        cleanup()


# -- failing-input search ---------------------------------------------------------------------
def search(ctx, pending):
    """Evaluate the Lean specification on the implementation over the hostile sweep and the small exhaustive space."""
    try:
        sub = Sub(ctx)
        descs = hostile_sweep(sub)
        rng = ctx.rng
        for n in (1, 2):
            for es in graphs.all_digraphs(n, loops=True):
                for directed in (None, True, False):
                    indptr, indices, data = csr_parts(rng, n, n, es)
                    descs.append({'f': 'visualize_graph', 'n': n, 'indptr': indptr, 'indices': indices, 'data': data,
                                  'position': positions(rng, n, 'pair'), 'names': name_desc(rng, n),
                                  'opts': {} if directed is None else {'directed': directed}, 'file': True})
        for p in pending:
            d = (p[2] or {}).get('case') if isinstance(p[2], dict) else None
            if isinstance(d, dict) and d.get('f') in BUILDERS:
                descs.append(d)
        evaluate(sub, cases_of(descs))
        return sub.found()
    finally:
        cleanup()


def replay(ctx, payload):
    """Re-run one recorded failing input against the current tree."""
    try:
        case = payload.get('case') or (payload.get('what_no_longer_checks') or {}).get('case') or {}
        if case.get('f') in BUILDERS and (case.get('sig') or {}).get('locale'):
            evaluate(ctx, locale_cases(ctx, [case]))
        elif case.get('f') in BUILDERS:
            evaluate(ctx, cases_of([case]))
        else:
            run(ctx)
    finally:
        cleanup()
