"""C16 — same input and seed give the same output on any thread count and fit history.

Tie to the code, on every run:
 (T) `generate(ctx)` re-runs the two translators on the overlay copy of the working tree:
       tools/translate/prange.py      (Cython's parser) -> lean/SkNet/Generated/Prange.lean
       tools/translate/estimators.py  (Python ast)      -> lean/SkNet/Generated/EstimatorState.lean
     The obligations on that data (`Loop.raceFree l = true` for every prange loop, `Est.historyOK tbl e = true` for
     every estimator class, `crsOK checkRandomState = true`) are decided through the driver (a false one is
     `ctx.broken` + failing-input search) and kernel-checked by the generated file Generated/C16Obligations.lean
     (`by decide`), built with tools/lk inside `run`.
 (C) correspondence: real estimator objects are driven through generated histories (fits on other inputs, failing
     fits, set_params), then fitted on a target input and compared — every attribute, nested objects included — with a
     freshly constructed estimator with the current parameters fitted on the same input under the same numpy seed;
     fresh objects are fitted twice (rerun); the same jobs run in fresh interpreters with OMP_NUM_THREADS in
     {1,2,4,16}.  `spec` lines: the model's prediction (`c16.spec_history`: equal) and the conformance of the dynamic
     read/write trace of `fit` to the generated description (`c16.spec_trace`).  `run` lines: the
     `check_random_state` model on every kind of argument.
"""
import concurrent.futures
import json
import os
import subprocess
import sys

import numpy as np

from vlib import core, graphs
from vlib.cases import Case, Sub, evaluate as _evaluate

from harness import c16_worker as W

LEAN_MODULES = ['SkNet.Properties.C16']
DRIVE_MODULES = ['SkNet.Drive.C16']

RULE = ('every estimator class of the package (static table from the translator, checked against the importable '
        'classes) x generated histories (0-3 earlier operations: fits on square / bipartite / disconnected / '
        'weighted inputs of other sizes, fits that raise, set_params on setable parameters) x target inputs x '
        'explicit seeds; each case compares refit vs fresh, fresh vs fresh (rerun) and the read/write trace of fit; '
        'a case is non-trivial when the target fit succeeds and the history contains at least one successful fit on '
        'a different input; thread sweep: the prange kernels and one job per class in fresh interpreters with '
        'OMP_NUM_THREADS in {1,2,4,16}; check_random_state on None / ints (incl. out of range) / numpy ints / bool / '
        'float / str / RandomState / Generator; distinct = distinct (class, parameters, history, target)')
ASSUMPTIONS = [
    'arrays passed to a prange kernel under different names do not alias (callers allocate them separately)',
    'OpenMP implements the private / lastprivate / reduction clauses that Cython emits (the clauses themselves are checked on the generated C++ on every run)',
    'numpy.random.RandomState(seed) is a deterministic function of the seed; numpy global generator state is part of the input (seeded by the caller)',
    'parameter objects supplied by the user (embedding_method, solver, algorithm) are themselves history independent (each class has its own obligation)',
    'BLAS / ARPACK kernels are deterministic for a fixed start vector and thread count; float reductions (reported in the evidence) may differ in rounding between thread counts',
]

FUEL = 8
# classes the description language cannot cover: only the differential runs apply (labelled in the evidence)
OPAQUE_EXPECTED = {'GNNClassifier'}
# estimator classes defined in compiled (.pyx) modules: no Python ast; differential runs only
COMPILED_CLASSES = set()      # (Paris and Betweenness are recovered from their .pyx by the translator)
SKIP_CLASSES = {'EigSolver', 'SVDSolver', 'RankClassifier'}
THREADS_QUICK = [1, 2, 4, 16]
THREADS_THOROUGH = [1, 2, 3, 4, 8, 16]

PINNED_INSTANCE_THEOREMS = {'linalg/push.pyx:push_pagerank#0': ['pushInit_conforms', 'pushInit_deterministic']}
SLOW_CLASSES = {'KCenters': 5, 'PageRankClassifier': 4}     # class -> divisor of the number of cases
SEARCH_HISTORIES = 60
SEARCH_BUDGET_S = 25

_GEN = {}


# ------------------------------------------------------------------------------------------------
# (T) translators
# ------------------------------------------------------------------------------------------------
def _write_if_changed(path, text):
    os.makedirs(os.path.dirname(path), exist_ok=True)
    if not os.path.exists(path) or open(path).read() != text:
        with open(path, 'w') as fh:
            fh.write(text)
        return True
    return False


def _tree_tag():
    """One generated module per tree: concurrent checks with different VERIF_REPO never read each other's data."""
    import hashlib
    repo = os.path.abspath(core.REPO)
    return 'main' if repo == '/repo' else hashlib.sha256(repo.encode()).hexdigest()[:8]


def _gen_module():
    return 'SkNet.Generated.C16T' + _tree_tag()


def _gen_path(suffix=''):
    return os.path.join(core.LEAN_DIR, 'SkNet', 'Generated', 'C16T%s%s.lean' % (_tree_tag(), suffix))


def _sweep_stale_generated():
    """Remove the generated modules of trees that no longer exist, and the shared files of earlier versions."""
    import glob
    import re
    gdir = os.path.join(core.LEAN_DIR, 'SkNet', 'Generated')
    for f in ('Prange.lean', 'EstimatorState.lean', 'C16Obligations.lean'):
        p = os.path.join(gdir, f)
        if os.path.exists(p) and 'tools/translate/' in open(p).read(300) + 'tools/harness/c16.py':
            try:
                head = open(p).read(200)
                if 'tools/translate/prange.py' in head or 'tools/translate/estimators.py' in head or 'tools/harness/c16.py' in head:
                    os.remove(p)
            except OSError:
                pass
    for p in glob.glob(os.path.join(gdir, 'C16T*.lean')):
        try:
            m = re.search(r'VERIF_REPO=(\S+)', open(p).read(400))
        except OSError:
            continue
        if m and not os.path.isdir(m.group(1)):
            try:
                os.remove(p)
            except OSError:
                pass


def generate(ctx):
    global DRIVE_MODULES
    import hashlib
    sys.path.insert(0, os.path.join(core.VERIF, 'tools'))
    from translate import prange as TP, estimators as TE
    root = ctx.overlay_root
    loops = TP.extract_tree(root)
    flags = TP.omp_flags(core.REPO)
    descs = TE.extract_tree(root)
    crs = TE.check_random_state_desc(root)
    mod = _gen_module()
    body = TP.emit_lean(loops, flags, namespace=mod + '.Prange', header=False) + '\n' + \
        TE.emit_lean(descs, crs, namespace=mod + '.EstimatorState', header=False)
    data_hash = hashlib.sha256(body.encode()).hexdigest()[:16]
    text = ('/- generated by tools/harness/c16.py (translators tools/translate/prange.py, estimators.py); do not edit\n'
            '   VERIF_REPO=%s -/\n' % os.path.abspath(core.REPO) +
            'import SkNet.Model.ParFor\nimport SkNet.Model.Estimator\nimport SkNet.Drive.C16\n\n' + body +
            '\nnamespace %s\n' % mod +
            'def dataHash : String := "%s"\n' % data_hash +
            'def handle : SkNet.Handler := SkNet.Drive.C16.handleWith\n'
            '  { loops := Prange.loops, tbl := EstimatorState.estimators, crs := EstimatorState.checkRandomState,\n'
            '    ompCompile := Prange.ompCompile, ompLink := Prange.ompLink, hash := dataHash }\n'
            'end %s\n' % mod)
    _sweep_stale_generated()
    changed = _write_if_changed(_gen_path(), text)
    # (the kernel check of the verdicts is a per-run file outside the library, see obligations())
    for stale in (_gen_path('Ob'),):
        if os.path.exists(stale):
            os.remove(stale)
    DRIVE_MODULES = [mod]
    _GEN.clear()
    _GEN.update({'loops': loops, 'flags': flags, 'descs': {d['name']: d for d in descs}, 'crs': crs,
                 'loop_ident': {l['name']: TP.lean_ident(l['name']) for l in loops},
                 'est_ident': {d['name']: TE.lean_ident(d['name']) for d in descs},
                 'hash': data_hash, 'module': mod, 'changed': changed})


# ------------------------------------------------------------------------------------------------
# inputs
# ------------------------------------------------------------------------------------------------
def _gdesc(m, dtype=None):
    from scipy import sparse
    m = sparse.csr_matrix(m)
    m.sort_indices()
    d = {'shape': [int(m.shape[0]), int(m.shape[1])], 'indptr': [int(x) for x in m.indptr],
         'indices': [int(x) for x in m.indices], 'data': [float(x) for x in m.data]}
    if dtype:
        d['dtype'] = dtype
    return d


def _connected_undirected(rng, n, p):
    es = set()
    for i in range(1, n):
        j = rng.randrange(i)
        es.add((i, j))
    for i in range(n):
        for j in range(i):
            if rng.random() < p:
                es.add((i, j))
    out = []
    for (i, j) in sorted(es):
        out += [(i, j), (j, i)]
    return out


def make_input(rng, kind, n=None):
    """One input description of the given kind."""
    n = n or rng.randint(6, 13)
    weights = rng.choice([None, None, [1, 2, 3], [0.5, 1, 2]])
    if kind == 'und':       # connected undirected
        es = _connected_undirected(rng, n, rng.choice([0.15, 0.3, 0.5]))
        w = graphs.sym_weights(rng, es, weights) if weights else None
        m = graphs.csr_from_edges(n, es, w)
    elif kind == 'blocks':  # undirected with community structure and many ties (order of the nodes matters)
        k = rng.choice([2, 3])
        n = max(n, 3 * k)
        es = []
        for i in range(n):
            for j in range(i):
                if rng.random() < (0.6 if i % k == j % k else 0.12):
                    es += [(i, j), (j, i)]
        if not es:
            es = [(0, 1), (1, 0)]
        m = graphs.csr_from_edges(n, sorted(set(es)))
    elif kind == 'dir':     # directed, every node has an out-edge
        es = set(graphs.random_edges(rng, n, rng.choice([0.2, 0.35]), directed=True))
        for i in range(n):
            es.add((i, (i + 1 + rng.randrange(n - 1)) % n))
        es = sorted(es)
        m = graphs.csr_from_edges(n, es, [rng.choice(weights) for _ in es] if weights else None)
    elif kind == 'disc':    # undirected, two components and an isolated node
        h = max(3, n // 2)
        es = _connected_undirected(rng, h, 0.3)
        es += [(a + h, b + h) for a, b in _connected_undirected(rng, max(2, n - h - 1), 0.3)]
        m = graphs.csr_from_edges(n, es)
    elif kind == 'bip':     # rectangular biadjacency, no empty row / column
        r, c = rng.randint(4, 8), rng.randint(5, 9)
        if r == c:
            c += 1
        es = set(graphs.random_edges(rng, r, 0.35, m=c))
        for i in range(r):
            es.add((i, rng.randrange(c)))
        for j in range(c):
            es.add((rng.randrange(r), j))
        es = sorted(es)
        m = graphs.csr_from_edges(r, es, [rng.choice(weights) for _ in es] if weights else None, m=c)
    elif kind == 'tiny':    # two nodes, one edge
        m = graphs.csr_from_edges(2, [(0, 1), (1, 0)])
    else:
        raise ValueError(kind)
    nr = m.shape[0]
    gd = _gdesc(m, dtype=(rng.choice([None, None, None, 'bool', 'int']) if weights is None or kind in ('blocks', 'disc', 'tiny') else None))
    k = max(2, min(4, nr // 2))
    nodes = rng.sample(range(nr), k)
    inp = {'kind': kind, 'graph': gd,
           'labels': {str(v): i % 2 for i, v in enumerate(nodes)},
           'values': {str(v): [0.0, 1.0, 0.4, 0.75][i % 4] for i, v in enumerate(nodes)},
           'labels_array': [(-1 if rng.random() < 0.5 else rng.randrange(2)) for _ in range(nr)]}
    inp['labels_array'][0], inp['labels_array'][1] = 0, 1
    if rng.random() < 0.2 and kind != 'bip':
        inp['dense'] = True
    return inp


KINDS = ['und', 'blocks', 'dir', 'disc', 'bip', 'tiny']


# ------------------------------------------------------------------------------------------------
# per-class parameters
# ------------------------------------------------------------------------------------------------
def _seed(r):
    """an explicit seed; 0 is always in the pool (a falsy seed is still a seed)"""
    return r.choice([0, 0, 1, r.randrange(1000), r.randrange(1000), r.randrange(2 ** 31)])


def _ok_est(name):
    """Parameter objects are taken from the classes whose own history obligation holds on this tree (the
    theorem's assumption for user-supplied objects)."""
    return str(_GEN.get('verdict_ests', {}).get(name, '')).startswith('ok')


def _embedding_choices(r):
    out = [None]
    for nm, params in (('GSVD', {'n_components': 2}), ('Spectral', {'n_components': 2}), ('SVD', {'n_components': 2})):
        if _ok_est(nm):
            out.append({'__est__': nm, 'params': params})
    return r.choice(out)


def _louvain_like(r):
    return dict(resolution=r.choice([0.5, 1, 1.5]), modularity=r.choice(['dugue', 'newman', 'potts']),
                shuffle_nodes=r.random() < 0.75, random_state=_seed(r), sort_clusters=r.random() < 0.8,
                n_aggregations=r.choice([-1, -1, 1, 2]))


SPEC = {
    'Louvain': dict(params=_louvain_like, sets={'resolution': [0.5, 1, 2], 'shuffle_nodes': [True, False],
                                                'sort_clusters': [True, False], 'n_aggregations': [-1, 1],
                                                'return_probs': [True, False]},
                    targets=['blocks', 'blocks', 'und', 'dir', 'bip', 'disc']),
    'Leiden': dict(params=_louvain_like, sets={'resolution': [0.5, 1, 2], 'shuffle_nodes': [True, False],
                                               'sort_clusters': [True, False], 'return_aggregate': [True, False]},
                   targets=['blocks', 'blocks', 'und', 'dir', 'bip', 'disc']),
    'KCenters': dict(params=lambda r: dict(n_clusters=r.choice([2, 3]), n_init=r.choice([1, 2]), max_iter=5,
                                           center_position=r.choice(['row', 'both'])),
                     sets={'n_clusters': [2, 3], 'n_init': [1, 2]}, targets=['und', 'blocks', 'bip']),
    'PropagationClustering': dict(params=lambda r: dict(n_iter=r.choice([3, 5]), node_order=r.choice([None, 'decreasing', 'increasing', 'random']),
                                                        weighted=r.random() < 0.5, sort_clusters=r.random() < 0.7),
                                  sets={'n_iter': [2, 5], 'weighted': [True, False], 'sort_clusters': [True, False]},
                                  targets=['und', 'blocks', 'bip', 'disc']),
    'LouvainHierarchy': dict(params=lambda r: dict(resolution=r.choice([1, 1.5]), shuffle_nodes=r.random() < 0.7,
                                                   random_state=_seed(r)),
                             sets={}, targets=['blocks', 'und', 'disc']),
    'LouvainIteration': dict(params=lambda r: dict(depth=r.choice([2, 3]), resolution=r.choice([1, 1.5]),
                                                   shuffle_nodes=r.random() < 0.7, random_state=_seed(r)),
                             sets={'depth': [1, 2, 3]}, targets=['blocks', 'und', 'disc']),
    'Paris': dict(params=lambda r: dict(weights=r.choice(['degree', 'uniform']), reorder=r.random() < 0.7),
                  sets={'reorder': [True, False]}, targets=['und', 'blocks', 'bip']),
    'ForceAtlas': dict(params=lambda r: dict(n_components=2, n_iter=r.choice([3, 6]), lin_log=r.random() < 0.3),
                       sets={'n_iter': [2, 5], 'lin_log': [True, False]}, targets=['und', 'blocks']),
    'Spring': dict(params=lambda r: dict(n_components=2, n_iter=r.choice([3, 6]), position_init=r.choice(['random', 'spectral'])),
                   sets={'n_iter': [2, 5]}, targets=['und', 'blocks']),
    'GSVD': dict(params=lambda r: dict(n_components=r.choice([2, 3]), regularization=r.choice([None, 0.5]),
                                       factor_singular=r.choice([0., 0.5]), normalized=r.random() < 0.5),
                 sets={'n_components': [2, 3], 'normalized': [True, False], 'factor_singular': [0., 1.]},
                 targets=['und', 'bip', 'dir', 'blocks']),
    'SVD': dict(params=lambda r: dict(n_components=r.choice([2, 3]), normalized=r.random() < 0.5),
                sets={'n_components': [2, 3], 'normalized': [True, False]}, targets=['und', 'bip', 'dir', 'blocks', 'disc']),
    'PCA': dict(params=lambda r: dict(n_components=r.choice([2, 3]), normalized=r.random() < 0.5),
                sets={'n_components': [2, 3], 'normalized': [True, False]}, targets=['und', 'bip', 'dir', 'blocks', 'disc']),
    'Spectral': dict(params=lambda r: dict(n_components=r.choice([2, 3]), decomposition=r.choice(['rw', 'sym']),
                                           normalized=r.random() < 0.5),
                     sets={'n_components': [2, 3], 'decomposition': ['rw', 'sym'], 'normalized': [True, False]},
                     targets=['und', 'blocks', 'bip', 'disc']),
    'RandomProjection': dict(params=lambda r: dict(n_components=r.choice([2, 3]), alpha=r.choice([0.3, 0.5]),
                                                   random_walk=r.random() < 0.5, random_state=_seed(r)),
                             sets={'n_components': [2, 3], 'alpha': [0.2, 0.6], 'n_iter': [2, 4]},
                             targets=['und', 'bip', 'dir', 'disc']),
    'LouvainEmbedding': dict(params=lambda r: dict(resolution=r.choice([1, 1.5]), shuffle_nodes=r.random() < 0.75,
                                                   random_state=_seed(r)),
                             sets={'resolution': [1, 2], 'isolated_nodes': ['remove', 'merge']},
                             targets=['blocks', 'und', 'bip']),
    'Betweenness': dict(params=lambda r: dict(normalized=r.random() < 0.5), sets={'normalized': [True, False]},
                        targets=['und', 'und']),      # (needs a connected graph)
    'Closeness': dict(params=lambda r: dict(method=r.choice(['exact', 'approximate']), tol=r.choice([0.1, 0.3])),
                      sets={'method': ['exact', 'approximate'], 'tol': [0.2, 0.5]}, targets=['und']),
    'HITS': dict(params=lambda r: dict(), sets={}, targets=['und', 'dir', 'bip', 'blocks', 'disc']),
    'Katz': dict(params=lambda r: dict(damping_factor=r.choice([0.3, 0.5]), path_length=r.choice([2, 4])),
                 sets={'damping_factor': [0.2, 0.5], 'path_length': [2, 3]}, targets=['und', 'dir', 'bip']),
    'PageRank': dict(params=lambda r: dict(damping_factor=r.choice([0.5, 0.85]), solver=r.choice(['piteration', 'diteration', 'lanczos', 'bicgstab', 'RH']),
                                           n_iter=r.choice([5, 10])),
                     sets={'damping_factor': [0.6, 0.9], 'solver': ['piteration', 'diteration', 'RH'], 'n_iter': [3, 8]},
                     targets=['und', 'dir', 'bip', 'disc']),
    'DiffusionClassifier': dict(params=lambda r: dict(n_iter=r.choice([3, 10]), centering=r.random() < 0.6, scale=r.choice([1, 5])),
                                sets={'n_iter': [2, 6], 'centering': [True, False]}, targets=['und', 'dir', 'bip', 'disc']),
    'NNClassifier': dict(params=lambda r: dict(n_neighbors=r.choice([1, 2]),
                                               embedding_method=_embedding_choices(r),
                                               normalize=r.random() < 0.6),
                         sets={'n_neighbors': [1, 2], 'normalize': [True, False]}, targets=['und', 'blocks', 'bip']),
    'PageRankClassifier': dict(params=lambda r: dict(damping_factor=r.choice([0.5, 0.85]), n_iter=r.choice([5, 10]),
                                                     n_jobs=r.choice([None, None, 2])),
                               sets={}, targets=['und', 'dir']),
    'Propagation': dict(params=lambda r: dict(n_iter=r.choice([3, 5]), node_order=r.choice([None, 'decreasing', 'increasing', 'random']),
                                              weighted=r.random() < 0.5),
                        sets={'n_iter': [2, 5], 'weighted': [True, False]}, targets=['und', 'blocks', 'bip', 'disc']),
    'Diffusion': dict(params=lambda r: dict(n_iter=r.choice([2, 5]), damping_factor=r.choice([0.5, 0.8])),
                      sets={'damping_factor': [0.4, 0.9]}, targets=['und', 'dir', 'bip', 'disc']),
    'Dirichlet': dict(params=lambda r: dict(n_iter=r.choice([2, 5])), sets={}, targets=['und', 'dir', 'bip', 'disc']),
    'NNLinker': dict(params=lambda r: dict(n_neighbors=r.choice([2, 3]), threshold=r.choice([0, 0.2]),
                                           embedding_method=_embedding_choices(r)),
                     sets={'n_neighbors': [2, 3], 'threshold': [0, 0.3]}, targets=['und', 'blocks', 'bip']),
    'GNNClassifier': dict(params=lambda r: r.choice([
        dict(dims=[r.choice([3, 4]), 2], early_stopping=False, optimizer=r.choice(['Adam', 'Adam', 'GD']), layer_types='Conv'),
        # neighbour sampling must be controlled by random_state too: sample sizes below the degrees of the inputs
        dict(dims=[r.choice([3, 4]), 2], early_stopping=False, optimizer=r.choice(['Adam', 'GD']), layer_types='Sage',
             sample_sizes=r.choice([[3, 2], [2, 2], 2, [1, 3]]))]),
                          sets={}, targets=['und', 'blocks', 'blocks']),
    'LanczosEig': dict(params=lambda r: dict(which=r.choice(['LM', 'SM', 'LA'])), sets={'which': ['LM', 'LA']},
                       targets=['und', 'blocks', 'bip']),
    'LanczosSVD': dict(params=lambda r: dict(), sets={}, targets=['und', 'bip', 'dir', 'blocks', 'disc']),
}


def _fit_kw(name, rng):
    if name == 'GNNClassifier':
        kw = {'n_epochs': rng.choice([2, 4]), 'random_state': _seed(rng), 'validation': rng.choice([0, 0, 0, 0.3])}
        if rng.random() < 0.7:
            kw['reinit'] = True          # otherwise the default of the signature (False: warm start)
        return kw
    if name in ('Louvain', 'Leiden', 'KCenters', 'Spectral', 'RandomProjection', 'LouvainEmbedding') and rng.random() < 0.15:
        return {'force_bipartite': True}
    return {}


def accepted_params(name):
    """Names `Algorithm.set_params` accepts for the class, from the *generated* description (the model's
    `setParamAccepted`, which the `c16.setparam` run lines compare with the code): constructor parameters other than
    random_state / verbose that exist as attributes.  Falls back to the hand table for a class without description."""
    d = _GEN.get('descs', {}).get(name)
    if not d:
        return sorted(SPEC[name]['sets'])
    attrs = {i['attr'] for i in d['init']}
    return [p for p in d['params'] if p in attrs and p not in ('random_state', 'verbose')]


def _stores_seed(name):
    """does the class keep `random_state` unchanged as an attribute of its own (then assigning it is an operation of
    the model: `Op.setParam` on a setable attribute)?"""
    d = _GEN.get('descs', {}).get(name)
    return bool(d) and any(i['attr'] == 'random_state' and i['kind'] == 'param' for i in d['init'])


def derived_params(name):
    """accepted parameters that `__init__` does not store unchanged (canonicalised, validated, replaced by an object)"""
    d = _GEN.get('descs', {}).get(name)
    if not d:
        return []
    kind = {i['attr']: i['kind'] for i in d['init']}
    return [p for p in accepted_params(name) if kind.get(p) != 'param']


def set_value(rng, name, param):
    """A value for `set_params({param: value})`: of the type of the constructor's default, *not* restricted to the
    canonical spellings (upper-case strings, -1, 0, None, a new solver object)."""
    import inspect
    cls = W.estimator_classes()[name]
    hand = list(SPEC[name]['sets'].get(param, []))
    try:
        default = inspect.signature(cls.__init__).parameters[param].default
    except (KeyError, ValueError):
        default = None
    pool = list(hand)
    if isinstance(default, bool):
        pool += [True, False]
    elif isinstance(default, int):
        pool += [-1, 1, 2, 3]
    elif isinstance(default, float):
        pool += [1e-3, 0.1] if 'tol' in param else [0, 0.3, 0.5, 1]
    elif isinstance(default, str):
        alts = [default] + [h for h in hand if isinstance(h, str)]
        if param == 'modularity':
            alts += ['newman', 'potts', 'dugue']
        pool += alts + [a.upper() for a in alts] + [a.capitalize() for a in alts]
        if param == 'solver' and name in ('GSVD', 'SVD', 'PCA', 'HITS'):
            pool.append({'__est__': 'LanczosSVD', 'params': {}})
    elif default is None:
        if param == 'embedding_method':
            pool.append(_embedding_choices(rng))
        elif param == 'n_jobs':
            pool += [-1, 1, 2, None]
        elif param == 'regularization':
            pool += [0, 0.5, None]
        elif param == 'solver':
            pool.append({'__est__': 'LanczosSVD', 'params': {}})
        elif not hand:
            pool.append(None)
    if not pool:
        return None, False
    return rng.choice(pool), True


def make_job(rng, name, n_hist=None, target_kind=None):
    spec = SPEC[name]
    params = spec['params'](rng)
    n_hist = rng.choice([0, 1, 1, 2, 2, 3]) if n_hist is None else n_hist
    hist = []
    names = accepted_params(name)
    cls = W.estimator_classes().get(name)
    entries = ['fit'] + [m for m in ('fit_predict', 'fit_transform') if cls is not None and callable(getattr(cls, m, None))]

    def fit_input(kind):
        inp = make_input(rng, kind)
        if name == 'LouvainEmbedding':
            inp.pop('dense', None)        # (it refuses a dense array: a matter of C01)
        inp['kw'] = _fit_kw(name, rng)
        if rng.random() < 0.25:
            inp['entry'] = rng.choice(entries)
        return inp
    for _ in range(n_hist):
        done = False
        u = rng.random()
        if names and u < 0.35:
            k = rng.choice(names)
            v, ok = set_value(rng, name, k)
            if ok:
                ps = {k: v}
                if rng.random() < 0.1:
                    ps['no_such_parameter'] = 1      # the first item is applied, then set_params raises
                hist.append({'op': 'set', 'params': ps})
                done = True
        elif 'random_state' in params and _stores_seed(name) and u < 0.45:
            # the seed is changed by plain assignment (set_params refuses the name)
            hist.append({'op': 'attr', 'params': {'random_state': _seed(rng)}})
            done = True
        if not done:
            # earlier fits see every kind of input (also the ones on which this class raises)
            inp = fit_input(rng.choice(KINDS if rng.random() < 0.5 else spec['targets'] + ['bip']))
            hist.append({'op': 'fit', 'input': inp, 'np_seed': rng.randrange(10 ** 6)})
    target = fit_input(target_kind or rng.choice(spec['targets']))
    return {'kind': 'est', 'cls': name, 'params': params, 'history': hist, 'target': target,
            'np_seed': rng.randrange(10 ** 6)}


def current_params(job):
    """Constructor parameters of the fresh object: the initial ones updated by the set_params of the history."""
    p = dict(job['params'])
    for op in job['history']:
        if op['op'] in ('set', 'attr'):
            p.update({k: v for k, v in op['params'].items() if k != 'no_such_parameter'})
    return p


# ------------------------------------------------------------------------------------------------
# tracing the reads / writes of one fit
# ------------------------------------------------------------------------------------------------
_TRACED = {}


def _rebuild_untraced(cls, state):
    """unpickling of a traced object: an ordinary object of the original class (tracing does not cross processes)"""
    obj = cls.__new__(cls)
    obj.__dict__.update(state)
    return obj


def _traced_class(cls):
    if cls in _TRACED:
        return _TRACED[cls]

    class T(cls):
        def _c16_start(self):
            object.__setattr__(self, '_c16_reads', [])
            object.__setattr__(self, '_c16_writes', [])
            # attribute objects that are estimators are traced too (their attributes are reported as `attr.x`)
            from sknetwork.base import Algorithm
            nested = {}
            for k, v in list(object.__getattribute__(self, '__dict__').items()):
                if isinstance(v, Algorithm) and not k.startswith('_c16_'):
                    try:
                        if not hasattr(v, '_c16_start'):
                            v.__class__ = _traced_class(type(v))
                        v._c16_start()
                        nested[k] = v
                    except TypeError:
                        pass
            object.__setattr__(self, '_c16_nested', nested)
            object.__setattr__(self, '_c16_on', True)

        def _c16_stop(self):
            object.__setattr__(self, '_c16_on', False)
            for v in object.__getattribute__(self, '__dict__').get('_c16_nested', {}).values():
                v._c16_stop()

        def __reduce__(self):
            d = object.__getattribute__(self, '__dict__')
            return (_rebuild_untraced, (cls, {k: v for k, v in d.items() if not k.startswith('_c16_')}))

        def _c16_flat(self):
            """(reads, writes) with the attribute objects' own traces prefixed"""
            d = object.__getattribute__(self, '__dict__')
            reads, writes = list(d.get('_c16_reads', [])), list(d.get('_c16_writes', []))
            for k, v in d.get('_c16_nested', {}).items():
                r2, w2 = v._c16_flat()
                reads += [k + '.' + x for x in r2]
                writes += [k + '.' + x for x in w2]
            return reads, writes

        def __getattribute__(self, k):
            v = object.__getattribute__(self, k)
            if not k.startswith('_c16_') and not k.startswith('__'):
                d = object.__getattribute__(self, '__dict__')
                if d.get('_c16_on') and k in d:
                    if k not in d['_c16_writes'] and k not in d['_c16_reads']:
                        d['_c16_reads'].append(k)
            return v

        def __setattr__(self, k, v):
            d = object.__getattribute__(self, '__dict__')
            if d.get('_c16_on') and k not in d['_c16_writes']:
                d['_c16_writes'].append(k)
            object.__setattr__(self, k, v)
    T.__name__ = cls.__name__
    T.__qualname__ = cls.__qualname__
    _TRACED[cls] = T
    return T


def _trace_factory(name, params):
    cls = W.estimator_classes()[name]
    return _traced_class(cls)(**{k: W._decode_param(v) for k, v in params.items()})


def _strip_trace(st):
    """remove the tracer's own attributes, at every depth"""
    if isinstance(st, dict):
        return {k: _strip_trace(v) for k, v in st.items() if not (isinstance(k, str) and k.startswith('_c16_'))}
    if isinstance(st, list):
        return [_strip_trace(v) for v in st]
    return st


# ------------------------------------------------------------------------------------------------
# comparisons
# ------------------------------------------------------------------------------------------------
def _families(attrs):
    """`labels_row_`, `labels_col_` -> `labels_row/col_` (which of the two is stale depends on the history)."""
    out = set()
    for a in attrs:
        for suf in ('_row_', '_col_'):
            if a.endswith(suf):
                a = a[:-len(suf)] + '_row/col_'
                break
        out.add(a)
    return ','.join(sorted(out))


def diff_states(a, b):
    """attributes on which two results differ; ('outcome' when the fits ended differently)"""
    if a['outcome'] != b['outcome']:
        return ['<outcome>']
    sa, sb = a['state'], b['state']
    if not isinstance(sa, dict) or not isinstance(sb, dict):
        return [] if sa == sb else ['<value>']
    return sorted(k for k in set(sa) | set(sb) if sa.get(k) != sb.get(k))


def _maxdiff(x, y):
    """Largest relative difference |p-q|/(1+|p|) over the *float* leaves of two canonical values of the same shape
    (integer arrays, indices, strings are discrete and ignored); None when the shapes differ."""
    worst = [0.0]

    def fl(t):
        if isinstance(t, str):
            return float.fromhex(t[2:] if t.startswith('f:') else t)
        return None

    def walk(a, b):
        if isinstance(a, dict) and isinstance(b, dict):
            if 'nd' in a and 'nd' in b:
                if a.get('shape') != b.get('shape'):
                    return False
                if str(a['nd']).startswith('float'):
                    for p, q in zip(a['v'], b['v']):
                        fp, fq = fl(p), fl(q)
                        if fp is None or fq is None:
                            continue
                        if fp != fq and not (fp != fp and fq != fq):
                            worst[0] = max(worst[0], abs(fp - fq) / (1 + abs(fp)))
                return True
            if 'sp' in a and 'sp' in b:
                if a.get('shape') != b.get('shape') or a.get('indptr') != b.get('indptr') or a.get('indices') != b.get('indices'):
                    return True     # a different sparsity pattern is a discrete difference: ignored here
                for p, q in zip(a['data'], b['data']):
                    fp, fq = fl(p), fl(q)
                    if fp is not None and fq is not None and fp != fq:
                        worst[0] = max(worst[0], abs(fp - fq) / (1 + abs(fp)))
                return True
            for k in set(a) & set(b):
                if not walk(a[k], b[k]):
                    return False
            return True
        if isinstance(a, list) and isinstance(b, list):
            if len(a) != len(b):
                return False
            for p, q in zip(a, b):
                if not walk(p, q):
                    return False
            return True
        if isinstance(a, str) and isinstance(b, str) and a.startswith('f:') and b.startswith('f:'):
            fp, fq = fl(a), fl(b)
            if fp != fq:
                worst[0] = max(worst[0], abs(fp - fq) / (1 + abs(fp)))
        return True
    return worst[0] if walk(x, y) else None


def classify_refit(job, refit, fresh):
    """-> (observed token, sig extras, differing attributes)"""
    d = diff_states(refit, fresh)
    if not d:
        return 'equal', {}, []
    stale = [k for k in d if k not in ('<outcome>', '<value>') and fresh['state'].get(k) is None and refit['state'].get(k) is not None]
    if stale and len(stale) == len(d):
        return 'stale:' + ','.join(stale), {'kind': 'stale', 'attrs': _families(stale)}, d
    extra = {'kind': 'refit-differs'}
    p = current_params(job)
    if 'shuffle_nodes' in p:
        extra['shuffle_nodes'] = bool(p['shuffle_nodes'])
    sets = sorted({k for op in job['history'] if op['op'] == 'set' for k in op['params']} & set(derived_params(job['cls'])))
    if sets and job['cls'] == 'GNNClassifier':
        extra['set_derived_gnn'] = True       # (loss / optimizer / layers in any combination)
    elif sets:
        extra['set_derived'] = ','.join(sets)
    if d == ['<outcome>'] and refit['outcome'].startswith('err'):
        extra['refit_error'] = refit['outcome'][4:].split(':')[0]
    if job['cls'] == 'GNNClassifier':
        extra['reinit'] = bool(job['target'].get('kw', {}).get('reinit', False))
        extra['prior_fit'] = any(op['op'] == 'fit' for op in job['history'])
        # a validation mask drawn by any earlier fit is kept by the object
        extra['validation'] = any(bool(op['input'].get('kw', {}).get('validation')) for op in job['history']
                                  if op['op'] == 'fit')
    return 'differs:' + ','.join(d), extra, d


# ------------------------------------------------------------------------------------------------
# one estimator case
# ------------------------------------------------------------------------------------------------
def est_cases(ctx, job, static_names):
    """Run one history job in process: refit vs fresh, fresh vs fresh, trace. -> list of Case"""
    try:
        return _est_cases(ctx, job, static_names)
    except W.EnvironmentFailure as e:
        raise core.ToolFailure('environment: %s' % e)


def _est_cases(ctx, job, static_names):
    name = job['cls']
    refit, robj = W.run_history(job, trace=_trace_factory)
    if refit['state'] is not None:
        refit['state'] = _strip_trace(refit['state'])
    fresh_job = dict(job, params=refit['params_after'], history=[])
    # an explicit seed must determine the result on its own: the state of numpy's global generator is then made
    # *different* for the runs that are compared; without a seed parameter the global generator is the only handle
    # the caller has, and it is set equal
    explicit = 'random_state' in job['params'] or 'random_state' in (job['target'].get('kw') or {})
    if explicit:
        fresh_job['np_seed'] = job['np_seed'] + 1
    try:
        fresh, obj = W.run_history(fresh_job, trace=_trace_factory)
    except Exception as e:      # the constructor refuses the current parameters: there is no fresh estimator to compare with
        ctx.count('fresh-constructor-raises:' + type(e).__name__) if hasattr(ctx, 'count') else None
        return [], {'outcome': 'err constructor', 'state': None}, fresh_job
    if fresh['state'] is not None:
        fresh['state'] = _strip_trace(fresh['state'])
    # a parameter set by set_params keeps the spelling the caller gave it, the constructor stores its canonical form
    # ('Newman' / 'newman', 0 / None): such an attribute is compared through the results it produces, not as a value
    again, _ = W.run_history(dict(fresh_job, np_seed=fresh_job['np_seed'] + (2 if explicit else 0)))
    set_names = {k for op in job['history'] if op['op'] == 'set' for k, v in op['params'].items()
                 if not (isinstance(v, dict) and '__est__' in v)}      # (objects are compared by their state)
    if set_names:
        for r in (refit, fresh, again):
            if r['state'] is not None:
                r['state'] = {k: v for k, v in r['state'].items() if k not in set_names}
    cases = []
    desc = {'job': job}
    if fresh['outcome'] != 'ok' and hasattr(ctx, 'count'):
        ctx.count('target-raises:%s:%s' % (name, fresh['outcome'][4:].split(':')[0]))
    hist_fits = [op for op in job['history'] if op['op'] == 'fit']
    nontrivial = fresh['outcome'] == 'ok' and len(hist_fits) > len(refit.get('history_errors', [])) - sum(
        1 for e in refit.get('history_errors', []) if e.startswith('set:'))
    base_sig = {'entry': name + '.fit'}
    # (1) refit vs fresh
    obs, extra, d = classify_refit(job, refit, fresh)
    sig = dict(base_sig, **(extra or {'kind': 'refit'}))
    key = ('refit', json.dumps(job, sort_keys=True))
    if name in static_names:
        cases.append(Case(key, sig, None, obs, 'c16.spec_history %s %s' % (name, obs.replace(' ', '_')), nontrivial,
                          dict(desc, check='refit-vs-fresh', differs=d)))
    else:
        cases.append(Case(key, sig, None, obs, None, nontrivial, dict(desc, check='refit-vs-fresh', differs=d)))
        if obs != 'equal':
            ctx.spec_fail(sig, dict(desc, check='refit-vs-fresh', differs=d), {'observed': obs, 'note': 'class without static description'})
    # (2) rerun: two fresh objects
    d2 = diff_states(again, fresh)
    obs2 = 'equal' if not d2 else 'differs:' + ','.join(d2)
    sig2 = dict(base_sig, kind='rerun-differs') if d2 else dict(base_sig, kind='rerun')
    if name in static_names:
        cases.append(Case(('rerun', key[1]), sig2, None, obs2, 'c16.spec_history %s %s' % (name, obs2), fresh['outcome'] == 'ok',
                          dict(desc, check='fresh-vs-fresh', differs=d2)))
    elif d2:
        ctx.spec_fail(sig2, dict(desc, check='fresh-vs-fresh', differs=d2), {'observed': obs2})
    # (3) trace conformance of the target fit: on the fresh object and on the object with a history (there a read of a
    #     stale attribute shows up as a read outside `readsFirst`)
    for tag, o, res in (('trace', obj, fresh), ('trace-refit', robj, refit)):
        if name in static_names and hasattr(o, '_c16_reads') and res['outcome'] == 'ok':
            reads = [k for k in o._c16_reads]
            writes = [k for k in o._c16_writes]
            cases.append(Case((tag, key[1]), dict(base_sig, kind='trace'), None, 'trace',
                              'c16.spec_trace %s %s %s' % (name, ','.join(reads) or '-', ','.join(writes) or '-'),
                              tag == 'trace', dict(desc, check=tag, reads=reads, writes=writes)))
            # the same against the flattened description, attribute objects included
            fr, fw = o._c16_flat()
            if (len(fr) > len(reads) or len(fw) > len(writes)) and name not in OPAQUE_EXPECTED:
                cases.append(Case((tag + '-flat', key[1]), dict(base_sig, kind='trace-flat'), None, 'trace',
                                  'c16.spec_trace_flat %s %s %s' % (name, ','.join(fr) or '-', ','.join(fw) or '-'),
                                  False, dict(desc, check=tag + '-flat', reads=fr, writes=fw)))
    return cases, fresh, fresh_job


def _same(c, model, impl, spec_ok):
    if c.canon == 'interleave':
        def parse(t):
            rf, outs = t.split(' ')
            return rf, sorted(outs.split(';'))
        return parse(model) == parse(impl)
    return False


def evaluate(ctx, cases):
    _evaluate(ctx, cases, same=_same)


# ------------------------------------------------------------------------------------------------
# the interleaving semantics itself, against an independent brute force (Python) of the same definition
# ------------------------------------------------------------------------------------------------
def interleave_cases(ctx):
    def brute(idx):
        n = len(idx)
        uniq = list(dict.fromkeys(idx))
        res = set()

        def rec(pc, regs, mem):
            if all(p == 2 for p in pc):
                res.add(tuple(mem[j] for j in uniq))
                return
            for t in range(n):
                if pc[t] == 0:
                    rec(pc[:t] + (1,) + pc[t + 1:], regs[:t] + (mem[idx[t]],) + regs[t + 1:], mem)
                elif pc[t] == 1:
                    m2 = dict(mem)
                    m2[idx[t]] = regs[t] + 1
                    rec(pc[:t] + (2,) + pc[t + 1:], regs, m2)
        rec((0,) * n, (0,) * n, {j: 0 for j in uniq})
        rf = len(set(idx)) == len(idx)
        return ('1' if rf else '0') + ' ' + ';'.join(sorted(','.join(str(v) for v in o) for o in res))
    out = []
    pats = [[0], [0, 0], [0, 1], [1, 0, 1], [0, 1, 2], [2, 2, 2], [0, 0, 1]]
    pats.append([ctx.rng.randrange(3) for _ in range(3)])
    for idx in pats:
        out.append(Case(('interleave', tuple(idx)), {'entry': 'ParFor.semantics'}, 'c16.interleave ' + ','.join(map(str, idx)),
                        brute(idx), None, len(idx) > 1, {'f': 'interleave', 'idx': idx}, canon='interleave'))
    return out


# ------------------------------------------------------------------------------------------------
# check_random_state
# ------------------------------------------------------------------------------------------------
def crs_cases(ctx):
    from sknetwork.utils.check import check_random_state
    rs = np.random.RandomState(11)
    args = [('none', None), ('int:0', 0), ('int:5', 5), ('int:%d' % (2 ** 32 - 1), 2 ** 32 - 1), ('int:%d' % 2 ** 32, 2 ** 32),
            ('int:-1', -1), ('int:%d' % ctx.rng.randrange(2 ** 31), None), ('other', np.int64(3)), ('bool:1', True), ('bool:0', False),
            ('other', 3.0), ('other', 'junk'), ('other', np.random.default_rng(0)), ('inst', rs), ('other', [1]),
            ('other', np.random)]
    out = []
    for tok, val in args:
        if tok.startswith('int:') and val is None:
            val = int(tok[4:])
        before = np.random.get_state()[1].copy()
        pos_before = np.random.get_state()[2]
        try:
            r = check_random_state(val)
            g_un = '1' if (np.random.get_state()[1] == before).all() and np.random.get_state()[2] == pos_before else '0'
            if r is np.random.mtrand._rand or r is np.random:
                impl = 'global ' + g_un
            elif r is val:
                impl = 'same ' + g_un
            elif isinstance(r, np.random.RandomState):
                if tok.startswith('int:') or tok.startswith('bool:'):
                    ref = np.random.RandomState(int(val)).get_state()
                    st = r.get_state()
                    impl = ('new-seeded ' if (st[1] == ref[1]).all() and st[2] == ref[2] else 'new-other ') + g_un
                else:
                    r2 = check_random_state(val)
                    differs = not (r.get_state()[1] == r2.get_state()[1]).all()
                    impl = ('new-entropy ' if differs and r2 is not r else 'new-other ') + g_un
            else:
                impl = 'new-other ' + g_un
        except (TypeError, ValueError) as e:
            impl = 'err ' + type(e).__name__
        out.append(Case(('crs', tok, repr(type(val))), {'entry': 'check_random_state', 'arg': tok.split(':')[0]},
                        'c16.crs ' + tok, impl, None, tok.startswith('int:') or tok == 'inst' or tok.startswith('bool:'),
                        {'f': 'check_random_state', 'arg': tok, 'type': type(val).__name__}))
    return out


# ------------------------------------------------------------------------------------------------
# Algorithm.set_params: which names are accepted (run lines, exact)
# ------------------------------------------------------------------------------------------------
def setparam_cases(ctx, names, static):
    out = []
    for name in names:
        if name not in static:
            continue
        d = _GEN['descs'][name]
        obj = W.construct(name, SPEC[name]['params'](ctx.rng))
        cand = list(d['params']) + [i['attr'] for i in d['init'][:3]] + ['no_such_parameter']
        for p in dict.fromkeys(cand):
            try:
                cur = vars(obj).get(p)
                obj.set_params({p: cur})
                impl = 'ok'
            except ValueError:
                impl = 'err ValueError'
            out.append(Case(('setparam', name, p), {'entry': name + '.set_params', 'param': p},
                            'c16.setparam %s %s' % (name, p), impl, None, impl == 'ok',
                            {'f': 'set_params', 'cls': name, 'param': p}))
    return out


# ------------------------------------------------------------------------------------------------
# seeded data generators (sknetwork/data/models.py)
# ------------------------------------------------------------------------------------------------
def model_jobs(rng):
    s = rng.randrange(10 ** 6)
    return [
        {'kind': 'fn', 'fn': 'block_model', 'graph': _EMPTY, 'kw': {'sizes': [4, 5, 3], 'p_in': 0.5, 'p_out': 0.1, 'seed': s}},
        {'kind': 'fn', 'fn': 'block_model', 'graph': _EMPTY, 'kw': {'sizes': [4, 5], 'p_in': [0.4, 0.6], 'directed': True, 'self_loops': True, 'seed': s}},
        {'kind': 'fn', 'fn': 'erdos_renyi', 'graph': _EMPTY, 'kw': {'n': 12, 'p': 0.3, 'seed': s}},
        {'kind': 'fn', 'fn': 'albert_barabasi', 'graph': _EMPTY, 'kw': {'n': 15, 'degree': 2, 'seed': s}},
        {'kind': 'fn', 'fn': 'watts_strogatz', 'graph': _EMPTY, 'kw': {'n': 14, 'degree': 4, 'prob': 0.3, 'seed': s}},
    ]


_EMPTY = {'shape': [1, 1], 'indptr': [0, 0], 'indices': [], 'data': []}

PUBLIC_FUNCTIONS = [
    ('topology:get_connected_components', {}, None), ('topology:get_core_decomposition', {}, None),
    ('topology:color_weisfeiler_lehman', {}, None), ('topology:count_cliques', {'clique_size': 3}, None),
    ('topology:is_bipartite', {}, None), ('topology:get_largest_connected_component', {}, None),
    ('topology:count_triangles', {}, None), ('topology:is_connected', {}, None),
    ('path:get_distances', {'source': 0}, None), ('path:get_shortest_path', {'source': 0}, None),
    ('path:breadth_first_search', {'source': 1}, None),
    ('utils:get_degrees', {}, None), ('utils:directed2undirected', {}, None), ('linalg:normalize', {}, None),
    ('clustering:get_modularity', {}, 'clustering:PropagationClustering'),
    ('hierarchy:dasgupta_score', {}, 'hierarchy:Paris'), ('hierarchy:tree_sampling_divergence', {}, 'hierarchy:Paris'),
    ('hierarchy:cut_straight', {}, None),
]


def function_jobs(rng):
    """Public functions without randomness: called twice in process and in every fresh interpreter."""
    jobs = []
    for kind in ('und', 'blocks', 'dir', 'bip'):
        inp = make_input(rng, kind, n=rng.randint(8, 14))
        for fn, kw, lab in PUBLIC_FUNCTIONS:
            if fn == 'hierarchy:cut_straight':
                continue
            if (kind == 'dir' and fn == 'topology:is_bipartite') or (kind == 'bip' and fn == 'utils:directed2undirected'):
                continue
            if kind in ('dir', 'bip') and (lab or fn.split(':')[0] in ('hierarchy',) or
                                           (kind == 'bip' and fn.split(':')[0] in ('topology', 'path', 'clustering'))):
                continue
            j = {'kind': 'fn', 'fn': fn, 'graph': inp['graph'], 'kw': kw}
            if lab:
                j['labels_from'] = lab
            jobs.append(j)
    return jobs


# ------------------------------------------------------------------------------------------------
# fresh interpreters / thread counts
# ------------------------------------------------------------------------------------------------
def run_workers(ctx, jobs, thread_counts, repeats=1, timeout=240):
    """-> {(threads, repeat): [result per job] or ('crash', rc, stderr tail)}"""
    payload = json.dumps(jobs)
    script = os.path.abspath(W.__file__)
    root = ctx.overlay_root if hasattr(ctx, 'overlay_root') else ctx.ctx.overlay_root

    def one(tr):
        t, r = tr
        env = dict(os.environ)
        env['OMP_NUM_THREADS'] = str(t)
        if t == max(thread_counts) or r % 2 == 1:
            env['OMP_DYNAMIC'] = 'true'             # the runtime may use fewer threads
            env['OMP_SCHEDULE'] = 'dynamic,1'        # (for schedule(runtime) loops)
        env.pop('PYTHONPATH', None)
        try:
            p = subprocess.run(['/venv/bin/python', script, root], input=payload, env=env, stdout=subprocess.PIPE,
                               stderr=subprocess.PIPE, text=True, timeout=timeout, cwd=os.path.join(core.VERIF, 'tools'))
        except subprocess.TimeoutExpired:
            return tr, ('crash', 'timeout', '')
        if p.returncode != 0:
            return tr, ('crash', p.returncode, p.stderr[-400:])
        try:
            return tr, json.loads(p.stdout)
        except ValueError:
            return tr, ('crash', 'bad-output', p.stdout[-200:])
    todo = [(t, r) for t in thread_counts for r in range(repeats)]
    with concurrent.futures.ThreadPoolExecutor(max_workers=min(8, len(todo))) as ex:
        return dict(ex.map(one, todo))


def kernel_jobs(rng, big=False):
    """Jobs that exercise the prange kernels (and the formerly parallel D-iteration sweep)."""
    jobs = []
    sizes = [(40, 0.25), (80, 0.15)] + ([(200, 0.08), (500, 0.03)] if big else [])
    for n, p in sizes:
        es = _connected_undirected(rng, n, p)
        m = graphs.csr_from_edges(n, es)
        g = _gdesc(m)
        jobs.append({'kind': 'fn', 'fn': 'count_triangles', 'graph': g, 'kw': {'parallelize': True}, 'loop': 'topology/triangles.pyx'})
        jobs.append({'kind': 'fn', 'fn': 'get_clustering_coefficient', 'graph': g, 'kw': {'parallelize': True}, 'loop': 'topology/triangles.pyx'})
        jobs.append({'kind': 'fn', 'fn': 'get_pagerank', 'graph': g, 'kw': {'solver': 'diteration', 'n_iter': 6, 'damping_factor': 0.85}, 'loop': 'linalg/diteration.pyx'})
        jobs.append({'kind': 'fn', 'fn': 'get_pagerank', 'graph': g, 'kw': {'solver': 'push', 'damping_factor': 0.85, 'tol': 1e-3}, 'loop': 'linalg/push.pyx'})
        if n == 40:
            # the racy kernel through the estimator class as well
            jobs.append({'kind': 'est', 'cls': 'PageRank', 'params': {'solver': 'push', 'damping_factor': 0.85, 'tol': 1e-3},
                         'history': [], 'target': {'kind': 'und', 'graph': g, 'kw': {}}, 'np_seed': 1, 'loop': 'linalg/push.pyx'})
    return jobs


def _unsafe(job):
    """Jobs that run a kernel with a recorded race (a crash of the interpreter is a possible outcome): they get their
    own interpreters, so that a crash is attributed to them."""
    if job.get('kind') == 'est':
        return (job.get('params') or {}).get('solver') == 'push'
    return job.get('kind') == 'fn' and (job.get('kw') or {}).get('solver') == 'push'


def _compare_batch(jobs, res, inproc, offset=0):
    bad = []
    okr = {k: v for k, v in res.items() if not isinstance(v, tuple)}
    if not okr:
        return bad
    ref_key = sorted(okr)[0]
    for i, job in enumerate(jobs):
        ref = okr[ref_key][i]
        for k in sorted(okr):
            r = okr[k][i]
            if str(r.get('outcome', '')).startswith('worker-exception'):
                bad.append((job, 'worker-exception', {'threads': k[0], 'outcome': r['outcome']}))
                continue
            d = diff_states(r, ref)
            if d:
                md = _maxdiff(r['state'], ref['state']) if r['outcome'] == ref['outcome'] else None
                bad.append((job, 'threads-differs', {'threads': [ref_key[0], k[0]], 'attrs': d, 'max_rel_diff': md}))
                break
        if inproc.get(i + offset) is not None:
            d = diff_states(okr[ref_key][i], inproc[i + offset])
            if d:
                md = _maxdiff(okr[ref_key][i]['state'], inproc[i + offset]['state'])
                bad.append((job, 'process-differs', {'threads': ref_key[0], 'attrs': d, 'max_rel_diff': md}))
    return bad


def sweep(ctx, est_jobs, fn_jobs, thread_counts, repeats, inproc):
    """Compare worker results across thread counts / processes.  `inproc`: job index -> in-process result (or None).
    Returns list of (job, kind, detail)."""
    safe = est_jobs + [j for j in fn_jobs if not _unsafe(j)]
    unsafe = [j for j in fn_jobs if _unsafe(j)]
    # in-process results are indexed in the order est_jobs + fn_jobs: re-index them for the safe batch
    order = est_jobs + fn_jobs
    pos = {id(j): i for i, j in enumerate(order)}
    inproc_safe = {i: inproc.get(pos[id(j)]) for i, j in enumerate(safe)}
    bad = []
    res = run_workers(ctx, safe, thread_counts, repeats) if safe else {}
    for k, v in res.items():
        if isinstance(v, tuple):
            if v[1] == 'timeout':
                raise subprocess.TimeoutExpired('c16 worker (threads=%s)' % k[0], 240)
            if isinstance(v[1], int) and v[1] > 0:
                # the interpreter ended with a Python exception (e.g. the overlay was being rebuilt by another check
                # while it imported): a failure of the tool, not an outcome of the implementation
                raise core.ToolFailure('c16 worker (threads=%s) exited with %s: %s' % (k[0], v[1], v[2][-300:]))
            bad.append((None, 'worker-crash', {'threads': k[0], 'rc': v[1], 'stderr': v[2]}))
    bad += _compare_batch(safe, res, inproc_safe)
    if unsafe:
        res2 = run_workers(ctx, unsafe, thread_counts, repeats)
        crashed = {k: v for k, v in res2.items() if isinstance(v, tuple)}
        for k, v in crashed.items():
            if v[1] == 'timeout':
                continue            # a hang is one of the possible outcomes of the recorded race
            if isinstance(v[1], int) and v[1] > 0:
                raise core.ToolFailure('c16 worker (threads=%s, racy kernels) exited with %s: %s' % (k[0], v[1], v[2][-300:]))
        crashed = {k: v for k, v in crashed.items() if not (isinstance(v[1], int) and v[1] > 0)}
        for k, v in crashed.items():
            for j in unsafe:
                bad.append((j, 'worker-crash', {'threads': k[0], 'rc': v[1], 'stderr': v[2][-200:]}))
            break
        bad += _compare_batch(unsafe, res2, {})
        res = dict(res)
        res.update({('unsafe',) + k: v for k, v in res2.items()})
    return bad, res


# ------------------------------------------------------------------------------------------------
# contract of the external compiler: the OpenMP clauses Cython emits for each prange loop
# ------------------------------------------------------------------------------------------------
def cython_clauses(pyx_path, pxd_dir):
    """Translate one .pyx to C++ with the Cython of the build (cached by content hash) and return, per
    `#pragma omp parallel` / `#pragma omp for` pair in source order, the variables of the (first|last)private
    clauses and the reductions."""
    import hashlib
    import re
    import shutil
    src = open(pyx_path, 'rb').read()
    import Cython
    pxd = b''.join(open(os.path.join(os.path.dirname(pyx_path), f), 'rb').read()
                   for f in sorted(os.listdir(os.path.dirname(pyx_path))) if f.endswith('.pxd'))
    h = hashlib.sha256(src + b'\0' + pxd + b'\0' + Cython.__version__.encode()).hexdigest()[:16]
    d = os.path.join(core.CACHE, 'c16_cython')
    os.makedirs(d, exist_ok=True)
    out = os.path.join(d, os.path.basename(pyx_path)[:-4] + '.' + h + '.json')
    if os.path.exists(out):
        return json.load(open(out))
    work = os.path.join(d, 'work_' + h)
    os.makedirs(work, exist_ok=True)
    shutil.copy(pyx_path, os.path.join(work, os.path.basename(pyx_path)))
    for f in os.listdir(os.path.dirname(pyx_path)):
        if f.endswith('.pxd'):
            shutil.copy(os.path.join(os.path.dirname(pyx_path), f), os.path.join(work, f))
    cpp = os.path.join(work, 'out.cpp')
    r = subprocess.run(['/venv/bin/cython', '--cplus', '-3', os.path.basename(pyx_path), '-o', cpp], cwd=work,
                       stdout=subprocess.PIPE, stderr=subprocess.STDOUT, text=True, timeout=300)
    if r.returncode != 0 or not os.path.exists(cpp):
        shutil.rmtree(work, ignore_errors=True)
        raise core.ToolFailure('cython failed on %s: %s' % (pyx_path, r.stdout[-500:]))
    loops = []
    cur = None
    for ln in open(cpp, errors='replace'):
        t = ln.strip()
        if t.startswith('#pragma omp parallel'):
            cur = {'reductions': sorted('%s:%s' % (op, v) for op, v in re.findall(r'reduction\(([^:()]+):__pyx_v_(\w+)\)', t)),
                   'private': []}
        elif t.startswith('#pragma omp for') and cur is not None:
            cur['private'] = sorted(set(re.findall(r'(?:first|last)?private\(__pyx_v_(\w+)\)', t)))
            cur['reductions'] = sorted(set(cur['reductions']) | set('%s:%s' % (op, v) for op, v in re.findall(r'reduction\(([^:()]+):__pyx_v_(\w+)\)', t)))
            loops.append(cur)
            cur = None
    shutil.rmtree(work, ignore_errors=True)
    json.dump(loops, open(out, 'w'))
    # keep the cache small
    fs = sorted((os.path.join(d, f) for f in os.listdir(d) if f.endswith('.json')), key=os.path.getmtime)
    for f in fs[:-40]:
        os.remove(f)
    return loops


def cython_contract(ctx):
    """The descriptor says which scalars are private / reductions *because Cython makes them so*: check it on the C++
    that this Cython emits for the working tree's source."""
    by_file = {}
    for l in _GEN['loops']:
        by_file.setdefault(l['file'], []).append(l)
    report = {}
    for rel, ls in by_file.items():
        path = os.path.join(ctx.overlay_root, 'sknetwork', rel)
        emitted = cython_clauses(path, os.path.dirname(path))
        if len(emitted) != len(ls):
            ctx.broken('cython-contract:' + rel, {'loops_in_descriptor': len(ls), 'omp_for_in_cpp': len(emitted)},
                       {'obligation': 'cython-contract', 'file': rel})
            continue
        for l, em in zip(sorted(ls, key=lambda x: x['line']), emitted):
            want_priv = sorted({l['var']} | {a[1] for a in l['accs'] if a[0] == 'priv'})
            want_red = sorted('%s:%s' % (a[2], a[1]) for a in l['accs'] if a[0] == 'reduction')
            ok = want_priv == em['private'] and want_red == em['reductions']
            report[l['name']] = {'private': em['private'], 'reductions': em['reductions'], 'agrees': ok}
            ctx.count('cython-contract:' + ('agrees' if ok else 'differs'))
            if not ok:
                ctx.broken('cython-contract:' + l['name'], {'descriptor_private': want_priv, 'emitted_private': em['private'],
                                                          'descriptor_reductions': want_red, 'emitted_reductions': em['reductions']},
                           {'obligation': 'cython-contract', 'loop': l['name']})
    ctx.extra['cython_openmp_clauses'] = report


# ------------------------------------------------------------------------------------------------
# generated obligations
# ------------------------------------------------------------------------------------------------
def _loop_sig(name):
    return {'obligation': 'raceFree', 'loop': name}


def _est_sig(name, why):
    sig = {'obligation': 'historyOK', 'entry': name + '.fit'}
    if why.startswith('stale:'):
        sig['kind'] = 'stale'
        sig['attrs'] = _families(why[6:].split(','))
    elif why.startswith('rng:') or why.startswith('rng-of'):
        sig['kind'] = 'rng'
        sig['rng'] = why
    elif why.startswith('opaque:'):
        sig['kind'] = 'opaque'
    else:
        sig['kind'] = why.split(':')[0]
        sig['why'] = why
    return sig


def obligations(ctx):
    """Decide every generated obligation through the driver; kernel-check the verdicts."""
    loops = [l['name'] for l in _GEN['loops']]
    ests = sorted(_GEN['descs'])
    lines = ['c16.datahash', 'c16.loops', 'c16.ests', 'c16.omp', 'c16.crs_ok'] + ['c16.racefree ' + n for n in loops] + \
            ['c16.history ' + n for n in ests] + ['c16.pinned ' + n for n in loops]
    ans = ctx.lean(lines)
    if ans[0] != _GEN['hash']:
        raise core.ToolFailure('the driver answers from other generated data than this run wrote (hash %s, expected %s)'
                               % (ans[0], _GEN['hash']))
    ans = ans[1:]
    pinned = dict(zip(loops, ans[4 + len(loops) + len(ests):]))
    ans = ans[:4 + len(loops) + len(ests)]
    ctx.extra['prange_descriptor_vs_pinned'] = pinned
    got_loops = [] if ans[0] == '-' else ans[0].split(',')
    got_ests = [] if ans[1] == '-' else ans[1].split(',')
    if sorted(got_loops) != sorted(loops) or sorted(got_ests) != sorted(ests):
        raise core.ToolFailure('driver and translator disagree on the generated data (stale build?)')
    omp = ans[2]
    verdict_loops = dict(zip(loops, ans[4:4 + len(loops)]))
    verdict_ests = dict(zip(ests, ans[4 + len(loops):]))
    _GEN['verdict_ests'] = verdict_ests
    _GEN['verdict_loops'] = verdict_loops
    ctx.extra['prange_loops'] = verdict_loops
    ctx.extra['estimator_classes'] = verdict_ests
    ctx.extra['omp_flags_setup_py (reported only: the overlay always compiles with -fopenmp)'] = omp
    ctx.extra['set_params_on_derived'] = {n: derived_params(n) for n in ests if derived_params(n)}
    ctx.extra['parameter_objects_assumed_history_independent'] = {
        n: v.split('assumes=')[1] for n, v in verdict_ests.items() if 'assumes=' in v}
    findings = core.load_findings()
    known_negative = {}      # obligation name -> finding id: false *because of* a recorded known finding
    new_false = []           # false, and nothing recorded explains it
    if ans[3] != 'holds':
        new_false.append('crsOK')
        ctx.broken('crsOK', {'table': _GEN['crs']}, {'obligation': 'crsOK', 'entry': 'check_random_state'})
    for n, v in verdict_loops.items():
        ctx.count('prange:' + v.split(' ')[0])
        if v != 'racefree':
            sig = _loop_sig(n) if v.startswith('racy') else {'obligation': 'float-reduction', 'loop': n}
            f = core.match_finding(findings, ctx.prop, sig)
            if f is not None:
                known_negative[sig['obligation'] + ':' + n] = f['id']
            else:
                new_false.append(sig['obligation'] + ':' + n)
            ctx.broken(sig['obligation'] + ':' + n,
                       {'verdict': v, 'descriptor': next(l for l in _GEN['loops'] if l['name'] == n)['accs']}, sig)
    not_covered = []
    for n, v in verdict_ests.items():
        ctx.count('history:' + v.split(' ')[0])
        if v.startswith('ok'):
            continue
        why = v[4:]
        if why.startswith('opaque:') and n in OPAQUE_EXPECTED:
            ctx.count('history:opaque-expected')
            not_covered.append(n)
            continue
        sig = _est_sig(n, why)
        f = core.match_finding(findings, ctx.prop, sig)
        if f is not None:
            known_negative['historyOK:' + n] = f['id']
        else:
            new_false.append('historyOK:' + n)
        ctx.broken('historyOK:' + n, {'verdict': v, 'description': _GEN['descs'][n]}, sig)
    ctx.extra['known_negative_obligations'] = known_negative
    ctx.extra['classes_outside_the_description_language'] = not_covered
    # kernel check of the verdicts (always rewritten: the file on disk is the one of this run)
    mod = _GEN['module']
    gp, ge = mod + '.Prange', mod + '.EstimatorState'
    out = ['/- generated by tools/harness/c16.py: kernel check of the verdicts the driver gave on the generated data',
           '   VERIF_REPO=%s data=%s -/' % (os.path.abspath(core.REPO), _GEN['hash']),
           'import ' + mod, 'namespace %sOb' % mod, 'open SkNet.ParFor SkNet.Estimator', '']
    names = []
    for n in loops:
        t = 'prange_' + _GEN['loop_ident'][n]
        names.append(t)
        out.append('theorem %s : %s.%s.deterministic = %s := by decide' % (
            t, gp, _GEN['loop_ident'][n], 'true' if verdict_loops[n] == 'racefree' else 'false'))
    for n in ests:
        t = 'history_' + _GEN['est_ident'][n]
        names.append(t)
        out.append('theorem %s : Est.staticOK %s.estimators %d %s.%s = %s := by decide' % (
            t, ge, FUEL, ge, _GEN['est_ident'][n], 'true' if verdict_ests[n].startswith('ok') else 'false'))
    names.append('crs')
    out.append('theorem crs : crsOK %s.checkRandomState = %s := by decide' % (ge, 'true' if ans[3] == 'holds' else 'false'))
    out.append('end %sOb' % mod)
    # a per-run file outside the library (no other run can overwrite it), elaborated against the built data module;
    # `#print axioms` on every theorem proves that it exists in what was elaborated and shows its axioms
    import re
    obdir = os.path.join(core.CACHE, 'c16_ob')
    os.makedirs(obdir, exist_ok=True)
    path = os.path.join(obdir, 'Ob_%s_%d.lean' % (_tree_tag(), os.getpid()))
    with open(path, 'w') as fh:
        fh.write('\n'.join(out) + '\n' + ''.join('#print axioms %sOb.%s\n' % (mod, t) for t in names))
    try:
        rc, so, se = core.lean_file(path)
    finally:
        hits = core.scan_forbidden([path])
        try:
            os.remove(path)
        except OSError:
            pass
    log = so + se
    verified = set()
    for m in re.finditer(r"'([^']+)' depends on axioms: \[([^\]]*)\]", log):
        if all(a.strip() in core.ALLOWED_AXIOMS for a in m.group(2).replace('\n', ' ').split(',') if a.strip()):
            verified.add(m.group(1).split('.')[-1])
    for m in re.finditer(r"'([^']+)' does not depend on any axioms", log):
        verified.add(m.group(1).split('.')[-1])
    ok = rc == 0
    unverified = [t for t in names if t not in verified]
    failed = len(unverified)
    if not ok or hits or unverified:
        ctx.broken('kernel-check', {'log': log[-1500:], 'forbidden': hits, 'unverified': unverified}, {'obligation': 'kernel-check'})
    # obligations = what is required to hold on this tree: the true verdicts (kernel-checked) and every false one that
    # no recorded known finding explains; a known-negative descriptor is covered by its kernel-checked negation
    # (`= false := by decide` in the same file) and by the witness theorems of Properties/C16.lean, and is listed
    # under `known_negative_obligations`; classes outside the description language are not obligations at all.
    true_ones = sum(1 for v in verdict_loops.values() if v == 'racefree') + \
        sum(1 for v in verdict_ests.values() if v.startswith('ok')) + (1 if ans[3] == 'holds' else 0)
    # theorems of Properties/C16.lean that speak about a pinned descriptor count only while the generated descriptor
    # still coincides with it
    stale_instances = [n for n, v in pinned.items() if v == 'changed' and n in PINNED_INSTANCE_THEOREMS]
    for n in stale_instances:
        ctx.note('descriptor of %s differs from the pinned one: %s speak about the pinned loop and are not counted as '
                 'discharged' % (n, ', '.join(PINNED_INSTANCE_THEOREMS[n])))
    n_stale = sum(len(PINNED_INSTANCE_THEOREMS[n]) for n in stale_instances)
    ctx.extra['generated_obligations'] = true_ones + len(new_false)
    # (the hand-written theorems stay in the audit's count of obligations: they are taken out of `discharged` here)
    ctx.extra['generated_discharged'] = max(0, true_ones - failed) - n_stale
    ctx.extra['generated_kernel_checked'] = len(verified)
    ctx.extra['generated_new_false'] = new_false
    return verdict_loops, verdict_ests


# ------------------------------------------------------------------------------------------------
# run
# ------------------------------------------------------------------------------------------------
def _class_lists(ctx):
    dyn = W.estimator_classes()
    static = set(_GEN['descs'])
    missing = sorted(n for n in dyn if n not in static and n not in COMPILED_CLASSES and n not in SKIP_CLASSES)
    unknown = sorted(n for n in dyn if n not in SPEC and n not in SKIP_CLASSES)
    ctx.extra['classes_without_static_description'] = sorted(n for n in dyn if n not in static and n not in SKIP_CLASSES)
    if missing:
        # the translator cannot describe a class of the package: the tool is incomplete, not the property violated
        raise core.ToolFailure('estimator classes without static description: %s' % ', '.join(missing))
    for n in unknown:
        # a class the harness has no parameter table for (a harmless addition to the library): default parameters
        SPEC[n] = dict(params=lambda r: {}, sets={}, targets=['und', 'blocks', 'bip'])
        ctx.note('estimator class %s has no parameter table in tools/harness/c16.py: driven with default parameters' % n)
    return [n for n in sorted(dyn) if n in SPEC], static


def _corpus(ctx):
    p = os.path.join(core.VERIF, 'corpus', 'C16.jsonl')
    out = []
    if os.path.exists(p):
        for ln in open(p):
            ln = ln.strip()
            if ln and not ln.startswith('#'):
                out.append(json.loads(ln))
    return out


def run(ctx):
    import warnings
    warnings.simplefilter('ignore')
    import time
    rng = ctx.rng
    quick = ctx.quick
    t0 = time.time()
    phases = {}
    ctx.extra['phase_s'] = phases
    obligations(ctx)
    cython_contract(ctx)
    phases['obligations'] = round(time.time() - t0, 1)
    names, static = _class_lists(ctx)
    cases = crs_cases(ctx) + setparam_cases(ctx, names, static) + interleave_cases(ctx)
    # corpus first
    for item in _corpus(ctx):
        job = item['job']
        if job['cls'] in W.estimator_classes():
            cs, _, _ = est_cases(ctx, job, static)
            cases += cs
            ctx.count('corpus')
    # generated histories
    per_class = 12 if quick else 300
    sweep_jobs, sweep_inproc = [], {}
    hist_in_sweep = set()
    for name in names:
        k = per_class if name not in SLOW_CLASSES else max(4, per_class // SLOW_CLASSES[name])
        for i in range(k):
            job = make_job(rng, name, n_hist=(0 if i == 0 else None))
            cs, fresh, fj = est_cases(ctx, job, static)
            cases += cs
            ctx.count('class:' + name)
            ctx.count('history_len:%d' % len(job['history']))
            ctx.count('target:' + job['target']['kind'])
            if i == 0:
                sweep_inproc[len(sweep_jobs)] = fresh
                sweep_jobs.append(fj)
            elif job['history'] and name not in hist_in_sweep and not _unsafe(job):
                # one job *with* a history per class also runs in the fresh interpreters / other thread counts
                hist_in_sweep.add(name)
                sweep_inproc[len(sweep_jobs)] = W.run_history(job)[0]
                sweep_jobs.append(job)
    # seeded graph models and deterministic public functions: twice in process
    mj = model_jobs(rng) + function_jobs(rng)
    for j in mj:
        before = np.random.get_state()[1].copy()
        a, b = W.run_job(j), W.run_job(j)
        d = diff_states(a, b)
        untouched = (np.random.get_state()[1] == before).all()
        obs = 'equal' if not d and untouched else ('differs' if d else 'global-generator-consumed')
        sig = {'entry': j['fn'], 'kind': 'rerun'}
        ctx.case(('model', json.dumps(j, sort_keys=True)), True, {'request': j['fn'], 'impl': obs})
        ctx.count('entry:' + j['fn'])
        if obs != 'equal':
            ctx.spec_fail(dict(sig, kind='rerun-differs'), {'job': j, 'check': 'fresh-vs-fresh'}, {'observed': obs})
    phases['histories'] = round(time.time() - t0, 1)
    evaluate(ctx, cases)
    phases['lean_lines'] = round(time.time() - t0, 1)
    # fresh interpreters, thread counts
    tc = THREADS_QUICK if quick else THREADS_THOROUGH
    kj = kernel_jobs(rng, big=not quick)
    fn_inproc = {}
    for i, j in enumerate(mj):
        fn_inproc[len(sweep_jobs) + i] = W.run_job(j)
    bad, res = sweep(ctx, sweep_jobs, mj + kj, tc, 1 if quick else 3, {**sweep_inproc, **fn_inproc})
    ctx.extra['thread_counts'] = tc
    ctx.extra['sweep_jobs'] = len(sweep_jobs) + len(mj) + len(kj)
    ctx.impl_traces = ctx.evaluations + (len(sweep_jobs) + len(mj) + len(kj)) * len(tc) * (1 if quick else 3)
    report_sweep(ctx, bad)
    phases['sweep'] = round(time.time() - t0, 1)
    ctx.exhaustive = False


def report_sweep(ctx, bad):
    for job, kind, detail in bad:
        if job is None:
            ctx.note('worker crashed: %s' % json.dumps(detail)[:300])
            ctx.spec_fail({'entry': 'worker', 'kind': 'worker-crash'}, {'detail': detail}, detail)
            continue
        if kind == 'worker-exception':
            raise core.ToolFailure('worker exception: %s' % json.dumps(detail)[:500])
        entry = (job['cls'] + '.fit') if job['kind'] == 'est' else job['fn']
        sig = {'entry': entry, 'kind': kind}
        if job.get('loop'):
            sig['loop_file'] = job['loop']
        if job['kind'] == 'fn' and 'solver' in job.get('kw', {}):
            sig['solver'] = job['kw']['solver']
        if job['kind'] == 'est' and 'solver' in (job.get('params') or {}) and isinstance(job['params']['solver'], str):
            sig['solver'] = job['params']['solver']
        ctx.spec_fail(sig, {'job': job, 'check': kind}, detail)


# ------------------------------------------------------------------------------------------------
# failing-input search
# ------------------------------------------------------------------------------------------------
def search(ctx, pending):
    """For every obligation that no longer checks, hunt for a concrete history / thread count on which the
    implementation's outputs differ."""
    import warnings
    warnings.simplefilter('ignore')
    rng = ctx.rng
    import time
    found = []
    static = set(_GEN.get('descs', {}))
    t_end = time.time() + SEARCH_BUDGET_S
    for kind, sig, obj in pending:
        if sig.get('obligation') == 'historyOK' or (kind == 'correspondence' and str(sig.get('entry', '')).endswith('.fit')):
            name = sig['entry'][:-4]
            if name not in SPEC or name not in W.estimator_classes():
                continue
            hit = None
            for i in range(SEARCH_HISTORIES):
                if time.time() > t_end:
                    break
                # bipartite-then-square histories first (stale attributes), then random ones
                job = make_job(rng, name, n_hist=rng.choice([1, 2]))
                if i % 2 == 0:
                    inp = make_input(rng, 'bip')
                    inp['kw'] = _fit_kw(name, rng)
                    job['history'] = [{'op': 'fit', 'input': inp, 'np_seed': 1}] + job['history'][:1]
                    if job['target']['kind'] == 'bip':
                        job['target'] = make_input(rng, rng.choice([k for k in SPEC[name]['targets'] if k != 'bip'] or ['und']))
                        job['target']['kw'] = _fit_kw(name, rng)
                sub = Sub(ctx)
                cs, _, _ = est_cases(sub, job, static)
                evaluate(sub, [c for c in cs if c.sig.get('kind') != 'trace'])
                if sub.spec_failures:
                    f = sub.spec_failures[0]
                    s2 = dict(f['sig'])
                    if sig.get('obligation'):
                        s2['obligation'] = sig['obligation']
                    hit = {'sig': s2, 'case': f['case'], 'detail': f['detail']}
                    break
            if hit:
                found.append(hit)
            else:
                found.append({'sig': sig, 'case': {'obligation': obj.get('name'), 'what_no_longer_checks': obj},
                              'detail': 'no-failing-input-found after %d generated histories' % SEARCH_HISTORIES})
        elif sig.get('obligation') in ('raceFree', 'float-reduction'):
            loop = sig['loop']
            fname = loop.split(':')[0]
            jobs = [j for j in kernel_jobs(rng, big=True) if j.get('loop') == fname]
            hit = None
            if jobs:
                bad, res = sweep(ctx, [], jobs, [1, 4, 16] if ctx.quick else [1, 2, 4, 8, 16], 2, {})
                for job, k2, detail in bad:
                    s2 = dict(sig, kind=k2)
                    if job is not None:
                        s2['entry'] = job['fn']
                    hit = {'sig': s2, 'case': {'job': job, 'check': k2}, 'detail': detail}
                    break
            found.append(hit or {'sig': sig, 'case': {'obligation': obj.get('name'), 'what_no_longer_checks': obj},
                                 'detail': 'no-failing-input-found: the thread sweep (2 runs per thread count) gave identical results'})
        else:
            found.append({'sig': sig, 'case': {'what_no_longer_checks': obj}, 'detail': 'no-failing-input-found'})
    return found


# ------------------------------------------------------------------------------------------------
# replay
# ------------------------------------------------------------------------------------------------
def replay(ctx, payload):
    import warnings
    warnings.simplefilter('ignore')
    case = payload.get('case') or {}
    job = case.get('job')
    static = set(_GEN.get('descs', {}))
    if not job:
        # an obligation (or a crash of a worker) without a failing input: re-decide the obligations and repeat the
        # fresh-interpreter sweep of the kernels and functions
        obligations(ctx)
        bad, _ = sweep(ctx, [], model_jobs(ctx.rng) + function_jobs(ctx.rng) + kernel_jobs(ctx.rng), THREADS_QUICK, 1, {})
        report_sweep(ctx, bad)
        return
    if job['kind'] == 'est':
        cs, _, fj = est_cases(ctx, job, static)
        evaluate(ctx, cs)
        if case.get('check') in ('threads-differs', 'process-differs'):
            bad, _ = sweep(ctx, [fj], [], THREADS_THOROUGH, 2, {0: W.run_history(fj)[0]})
            report_sweep(ctx, bad)
    else:
        if case.get('check') in ('threads-differs', 'process-differs', 'worker-crash'):
            bad, _ = sweep(ctx, [], [job], THREADS_THOROUGH, 2, {})
            report_sweep(ctx, bad)
        else:
            a, b = W.run_job(job), W.run_job(job)
            if diff_states(a, b):
                ctx.spec_fail({'entry': job['fn'], 'kind': 'rerun-differs'}, case, {'observed': 'differs'})
