"""C12 — connectivity, bipartiteness and cycle functions describe the graph truthfully.

Correspondence (every case calls the real function from the overlay build of /repo's working tree):
  run      line -> the Lean model (SkNet/Model/Connectivity.lean, Cycles.lean) computes the answer from the
                   same matrix (and from what scipy's connected_components returned, which is a parameter of
                   the model); compared exactly
  spec     line -> the Lean specification (SkNet/Spec/Connectivity.lean: reachability closure, brute-force
                   2-colouring, brute-force cycle enumeration) evaluated on the implementation's own output
  contract line -> scipy's labels / component count are the weak / strong components of the matrix handed over
Theorems: SkNet/Properties/C12.lean.
"""
import itertools
import json
import os

import numpy as np
from scipy import sparse

from vlib import graphs
from vlib.cases import Case, Sub, evaluate as _evaluate
from vlib.core import enc_csr, enc_list, enc_listlist, enc_bool, enc_ratlist, _exact, VERIF

RULE = ('corpus first. Quick tier: all digraphs with self-loops n<=3 (every single root on half of the n=3 ones, 2 sampled '
        'roots on the other half), samples of n=4 digraphs (90 loop-free, 70 with self-loops), all undirected graphs '
        'with self-loops n<=3 and a sample of 180/1024 of n=4, samples of undirected n=5 (with and without self-loops), '
        '2 sampled single roots (int or numpy integer) from n=4 on, plus root lists (list / ndarray; sorted, unsorted '
        'with repetition, out of range) and root=None; thorough: all loop-free n=4 digraphs and all undirected n<=5, '
        'larger samples, n=5/6. A third of these graphs with unsorted CSR rows. Biadjacency matrices up to 3x3, '
        'structured random graphs n<=12 (several components, isolated nodes, self-loops, weights in {bool, 1, small '
        'integers, dyadic fractions}), random 2-colourable graphs n<=12 (a fifth spoiled), unions of cyclic pieces, '
        'degenerate stream (empty, 1x1, asymmetric weights on a symmetric pattern, rectangular matrices handed to '
        'cycles.py) and a pinned out-of-domain stream (negative weights, explicit zeros: run lines only); container '
        'formats csr / csc / coo / lil / dense ndarray; both connection modes, force_bipartite, directed in '
        '{None, True, False}. Graphs whose simple paths exceed 4000 keep only is_bipartite / is_acyclic. '
        'A case is non-trivial when the matrix has an edge and the answer is not an error; for break_cycles when '
        'the input has a cycle; distinct = distinct (function, matrix, format, arguments)')
ASSUMPTIONS = [
    'scipy.sparse.csgraph.connected_components returns the weak/strong components (a contract line for every label '
    'vector / count handed to a model: each description emits the contract lines of the scipy answers it consumes)',
    'input domain of the spec lines: matrices without duplicate entries, stored values > 0 (explicit zeros and negative '
    'weights only in the pinned stream, judged by run lines); any of csr_matrix, csc_matrix, coo_matrix, lil_matrix, ndarray',
    'roots: int, numpy integer, list or ndarray of node numbers (a tuple and a negative number are outside)',
    'containers: the five types check_format lists (csr_matrix, csc_matrix, coo_matrix, lil_matrix, ndarray); others '
    '(csr_array, dia, bsr, dok) are outside: structure.py refuses them, cycles.py converts them',
    'a matrix without any stored entry is refused by get_connected_components / is_connected / '
    'get_largest_connected_component (ValueError, compared on both sides): connectivity of edgeless graphs is outside',
    'break_cycles: the weights of the kept entries are checked on every run (values in the run line, subgraph conjunct '
    'of the spec line), not proved: the traversal of the model works on the stored pattern',
    'directed break_cycles with n > 8: no run line (CPython set order), counted as break_cycles:no-run-line in the evidence',
    'CPython enumerates a set of node numbers < 8 in increasing order (run lines of break_cycles on digraphs are '
    'restricted to n <= 8; larger inputs are judged by the spec line alone)',
    'scipy fancy indexing / tocsc / tocsr / diagonal / eliminate_zeros are the substrate (monitored through the outputs)',
]

SET_ORDER_MAX_N = 8


# ------------------------------------------------------------------------------------------------
# matrices
# ------------------------------------------------------------------------------------------------
def mat_desc(a):
    a = sparse.csr_matrix(a)
    return {'shape': [int(a.shape[0]), int(a.shape[1])], 'indptr': [int(x) for x in a.indptr],
            'indices': [int(x) for x in a.indices], 'data': [float(x) for x in a.data], 'dtype': str(a.dtype)}


def mat_of(d):
    dt = np.dtype(d.get('dtype', 'float64'))
    a = sparse.csr_matrix((np.asarray(d['data'], dtype=float).astype(dt), np.asarray(d['indices'], dtype=np.int32),
                           np.asarray(d['indptr'], dtype=np.int32)), shape=tuple(d['shape']))
    return a


def mk(n, es, w=None, m=None, dtype=float):
    m = n if m is None else m
    if not es:
        return sparse.csr_matrix((n, m), dtype=dtype)
    w = [1] * len(es) if w is None else w
    a = sparse.csr_matrix((np.asarray(w, dtype=float), ([e[0] for e in es], [e[1] for e in es])), shape=(n, m))
    return a.astype(dtype)


def enc_dense(rows):
    rows = [list(r) for r in rows]
    if not rows:
        return '-'
    return ';'.join(enc_ratlist(_exact(v) for v in r) for r in rows)


def enc_matrix_dense(m):
    m = sparse.csr_matrix(m)
    return enc_dense(m.toarray().tolist())


def ext_cc(a, directed=True, connection='weak'):
    """What scipy answers (the external parameter of the models)."""
    ncc, labels = sparse.csgraph.connected_components(a, directed=directed, connection=connection, return_labels=True)
    return int(ncc), [int(x) for x in labels]


def block_of(b):
    return sparse.bmat([[None, b], [b.T, None]], format='csr')


def without_diagonal(a):
    a = sparse.csr_matrix(a).astype(float)
    out = sparse.lil_matrix(a)
    out.setdiag(0)
    out = out.tocsr()
    out.eliminate_zeros()
    return out


def call(f):
    try:
        return f()
    except (ValueError, IndexError, TypeError, KeyError, AttributeError) as e:
        return 'err ' + type(e).__name__


FORMATS = ['csr', 'csc', 'coo', 'lil', 'dense']


def to_format(a, fmt):
    """The container handed to the function; the models see `csr_matrix(container)` (what check_format makes)."""
    if fmt == 'csr':
        return a
    if fmt == 'csc':
        return sparse.csc_matrix(a)
    if fmt == 'coo':
        return sparse.coo_matrix(a)
    if fmt == 'lil':
        return sparse.lil_matrix(a)
    if fmt == 'dense':
        return a.toarray()
    raise ValueError(fmt)


def copy_container(x):
    return x.copy()


def root_arg(root, kind):
    if root is None:
        return None
    if kind == 'np.int64':
        return np.int64(root)
    if kind == 'ndarray':
        return np.array(root, dtype=np.int64)
    return root


def enc_rows_valued(res):
    res = sparse.csr_matrix(res)
    rows = []
    for i in range(res.shape[0]):
        ent = sorted((int(j), _exact(v)) for j, v in zip(res.indices[res.indptr[i]:res.indptr[i + 1]],
                                                          res.data[res.indptr[i]:res.indptr[i + 1]]))
        rows.append(','.join('%d:%s' % (j, enc_ratlist([v])) for j, v in ent) if ent else '-')
    return ';'.join(rows) if rows else '-'


def same_matrix(x, y):
    x, y = sparse.csr_matrix(x), sparse.csr_matrix(y)
    if x.shape != y.shape or x.nnz != y.nnz:
        return False
    return (x != y).nnz == 0 and enc_rows_valued(x) == enc_rows_valued(y)


def contract_cases(key, adj, pairs, desc):
    """One contract line per (directed flag, connection) pair for the square matrix `adj` handed to scipy."""
    out = []
    for directed, conn in pairs:
        ncc, labels = ext_cc(adj, directed, conn)
        strong = bool(directed) and conn == 'strong'
        out.append(Case(('contract', key, directed, conn),
                        {'entry': 'scipy.connected_components', 'directed': directed, 'connection': conn}, None, 'ok',
                        'c12.contract_cc %s %s %s %d' % (enc_csr(adj), enc_bool(strong), enc_list(labels), ncc),
                        False, desc))
    return out


# ------------------------------------------------------------------------------------------------
# one case = one description (JSON-able, written into replays / corpus) -> request lines
# ------------------------------------------------------------------------------------------------
def build(desc):
    """Cases for one description {'f': function, 'matrix': …, 'format': container, arguments…}."""
    from sknetwork.topology import (get_connected_components, is_connected, get_largest_connected_component,
                                    is_bipartite, is_acyclic, get_cycles, break_cycles)
    f = desc['f']
    fmt = desc.get('format', 'csr')
    a_csr = mat_of(desc['matrix'])
    x = to_format(a_csr, fmt)                      # what the caller hands over
    a = a_csr if fmt == 'csr' else sparse.csr_matrix(x)   # what check_format makes of it: the input of the models
    g = enc_csr(a)
    n, m = a.shape
    has_edge = a.nnz > 0
    with_spec = desc.get('spec', True)             # False: outside the domain of the specification (pinned stream)
    pinned = desc.get('pinned')                    # expected literal answer of a pinned convention
    out = []

    def finish(key, sig, run, impl, spec, nontriv):
        if pinned is not None:
            run = 'c12.pinned ' + pinned
        if not with_spec:
            spec = None
        sig = dict(sig, format=fmt)
        out.append(Case(key + (fmt,), sig, run, impl, spec, nontriv and with_spec, desc))

    if f in ('get_connected_components', 'is_connected', 'get_largest_connected_component'):
        conn = desc['connection']
        fb = bool(desc['force_bipartite'])
        strong = conn == 'strong'
        bip = fb or n != m
        adj = block_of(a) if bip else a
        ncc, labels = ext_cc(adj, True, conn)
        sig = {'entry': f, 'connection': conn, 'bipartite': bip}
        key = (f, g, conn, fb)
        out.extend(contract_cases(('cc', enc_csr(adj)), adj, [(True, conn)], desc))
        if f == 'get_connected_components':
            impl = call(lambda: 'ok ' + enc_list(get_connected_components(copy_container(x), conn, fb)))
            run = 'c12.cc %s %s %s %s' % (g, enc_bool(strong), enc_bool(fb), enc_list(labels))
            spec = 'c12.spec_cc %s %s %s %s' % (g, enc_bool(strong), enc_bool(fb), impl[3:]) if impl.startswith('ok ') else None
            finish(key, sig, run, impl, spec, has_edge and impl.startswith('ok'))
        elif f == 'is_connected':
            impl = call(lambda: 'ok ' + enc_bool(is_connected(copy_container(x), conn, fb)))
            run = 'c12.connected %s %s %s %s' % (g, enc_bool(strong), enc_bool(fb), enc_list(labels))
            spec = 'c12.spec_connected %s %s %s %s' % (g, enc_bool(strong), enc_bool(fb), impl[3:]) if impl.startswith('ok ') else None
            finish(key, sig, run, impl, spec, has_edge and impl.startswith('ok'))
        else:
            def fl():
                mat, index = get_largest_connected_component(copy_container(x), conn, fb, return_index=True)
                mat2 = get_largest_connected_component(copy_container(x), conn, fb)
                if mat.shape != mat2.shape or (mat != mat2).nnz:
                    return 'ok %s %s return_index-changes-the-matrix' % (enc_list(index), enc_matrix_dense(mat))
                if bip:
                    if mat.shape[0] + mat.shape[1] != len(index):
                        return 'ok %s %s shape=%s' % (enc_list(index), enc_matrix_dense(mat), mat.shape)
                elif mat.shape != (len(index), len(index)):
                    return 'ok %s %s shape=%s' % (enc_list(index), enc_matrix_dense(mat), mat.shape)
                return 'ok %s %s' % (enc_list(index), enc_matrix_dense(mat))
            impl = call(fl)
            run = 'c12.largest %s %s %s %s' % (g, enc_bool(strong), enc_bool(fb), enc_list(labels))
            spec = None
            if impl.startswith('ok '):
                tk = impl.split(' ')
                spec = 'c12.spec_largest %s %s %s %s %s' % (g, enc_bool(strong), enc_bool(fb), tk[1], tk[2])
                if len(tk) > 3:
                    spec = 'c12.spec_largest %s %s %s %s %s' % (g, enc_bool(strong), enc_bool(fb), tk[1], 'bad-shape')
            finish(key, sig, run, impl, spec, has_edge and impl.startswith('ok'))
    elif f == 'is_bipartite':
        def fb_():
            r = is_bipartite(copy_container(x), return_biadjacency=True)
            r2 = is_bipartite(copy_container(x))
            if bool(r[0]) != bool(r2):
                return 'ok %s return_biadjacency-changes-the-answer' % enc_bool(r2)
            if not r[0]:
                return 'ok 0' if all(y is None for y in r[1:]) else 'ok 0 not-None'
            return 'ok 1 %s %s %s' % (enc_list(r[2]), enc_list(r[3]), enc_matrix_dense(r[1]))
        impl = call(fb_)
        run = 'c12.bip %s' % g
        spec = None
        if impl.startswith('ok '):
            tk = impl.split(' ')
            spec = 'c12.spec_bip %s %s %s' % (g, tk[1], ' '.join(tk[2:5]) if len(tk) == 5 else '_ _ _')
        finish(('bip', g), {'entry': 'is_bipartite'}, run, impl, spec, has_edge and impl.startswith('ok'))
    elif f in ('is_acyclic', 'get_cycles'):
        directed = desc['directed']
        dtok = '_' if directed is None else enc_bool(directed)
        if n == m:
            ncc_d, lab_d = ext_cc(a, True, 'strong')
            ncc_u, lab_u = ext_cc(a, False, 'strong')
        else:                                    # scipy refuses a matrix that is not square: nothing to hand over
            ncc_d, lab_d, ncc_u, lab_u = 0, [], 0, []
        sig = {'entry': f, 'directed': directed}
        if n == m:
            out.extend(contract_cases(('cyc', g), a, [(True, 'strong'), (False, 'strong')], desc))
        if f == 'is_acyclic':
            impl = call(lambda: 'ok ' + enc_bool(is_acyclic(copy_container(x), directed)))
            run = 'c12.acyclic %s %s %d %d' % (g, dtok, ncc_d, ncc_u)
            spec = 'c12.spec_acyclic %s %s %s' % (g, dtok, impl[3:]) if impl.startswith('ok ') else None
            finish((f, g, directed), sig, run, impl, spec, has_edge and impl.startswith('ok'))
        else:
            impl = call(lambda: 'ok ' + enc_listlist([[int(y) for y in c] for c in get_cycles(copy_container(x), directed)]))
            run = 'c12.cycles %s %s %d %d %s %s' % (g, dtok, ncc_d, ncc_u, enc_list(lab_d), enc_list(lab_u))
            spec = 'c12.spec_cycles %s %s %s' % (g, dtok, impl[3:]) if impl.startswith('ok ') else None
            finish((f, g, directed), sig, run, impl, spec, has_edge and impl.startswith('ok') and impl != 'ok -')
    elif f == 'break_cycles':
        directed = desc['directed']
        root = desc['root']                      # None, int or list of ints
        kind = desc.get('root_kind') or ('none' if root is None else ('int' if isinstance(root, int) else 'list'))
        dtok = '_' if directed is None else enc_bool(directed)
        rlist = None if root is None else ([root] if isinstance(root, int) else list(root))
        rtok = '_' if rlist is None else enc_list(rlist)
        if n == m:
            ncc_d, _ = ext_cc(a, True, 'strong')
            ncc_u, _ = ext_cc(a, False, 'strong')
            a0 = without_diagonal(a)
            _, lab_d = ext_cc(a0, True, 'strong')
            _, lab_u = ext_cc(a0, False, 'strong')
        else:
            ncc_d, ncc_u, lab_d, lab_u = 0, 0, [], []
        if n == m:
            out.extend(contract_cases(('cyc', g), a, [(True, 'strong'), (False, 'strong')], desc))
            out.extend(contract_cases(('cyc', enc_csr(a0)), a0, [(True, 'strong'), (False, 'strong')], desc))

        def fbr():
            arg = copy_container(x)
            res = break_cycles(arg, root_arg(root, kind), directed)
            if res is arg or same_matrix(res, a):
                return 'ok same', a
            return 'ok rows ' + enc_rows_valued(res), res
        r = call(fbr)
        impl, res = (r, None) if isinstance(r, str) else r
        symmetric = (a.shape[0] == a.shape[1]) and (a - a.T).nnz == 0
        eff_directed = (not symmetric) if directed is None else directed
        run = 'c12.break %s %s %s %d %d %s %s' % (g, rtok, dtok, ncc_d, ncc_u, enc_list(lab_d), enc_list(lab_u))
        if eff_directed and n > SET_ORDER_MAX_N:
            run = None
        if res is not None:
            spec = 'c12.spec_break %s %s %s %s' % (g, rtok if rtok != '_' else '-', dtok, enc_csr(sparse.csr_matrix(res)))
        else:
            # it raised: allowed only for a call that is not admissible
            spec = 'c12.spec_break_error %s %s %s' % (g, rtok, dtok)
        sig = {'entry': f, 'directed': eff_directed, 'root_kind': kind}
        finish((f, g, rtok, kind, directed), sig, run, impl, spec, impl.startswith('ok rows'))
    else:
        raise ValueError('unknown function %r' % f)
    return out


def _same(c, model, impl, spec_ok):
    return False


def evaluate(ctx, cases):
    _evaluate(ctx, cases, same=_same)


# ------------------------------------------------------------------------------------------------
# generators
# ------------------------------------------------------------------------------------------------
def descs_connectivity(a, fbs=(False,), conns=('weak', 'strong'), fmt='csr'):
    md = mat_desc(a)
    for conn in conns:
        for fb in fbs:
            for f in ('get_connected_components', 'is_connected', 'get_largest_connected_component'):
                yield {'f': f, 'matrix': md, 'format': fmt, 'connection': conn, 'force_bipartite': fb}


def descs_cycles(a, rng, roots='all', directeds=None, with_break=True, fmt='csr', extra_roots=False):
    md = mat_desc(a)
    n = a.shape[0]
    if directeds is None:
        # the flag that contradicts the matrix is an error (asymmetric, False) or a reinterpretation
        # (symmetric, True: every edge is a 2-cycle): sampled
        symmetric = a.shape[0] == a.shape[1] and (a - a.T).nnz == 0
        if a.shape[0] != a.shape[1]:
            directeds = (None, True)
        elif symmetric:
            directeds = (None, False, True) if rng.random() < 0.3 else (None, False)
        else:
            directeds = (None, True, False) if rng.random() < 0.15 else (None, True)
    yield {'f': 'is_bipartite', 'matrix': md, 'format': fmt}
    for d in directeds:
        yield {'f': 'is_acyclic', 'matrix': md, 'format': fmt, 'directed': d}
        yield {'f': 'get_cycles', 'matrix': md, 'format': fmt, 'directed': d}
    if not with_break:
        return

    def brk(root, d, kind=None):
        desc = {'f': 'break_cycles', 'matrix': md, 'format': fmt, 'root': root, 'directed': d}
        if kind:
            desc['root_kind'] = kind
        return desc
    singles = list(range(n)) if roots == 'all' else rng.sample(range(n), min(n, roots))
    for d in directeds:
        for r in singles:
            # a node number obtained from numpy is a numpy integer
            yield brk(r, d, 'np.int64' if rng.random() < 0.3 else None)
        if n >= 2:
            k = rng.randint(2, min(n, 3))
            yield brk(sorted(rng.sample(range(n), k)), d, 'ndarray' if rng.random() < 0.3 else None)
            yield brk([rng.randrange(n)], d)
    yield brk(None, None)
    if extra_roots and n >= 2:
        d = rng.choice(list(directeds))
        # unsorted, with a repetition
        rs = [rng.randrange(n) for _ in range(3)]
        yield brk(rs + [rs[0]], d, rng.choice([None, 'ndarray']))
        # outside the matrix
        yield brk(n + rng.randrange(2), d, rng.choice([None, 'np.int64']))
        yield brk([rng.randrange(n), n], d)


WEIGHT_MODES = ['ones', 'bool', 'int', 'frac']


def weights_for(rng, es, mode, symmetric):
    if mode in ('ones', 'bool'):
        return [1] * len(es)
    choices = [1, 2, 3] if mode == 'int' else [0.5, 1, 1.5, 0.25, 2]
    if symmetric:
        return graphs.sym_weights(rng, es, choices)
    return [rng.choice(choices) for _ in es]


def weighted(rng, n, es, symmetric, m=None, mode=None):
    mode = mode or rng.choice(WEIGHT_MODES)
    a = mk(n, es, weights_for(rng, es, mode, symmetric), m=m)
    if mode == 'bool':
        a = a.astype(bool)
    elif mode == 'int':
        a = a.astype(int)
    return a


def too_many_paths(a, limit=4000):
    """Do the traversals of cycles.py (which enumerate simple paths) stay small on this graph?  A cheap bound by the
    largest degree first; when it says no (a star, a hub), the simple paths are counted, with a cap."""
    n = a.shape[0]
    deg = max([1] + [int(a.indptr[i + 1] - a.indptr[i]) for i in range(n)])
    total, cur = 0, 1
    for k in range(n):
        cur *= max(1, min(deg, n - k))
        total += cur
        if total > limit:
            break
    else:
        return False
    rows = [[int(j) for j in a.indices[a.indptr[i]:a.indptr[i + 1]]] for i in range(n)]
    count = 0
    for s0 in range(n):
        stack = [(s0, (s0,))]
        while stack:
            u, path = stack.pop()
            count += 1
            if count > limit:
                return True
            for v in rows[u]:
                if v not in path:
                    stack.append((v, path + (v,)))
    return False


def build_descs(ctx):
    rng = ctx.rng
    quick = ctx.quick
    out = []

    def pick_format(p):
        return rng.choice(FORMATS[1:]) if rng.random() < p else 'csr'

    def add_square(a, roots='all', kind='', with_break=True, conn=True, unsort=0.0):
        if unsort and rng.random() < unsort:
            a = graphs.unsorted_copy(a, rng)
            ctx.count('unsorted-rows')
        fmt_s = pick_format(0.35)                 # structure.py converts with check_format
        fmt_c = pick_format(0.2)                  # cycles.py / is_bipartite
        for fm in (fmt_s, fmt_c):
            ctx.count('format:' + fm)
        if conn:
            out.extend(descs_connectivity(a, fbs=(False, True) if rng.random() < 0.25 else (False,), fmt=fmt_s))
        if too_many_paths(a):
            ctx.count('skipped-cycles:too-many-paths')
            out.append({'f': 'is_bipartite', 'matrix': mat_desc(a), 'format': fmt_c})
            for d in (None, True, False):
                out.append({'f': 'is_acyclic', 'matrix': mat_desc(a), 'format': fmt_c, 'directed': d})
        else:
            out.extend(descs_cycles(a, rng, roots=roots, with_break=with_break, fmt=fmt_c,
                                    extra_roots=rng.random() < 0.3))
        ctx.count('graph:' + kind)

    # exhaustive digraphs with self-loops
    for n in (1, 2, 3):
        for es in graphs.all_digraphs(n, loops=True):
            add_square(weighted(rng, n, es, False, mode=rng.choice(['ones', 'ones', 'frac', 'int', 'bool'])),
                       roots=2 if (quick and n == 3 and rng.random() < 0.5) else 'all',
                       kind='digraph%d' % n, unsort=0.33 if n == 3 else 0.0)
    g4 = list(graphs.all_digraphs(4))
    if quick:
        g4 = rng.sample(g4, 90)
    for es in g4:
        add_square(weighted(rng, 4, es, False), roots=2 if quick else 'all', kind='digraph4', unsort=0.33)
    # n = 4 with self-loops: 2^16 digraphs, sampled by edge bits
    slots4 = [(i, j) for i in range(4) for j in range(4)]
    for _ in range(70 if quick else 1500):
        bits = rng.getrandbits(16) & rng.getrandbits(16) | (1 << (5 * rng.randrange(4)))   # sparse, at least one loop
        es = [slots4[k] for k in range(16) if bits >> k & 1]
        add_square(weighted(rng, 4, es, False), roots=2, kind='digraph4-loops', unsort=0.33)
    # exhaustive undirected graphs with self-loops
    for n in (2, 3, 4):
        gs = list(graphs.all_undirected(n, loops=True))
        if quick and n == 4:
            gs = rng.sample(gs, 180)
        for es in gs:
            add_square(weighted(rng, n, es, True), roots=2 if (quick and n == 4) else 'all', kind='undirected%d' % n,
                       unsort=0.33 if n >= 3 else 0.0)
    g5 = list(graphs.all_undirected(5))
    for es in (rng.sample(g5, 90) if quick else g5):
        add_square(weighted(rng, 5, es, True), roots=2, kind='undirected5', unsort=0.33)
    pairs5 = [(i, j) for i in range(5) for j in range(i, 5)]
    for _ in range(40 if quick else 800):
        es = []
        for (i, j) in pairs5:
            if rng.random() < (0.35 if i != j else 0.3):
                es.append((i, j))
                if i != j:
                    es.append((j, i))
        add_square(weighted(rng, 5, sorted(es), True), roots=2, kind='undirected5-loops', unsort=0.33)
    if not quick:
        for _ in range(1500):
            n = rng.choice([5, 6])
            es = graphs.random_edges(rng, n, rng.choice([0.12, 0.2, 0.3]), directed=True, loops=True)
            add_square(weighted(rng, n, es, False), roots=2, kind='random-digraph%d' % n, unsort=0.33)
        g6 = list(graphs.all_undirected(6))
        for es in rng.sample(g6, 1500):
            add_square(weighted(rng, 6, es, True), roots=2, kind='undirected6', unsort=0.33)
    # structured random graphs
    for name, n, es, _ in graphs.suite(rng, 60 if quick else 600, 3, 12):
        kind = name.rstrip('0123456789')
        a = weighted(rng, n, es, kind in graphs.UNDIRECTED_KINDS)
        add_square(a, roots=2, kind='structured:' + kind, unsort=0.5)
    # several components: disjoint unions of small cyclic pieces, roots anywhere
    for _ in range(30 if quick else 300):
        parts = [rng.choice(['tri', 'edge', 'dicycle', 'single', 'loop', 'square', 'path3']) for _ in range(rng.randint(2, 3))]
        es, n = [], 0
        directed = False
        for p in parts:
            if p == 'tri':
                new = [(0, 1), (1, 2), (0, 2)]; k = 3; und = True
            elif p == 'square':
                new = [(0, 1), (1, 2), (2, 3), (0, 3)]; k = 4; und = True
            elif p == 'path3':
                new = [(0, 1), (1, 2)]; k = 3; und = True
            elif p == 'edge':
                new = [(0, 1)]; k = 2; und = True
            elif p == 'dicycle':
                new = [(0, 1), (1, 2), (2, 0)]; k = 3; und = False; directed = True
            elif p == 'loop':
                new = [(0, 0)]; k = 1; und = True
            else:
                new = []; k = 1; und = True
            for (i, j) in new:
                es.append((n + i, n + j))
                if und and i != j:
                    es.append((n + j, n + i))
            n += k
        perm = list(range(n))
        rng.shuffle(perm)
        es = sorted((perm[i], perm[j]) for i, j in es)
        add_square(weighted(rng, n, es, not directed), roots='all', kind='union', unsort=0.33)
    # biadjacency matrices (rectangular, and square ones forced)
    shapes = [(1, 2), (2, 1), (2, 2), (2, 3), (3, 2)] + ([] if quick else [(3, 3), (1, 3), (3, 4)])
    for nr, nc in shapes:
        allb = list(graphs.all_bipartite(nr, nc))
        if len(allb) > (40 if quick else 512):
            allb = rng.sample(allb, 40 if quick else 512)
        for es in allb:
            b = weighted(rng, nr, es, False, m=nc)
            out.extend(descs_connectivity(b, fbs=(True,) if nr == nc else (False, True), fmt=pick_format(0.35)))
            ctx.count('graph:biadjacency%dx%d' % (nr, nc))
    for _ in range(20 if quick else 200):
        nr, nc = rng.randint(2, 6), rng.randint(2, 6)
        es = graphs.random_edges(rng, nr, rng.choice([0.15, 0.3]), m=nc)
        b = weighted(rng, nr, es, False, m=nc)
        if rng.random() < 0.5:
            b = graphs.unsorted_copy(b, rng)
        out.extend(descs_connectivity(b, fbs=(True,), fmt=pick_format(0.35)))
        ctx.count('graph:biadjacency-random')
    # 2-colourable graphs with permuted node numbers (the True / reassembly branch of is_bipartite), a fifth of them
    # spoiled by one edge inside a class
    for _ in range(70 if quick else 700):
        n = rng.randint(2, 12)
        side = [rng.randrange(2) for _ in range(n)]
        es = set()
        p_edge = rng.choice([0.15, 0.3, 0.5])
        for i in range(n):
            for j in range(i + 1, n):
                if side[i] != side[j] and rng.random() < p_edge:
                    es.add((i, j)); es.add((j, i))
        kind = 'two-colourable'
        if rng.random() < 0.2:
            same = [(i, j) for i in range(n) for j in range(i + 1, n) if side[i] == side[j]]
            if same:
                i, j = rng.choice(same)
                es.add((i, j)); es.add((j, i))
                kind = 'two-colourable-spoiled'
        a = weighted(rng, n, sorted(es), True)
        if rng.random() < 0.5:
            a = graphs.unsorted_copy(a, rng)
        fm = pick_format(0.3)
        out.append({'f': 'is_bipartite', 'matrix': mat_desc(a), 'format': fm})
        out.append({'f': 'is_acyclic', 'matrix': mat_desc(a), 'format': fm, 'directed': None})
        ctx.count('graph:' + kind)
    # not square: scipy refuses it (ValueError), unless a "diagonal" entry answers first
    for b in (mk(2, [(0, 1), (1, 2)], m=3), mk(3, [(0, 0), (1, 1), (2, 0)], m=2)):
        out.extend(descs_cycles(b, rng, roots='all'))
        ctx.count('graph:rectangular-for-cycles')
    # degenerate stream
    for n in (1, 2, 3):
        for fm in ('csr', 'dense'):
            out.extend(descs_connectivity(mk(n, []), fbs=(False, True), fmt=fm))
            out.extend(descs_cycles(mk(n, []), rng, fmt=fm))
    out.extend(descs_connectivity(mk(2, [], m=3)))
    for es, w in (([(0, 1), (1, 0)], [1, 2]), ([(0, 1), (1, 0), (1, 2), (2, 1), (0, 2), (2, 0)], [1, 1, 2, 2, 3, 1]),
                  ([(0, 0)], [2]), ([(0, 0), (0, 1), (1, 0)], [0.5, 1, 1])):
        n = 1 + max(max(e) for e in es)
        out.extend(descs_cycles(mk(n, es, w), rng, extra_roots=True))
        out.extend(descs_connectivity(mk(n, es, w)))
    ctx.count('graph:degenerate', 8)
    out.extend(pinned_descs())
    return out


def pinned_descs():
    """Outside the input domain of the specification (negative weights, explicit zeros): the conventions of the code as
    they are, so that a change is noticed. Judged by run lines only (the models read values the way the code does);
    where the model does not cover the convention the expected answer is pinned literally."""
    out = []
    neg_loop = mat_desc(mk(2, [(0, 0), (0, 1)], [-1, 1]))          # negative self-loop: `diagonal() > 0` ignores it
    for d in (True, None):
        out.append({'f': 'is_acyclic', 'matrix': neg_loop, 'directed': d, 'spec': False})
        out.append({'f': 'get_cycles', 'matrix': neg_loop, 'directed': d, 'spec': False})
    sym_neg_loop = mat_desc(mk(2, [(0, 0), (0, 1), (1, 0)], [-1, 1, 1]))
    out.append({'f': 'is_bipartite', 'matrix': sym_neg_loop, 'spec': False})   # `diagonal().any()` counts it: False
    out.append({'f': 'is_acyclic', 'matrix': sym_neg_loop, 'directed': None, 'spec': False})
    # negative weight on a 2-cycle: the "edge still exists" test `<= 0` treats it as removed (the model works on the
    # stored pattern and would break the cycle): pinned literally
    neg_cycle = mat_desc(mk(2, [(0, 1), (1, 0)], [-1, 2]))
    out.append({'f': 'break_cycles', 'matrix': neg_cycle, 'root': 0, 'directed': True, 'spec': False,
                'pinned': 'ok same'})
    # explicit zero stored on the path 0 - 1 - 2 (entry (0, 2) = 0): scipy counts it as an edge, the values do not
    ez = sparse.csr_matrix((np.array([1., 0., 1., 1., 1.]), np.array([1, 2, 0, 2, 1]), np.array([0, 2, 4, 5])), shape=(3, 3))
    ezd = mat_desc(ez)
    for d in (True, None):
        out.append({'f': 'is_acyclic', 'matrix': ezd, 'directed': d, 'spec': False})
    return out


def corpus_descs():
    p = os.path.join(VERIF, 'corpus', 'C12.jsonl')
    out = []
    if os.path.exists(p):
        for ln in open(p):
            ln = ln.strip()
            if ln and not ln.startswith('#'):
                out.append(json.loads(ln))
    return out


def cases_of(descs, ctx=None):
    seen = set()
    cases = []
    for d in descs:
        k = json.dumps(d, sort_keys=True)
        if k in seen:
            continue
        seen.add(k)
        for c in build(d):
            if c.run is None and c.spec and c.spec.startswith('c12.contract_cc'):
                if c.spec in seen:          # the same scipy answer, consumed by several functions
                    continue
                seen.add(c.spec)
            if ctx is not None and c.run is None and c.sig.get('entry') == 'break_cycles':
                ctx.count('break_cycles:no-run-line(directed,n>%d)' % SET_ORDER_MAX_N)
            cases.append(c)
    return cases


def run(ctx):
    descs = corpus_descs()
    ctx.count('corpus', len(descs))
    descs += build_descs(ctx)
    evaluate(ctx, cases_of(descs, ctx))
    ctx.exhaustive = False


# ------------------------------------------------------------------------------------------------
# failing-input search: the Lean specification over the exhaustive small space (spec lines only)
# ------------------------------------------------------------------------------------------------
def search(ctx, pending):
    rng = ctx.rng
    descs = []
    for p in pending:
        d = (p[2] or {}).get('case')
        if d:
            descs.append(d)
    for n in (1, 2, 3):
        for es in graphs.all_digraphs(n, loops=True):
            a = mk(n, es)
            descs.extend(descs_connectivity(a, fbs=(False, True)))
            descs.extend(descs_cycles(a, rng))
    for es in graphs.all_undirected(4, loops=True):
        a = mk(4, es)
        descs.extend(descs_connectivity(a))
        descs.extend(descs_cycles(a, rng))
    for es in rng.sample(list(graphs.all_digraphs(4)), 600):
        descs.extend(descs_cycles(mk(4, es), rng))
    for nr, nc in ((1, 2), (2, 2), (2, 3)):
        for es in graphs.all_bipartite(nr, nc):
            descs.extend(descs_connectivity(mk(nr, es, m=nc), fbs=(True,)))
    sub = Sub(ctx)
    cases = cases_of(descs)
    for c in cases:
        c.run = None if c.spec else c.run
    evaluate(sub, cases)
    return sub.found()


def replay(ctx, payload):
    """Re-run one recorded failing input against the current tree."""
    case = payload.get('case') or (payload.get('what_no_longer_checks') or {}).get('case')
    if case and 'f' in case:
        evaluate(ctx, build(case))
    else:
        run(ctx)
