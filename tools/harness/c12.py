"""C12 — connectivity, bipartiteness and cycle functions describe the graph truthfully.

Correspondence (every case calls the real function from the overlay build of /repo's working tree):
  run      line -> the Lean model (SkNet/Model/Connectivity.lean, Cycles.lean) computes the answer from the
                   same matrix (and from what scipy's connected_components returned, which is a parameter of
                   the model); compared exactly
  spec     line -> the Lean specification (SkNet/Spec/Connectivity.lean: reachability closure, brute-force
                   2-colouring, brute-force cycle enumeration) evaluated on the implementation's own output
  contract line -> scipy's labels / component count are the weak / strong components of the matrix handed over
Theorems: SkNet/Properties/C12.lean.
"""
import itertools
import json
import os

import numpy as np
from scipy import sparse

from vlib import graphs
from vlib.cases import Case, Sub, evaluate as _evaluate
from vlib.core import enc_csr, enc_list, enc_listlist, enc_bool, enc_ratlist, _exact, VERIF

RULE = ('corpus first; exhaustive digraphs with self-loops n<=3 and undirected graphs with self-loops n<=4 '
        '(quick: sampled digraphs n=4, undirected n=5; thorough: all of them and sampled n=5/6), biadjacency '
        'matrices up to 3x3, structured random graphs n<=12 (several components, isolated nodes, self-loops, '
        'weights in {bool, 1, small integers, dyadic fractions}, sorted and unsorted CSR rows), degenerate stream '
        '(empty, 1x1, asymmetric weights on a symmetric pattern); x both connection modes x force_bipartite x '
        'directed in {None, True, False} x every admissible single root and sampled root lists. '
        'A case is non-trivial when the matrix has an edge and the answer is not an error; for break_cycles when '
        'the input has a cycle; distinct = distinct (function, matrix, arguments)')
ASSUMPTIONS = [
    'scipy.sparse.csgraph.connected_components returns the weak/strong components (contract line on every call it answers)',
    'input domain: CSR matrices without duplicate entries, stored values > 0 (no explicit zeros, no negative weights)',
    'CPython enumerates a set of node numbers < 8 in increasing order (run lines of break_cycles on digraphs are '
    'restricted to n <= 8; larger inputs are judged by the spec line alone)',
    'scipy fancy indexing / tocsc / tocsr / diagonal / eliminate_zeros are the substrate (monitored through the outputs)',
]

SET_ORDER_MAX_N = 8


# ------------------------------------------------------------------------------------------------
# matrices
# ------------------------------------------------------------------------------------------------
def mat_desc(a):
    a = sparse.csr_matrix(a)
    return {'shape': [int(a.shape[0]), int(a.shape[1])], 'indptr': [int(x) for x in a.indptr],
            'indices': [int(x) for x in a.indices], 'data': [float(x) for x in a.data], 'dtype': str(a.dtype)}


def mat_of(d):
    dt = np.dtype(d.get('dtype', 'float64'))
    a = sparse.csr_matrix((np.asarray(d['data'], dtype=float).astype(dt), np.asarray(d['indices'], dtype=np.int32),
                           np.asarray(d['indptr'], dtype=np.int32)), shape=tuple(d['shape']))
    return a


def mk(n, es, w=None, m=None, dtype=float):
    m = n if m is None else m
    if not es:
        return sparse.csr_matrix((n, m), dtype=dtype)
    w = [1] * len(es) if w is None else w
    a = sparse.csr_matrix((np.asarray(w, dtype=float), ([e[0] for e in es], [e[1] for e in es])), shape=(n, m))
    return a.astype(dtype)


def enc_dense(rows):
    rows = [list(r) for r in rows]
    if not rows:
        return '-'
    return ';'.join(enc_ratlist(_exact(v) for v in r) for r in rows)


def enc_matrix_dense(m):
    m = sparse.csr_matrix(m)
    return enc_dense(m.toarray().tolist())


def ext_cc(a, directed=True, connection='weak'):
    """What scipy answers (the external parameter of the models)."""
    ncc, labels = sparse.csgraph.connected_components(a, directed=directed, connection=connection, return_labels=True)
    return int(ncc), [int(x) for x in labels]


def block_of(b):
    return sparse.bmat([[None, b], [b.T, None]], format='csr')


def without_diagonal(a):
    a = sparse.csr_matrix(a).astype(float)
    out = sparse.lil_matrix(a)
    out.setdiag(0)
    out = out.tocsr()
    out.eliminate_zeros()
    return out


def call(f):
    try:
        return f()
    except (ValueError, IndexError, TypeError, KeyError) as e:
        return 'err ' + type(e).__name__


# ------------------------------------------------------------------------------------------------
# one case = one description (JSON-able, written into replays / corpus) -> request lines
# ------------------------------------------------------------------------------------------------
def build(desc):
    """Cases for one description {'f': function, 'matrix': …, arguments…}."""
    from sknetwork.topology import (get_connected_components, is_connected, get_largest_connected_component,
                                    is_bipartite, is_acyclic, get_cycles, break_cycles)
    f = desc['f']
    a = mat_of(desc['matrix'])
    g = enc_csr(a)
    n, m = a.shape
    has_edge = a.nnz > 0
    out = []
    if f in ('get_connected_components', 'is_connected', 'get_largest_connected_component'):
        conn = desc['connection']
        fb = bool(desc['force_bipartite'])
        strong = conn == 'strong'
        bip = fb or n != m
        adj = block_of(a) if bip else a
        ncc, labels = ext_cc(adj, True, conn)
        sig = {'entry': f, 'connection': conn, 'bipartite': bip}
        key = (f, g, conn, fb)
        if f == 'get_connected_components':
            out.append(Case(('contract',) + key, {'entry': 'scipy.connected_components', 'connection': conn}, None, 'ok',
                            'c12.contract_cc %s %s %s %d' % (enc_csr(adj), enc_bool(strong), enc_list(labels), ncc),
                            False, desc))
            impl = call(lambda: 'ok ' + enc_list(get_connected_components(a, conn, fb)))
            run = 'c12.cc %s %s %s %s' % (g, enc_bool(strong), enc_bool(fb), enc_list(labels))
            spec = 'c12.spec_cc %s %s %s %s' % (g, enc_bool(strong), enc_bool(fb), impl[3:]) if impl.startswith('ok ') else None
            out.append(Case(key, sig, run, impl, spec, has_edge and impl.startswith('ok'), desc))
        elif f == 'is_connected':
            impl = call(lambda: 'ok ' + enc_bool(is_connected(a, conn, fb)))
            run = 'c12.connected %s %s %s %s' % (g, enc_bool(strong), enc_bool(fb), enc_list(labels))
            spec = 'c12.spec_connected %s %s %s %s' % (g, enc_bool(strong), enc_bool(fb), impl[3:]) if impl.startswith('ok ') else None
            out.append(Case(key, sig, run, impl, spec, has_edge and impl.startswith('ok'), desc))
        else:
            def fl():
                mat, index = get_largest_connected_component(a, conn, fb, return_index=True)
                mat2 = get_largest_connected_component(a, conn, fb)
                if mat.shape != mat2.shape or (mat != mat2).nnz:
                    return 'ok %s %s return_index-changes-the-matrix' % (enc_list(index), enc_matrix_dense(mat))
                if bip:
                    if mat.shape[0] + mat.shape[1] != len(index):
                        return 'ok %s %s shape=%s' % (enc_list(index), enc_matrix_dense(mat), mat.shape)
                elif mat.shape != (len(index), len(index)):
                    return 'ok %s %s shape=%s' % (enc_list(index), enc_matrix_dense(mat), mat.shape)
                return 'ok %s %s' % (enc_list(index), enc_matrix_dense(mat))
            impl = call(fl)
            run = 'c12.largest %s %s %s %s' % (g, enc_bool(strong), enc_bool(fb), enc_list(labels))
            spec = None
            if impl.startswith('ok '):
                tk = impl.split(' ')
                spec = 'c12.spec_largest %s %s %s %s %s' % (g, enc_bool(strong), enc_bool(fb), tk[1], tk[2])
                if len(tk) > 3:
                    spec = 'c12.spec_largest %s %s %s %s %s' % (g, enc_bool(strong), enc_bool(fb), tk[1], 'bad-shape')
            out.append(Case(key, sig, run, impl, spec, has_edge and impl.startswith('ok'), desc))
    elif f == 'is_bipartite':
        def fb_():
            r = is_bipartite(a, return_biadjacency=True)
            r2 = is_bipartite(a)
            if bool(r[0]) != bool(r2):
                return 'ok %s return_biadjacency-changes-the-answer' % enc_bool(r2)
            if not r[0]:
                return 'ok 0' if all(x is None for x in r[1:]) else 'ok 0 not-None'
            return 'ok 1 %s %s %s' % (enc_list(r[2]), enc_list(r[3]), enc_matrix_dense(r[1]))
        impl = call(fb_)
        run = 'c12.bip %s' % g
        spec = None
        if impl.startswith('ok '):
            tk = impl.split(' ')
            spec = 'c12.spec_bip %s %s %s' % (g, tk[1], ' '.join(tk[2:5]) if len(tk) == 5 else '_ _ _')
        out.append(Case(('bip', g), {'entry': 'is_bipartite'}, run, impl, spec, has_edge and impl.startswith('ok'), desc))
    elif f in ('is_acyclic', 'get_cycles'):
        directed = desc['directed']
        dtok = '_' if directed is None else enc_bool(directed)
        ncc_d, lab_d = ext_cc(a, True, 'strong')
        ncc_u, lab_u = ext_cc(a, False, 'strong')
        sig = {'entry': f, 'directed': directed}
        if f == 'is_acyclic':
            for dflag, strong, ncc, lab in ((True, True, ncc_d, lab_d), (False, False, ncc_u, lab_u)):
                out.append(Case(('contract', f, g, dflag), {'entry': 'scipy.connected_components', 'directed': dflag}, None, 'ok',
                                'c12.contract_cc %s %s %s %d' % (g, enc_bool(strong), enc_list(lab), ncc), False, desc))
            impl = call(lambda: 'ok ' + enc_bool(is_acyclic(a, directed)))
            run = 'c12.acyclic %s %s %d %d' % (g, dtok, ncc_d, ncc_u)
            spec = 'c12.spec_acyclic %s %s %s' % (g, dtok, impl[3:]) if impl.startswith('ok ') else None
            out.append(Case((f, g, directed), sig, run, impl, spec, has_edge and impl.startswith('ok'), desc))
        else:
            impl = call(lambda: 'ok ' + enc_listlist([[int(x) for x in c] for c in get_cycles(a, directed)]))
            run = 'c12.cycles %s %s %d %d %s %s' % (g, dtok, ncc_d, ncc_u, enc_list(lab_d), enc_list(lab_u))
            spec = 'c12.spec_cycles %s %s %s' % (g, dtok, impl[3:]) if impl.startswith('ok ') else None
            out.append(Case((f, g, directed), sig, run, impl, spec,
                            has_edge and impl.startswith('ok') and impl != 'ok -', desc))
    elif f == 'break_cycles':
        directed = desc['directed']
        root = desc['root']                      # None, int or list of ints
        dtok = '_' if directed is None else enc_bool(directed)
        rlist = None if root is None else ([root] if isinstance(root, int) else list(root))
        rtok = '_' if rlist is None else enc_list(rlist)
        ncc_d, _ = ext_cc(a, True, 'strong')
        ncc_u, _ = ext_cc(a, False, 'strong')
        a0 = without_diagonal(a)
        _, lab_d = ext_cc(a0, True, 'strong')
        _, lab_u = ext_cc(a0, False, 'strong')

        def fbr():
            arg = a.copy()
            res = break_cycles(arg, root, directed)
            if res is arg:
                return 'ok same', arg
            res = sparse.csr_matrix(res)
            rows = [sorted(int(x) for x in res.indices[res.indptr[i]:res.indptr[i + 1]]) for i in range(res.shape[0])]
            return 'ok rows ' + enc_listlist(rows), res
        r = call(fbr)
        impl, res = (r, None) if isinstance(r, str) else r
        symmetric = (a.shape[0] == a.shape[1]) and (a - a.T).nnz == 0
        eff_directed = (not symmetric) if directed is None else directed
        run = 'c12.break %s %s %s %d %d %s %s' % (g, rtok, dtok, ncc_d, ncc_u, enc_list(lab_d), enc_list(lab_u))
        if eff_directed and n > SET_ORDER_MAX_N:
            run = None
        spec = None
        if res is not None:
            spec = 'c12.spec_break %s %s %s %s' % (g, rtok if rtok != '_' else '-', dtok, enc_csr(sparse.csr_matrix(res)))
        sig = {'entry': f, 'directed': eff_directed, 'root_kind': 'none' if root is None else ('int' if isinstance(root, int) else 'list')}
        out.append(Case((f, g, rtok, directed), sig, run, impl, spec, impl.startswith('ok rows'), desc))
    else:
        raise ValueError('unknown function %r' % f)
    return out


def _same(c, model, impl, spec_ok):
    return False


def evaluate(ctx, cases):
    _evaluate(ctx, cases, same=_same)


# ------------------------------------------------------------------------------------------------
# generators
# ------------------------------------------------------------------------------------------------
def descs_connectivity(a, fbs=(False,), conns=('weak', 'strong')):
    md = mat_desc(a)
    for conn in conns:
        for fb in fbs:
            for f in ('get_connected_components', 'is_connected', 'get_largest_connected_component'):
                yield {'f': f, 'matrix': md, 'connection': conn, 'force_bipartite': fb}


def descs_cycles(a, rng, roots='all', directeds=None, with_break=True):
    md = mat_desc(a)
    n = a.shape[0]
    if directeds is None:
        # the flag that contradicts the matrix is an error (asymmetric, False) or a reinterpretation
        # (symmetric, True: every edge is a 2-cycle): sampled
        symmetric = (a - a.T).nnz == 0
        if symmetric:
            directeds = (None, False, True) if rng.random() < 0.3 else (None, False)
        else:
            directeds = (None, True, False) if rng.random() < 0.15 else (None, True)
    yield {'f': 'is_bipartite', 'matrix': md}
    for d in directeds:
        yield {'f': 'is_acyclic', 'matrix': md, 'directed': d}
        yield {'f': 'get_cycles', 'matrix': md, 'directed': d}
    if not with_break:
        return
    singles = list(range(n)) if roots == 'all' else rng.sample(range(n), min(n, roots))
    for d in directeds:
        for r in singles:
            yield {'f': 'break_cycles', 'matrix': md, 'root': r, 'directed': d}
        if n >= 2:
            k = rng.randint(2, min(n, 3))
            yield {'f': 'break_cycles', 'matrix': md, 'root': sorted(rng.sample(range(n), k)), 'directed': d}
            yield {'f': 'break_cycles', 'matrix': md, 'root': [rng.randrange(n)], 'directed': d}
    yield {'f': 'break_cycles', 'matrix': md, 'root': None, 'directed': None}


WEIGHT_MODES = ['ones', 'bool', 'int', 'frac']


def weights_for(rng, es, mode, symmetric):
    if mode in ('ones', 'bool'):
        return [1] * len(es)
    choices = [1, 2, 3] if mode == 'int' else [0.5, 1, 1.5, 0.25, 2]
    if symmetric:
        return graphs.sym_weights(rng, es, choices)
    return [rng.choice(choices) for _ in es]


def weighted(rng, n, es, symmetric, m=None, mode=None):
    mode = mode or rng.choice(WEIGHT_MODES)
    a = mk(n, es, weights_for(rng, es, mode, symmetric), m=m)
    if mode == 'bool':
        a = a.astype(bool)
    elif mode == 'int':
        a = a.astype(int)
    return a


def too_many_paths(a, limit=4000):
    """Upper bound on the number of simple paths the traversals of cycles.py enumerate (they are exponential)."""
    n = a.shape[0]
    deg = max([1] + [int(a.indptr[i + 1] - a.indptr[i]) for i in range(n)])
    total, cur = 0, 1
    for k in range(n):
        cur *= max(1, min(deg, n - k))
        total += cur
        if total > limit:
            return True
    return False


def build_descs(ctx):
    rng = ctx.rng
    quick = ctx.quick
    out = []

    def add_square(a, roots='all', kind='', with_break=True, conn=True):
        if conn:
            out.extend(descs_connectivity(a, fbs=(False, True) if rng.random() < 0.25 else (False,)))
        if too_many_paths(a):
            ctx.count('skipped-cycles:too-many-paths')
            out.append({'f': 'is_bipartite', 'matrix': mat_desc(a)})
            for d in (None, True):
                out.append({'f': 'is_acyclic', 'matrix': mat_desc(a), 'directed': d})
        else:
            out.extend(descs_cycles(a, rng, roots=roots, with_break=with_break))
        ctx.count('graph:' + kind)

    # exhaustive digraphs with self-loops
    for n in (1, 2, 3):
        for es in graphs.all_digraphs(n, loops=True):
            add_square(weighted(rng, n, es, False, mode=rng.choice(['ones', 'ones', 'frac', 'int', 'bool'])), kind='digraph%d' % n)
    g4 = list(graphs.all_digraphs(4))
    if quick:
        g4 = rng.sample(g4, 150)
    for es in g4:
        add_square(weighted(rng, 4, es, False), roots=2 if quick else 'all', kind='digraph4')
    # exhaustive undirected graphs with self-loops
    for n in (2, 3, 4):
        gs = list(graphs.all_undirected(n, loops=True))
        if quick and n == 4:
            gs = rng.sample(gs, 250)
        for es in gs:
            add_square(weighted(rng, n, es, True), roots=2 if (quick and n == 4) else 'all', kind='undirected%d' % n)
    g5 = list(graphs.all_undirected(5))
    for es in (rng.sample(g5, 120) if quick else g5):
        add_square(weighted(rng, 5, es, True), roots=2, kind='undirected5')
    if not quick:
        for _ in range(1500):
            n = rng.choice([5, 6])
            es = graphs.random_edges(rng, n, rng.choice([0.12, 0.2, 0.3]), directed=True, loops=True)
            add_square(weighted(rng, n, es, False), roots=2, kind='random-digraph%d' % n)
        g6 = list(graphs.all_undirected(6))
        for es in rng.sample(g6, 1500):
            add_square(weighted(rng, 6, es, True), roots=2, kind='undirected6')
    # structured random graphs
    for name, n, es, _ in graphs.suite(rng, 70 if quick else 600, 3, 12):
        kind = name.rstrip('0123456789')
        a = weighted(rng, n, es, kind in graphs.UNDIRECTED_KINDS)
        if rng.random() < 0.5:
            a = graphs.unsorted_copy(a, rng)
        add_square(a, roots=2, kind='structured:' + kind)
    # several components: disjoint unions of small cyclic pieces, roots anywhere
    for _ in range(30 if quick else 300):
        parts = [rng.choice(['tri', 'edge', 'dicycle', 'single', 'loop', 'square', 'path3']) for _ in range(rng.randint(2, 3))]
        es, n = [], 0
        directed = False
        for p in parts:
            if p == 'tri':
                new = [(0, 1), (1, 2), (0, 2)]; k = 3; und = True
            elif p == 'square':
                new = [(0, 1), (1, 2), (2, 3), (0, 3)]; k = 4; und = True
            elif p == 'path3':
                new = [(0, 1), (1, 2)]; k = 3; und = True
            elif p == 'edge':
                new = [(0, 1)]; k = 2; und = True
            elif p == 'dicycle':
                new = [(0, 1), (1, 2), (2, 0)]; k = 3; und = False; directed = True
            elif p == 'loop':
                new = [(0, 0)]; k = 1; und = True
            else:
                new = []; k = 1; und = True
            for (i, j) in new:
                es.append((n + i, n + j))
                if und and i != j:
                    es.append((n + j, n + i))
            n += k
        perm = list(range(n))
        rng.shuffle(perm)
        es = sorted((perm[i], perm[j]) for i, j in es)
        add_square(weighted(rng, n, es, not directed), roots='all', kind='union')
    # biadjacency matrices (rectangular, and square ones forced)
    shapes = [(1, 2), (2, 1), (2, 2), (2, 3), (3, 2)] + ([] if quick else [(3, 3), (1, 3), (3, 4)])
    for nr, nc in shapes:
        allb = list(graphs.all_bipartite(nr, nc))
        if len(allb) > (40 if quick else 512):
            allb = rng.sample(allb, 40 if quick else 512)
        for es in allb:
            b = weighted(rng, nr, es, False, m=nc)
            out.extend(descs_connectivity(b, fbs=(True,) if nr == nc else (False, True)))
            ctx.count('graph:biadjacency%dx%d' % (nr, nc))
    for _ in range(20 if quick else 200):
        nr, nc = rng.randint(2, 6), rng.randint(2, 6)
        es = graphs.random_edges(rng, nr, rng.choice([0.15, 0.3]), m=nc)
        b = weighted(rng, nr, es, False, m=nc)
        if rng.random() < 0.5:
            b = graphs.unsorted_copy(b, rng)
        out.extend(descs_connectivity(b, fbs=(True,)))
        ctx.count('graph:biadjacency-random')
    # degenerate stream
    for n in (1, 2, 3):
        out.extend(descs_connectivity(mk(n, []), fbs=(False, True)))
        out.extend(descs_cycles(mk(n, []), rng))
    out.extend(descs_connectivity(mk(2, [], m=3)))
    for es, w in (([(0, 1), (1, 0)], [1, 2]), ([(0, 1), (1, 0), (1, 2), (2, 1), (0, 2), (2, 0)], [1, 1, 2, 2, 3, 1]),
                  ([(0, 0)], [2]), ([(0, 0), (0, 1), (1, 0)], [0.5, 1, 1])):
        n = 1 + max(max(e) for e in es)
        out.extend(descs_cycles(mk(n, es, w), rng))
        out.extend(descs_connectivity(mk(n, es, w)))
    ctx.count('graph:degenerate', 8)
    return out


def corpus_descs():
    p = os.path.join(VERIF, 'corpus', 'C12.jsonl')
    out = []
    if os.path.exists(p):
        for ln in open(p):
            ln = ln.strip()
            if ln and not ln.startswith('#'):
                out.append(json.loads(ln))
    return out


def cases_of(descs):
    seen = set()
    cases = []
    for d in descs:
        k = json.dumps(d, sort_keys=True)
        if k in seen:
            continue
        seen.add(k)
        cases.extend(build(d))
    return cases


def run(ctx):
    descs = corpus_descs()
    ctx.count('corpus', len(descs))
    descs += build_descs(ctx)
    evaluate(ctx, cases_of(descs))
    ctx.exhaustive = False


# ------------------------------------------------------------------------------------------------
# failing-input search: the Lean specification over the exhaustive small space (spec lines only)
# ------------------------------------------------------------------------------------------------
def search(ctx, pending):
    rng = ctx.rng
    descs = []
    for p in pending:
        d = (p[2] or {}).get('case')
        if d:
            descs.append(d)
    for n in (1, 2, 3):
        for es in graphs.all_digraphs(n, loops=True):
            a = mk(n, es)
            descs.extend(descs_connectivity(a, fbs=(False, True)))
            descs.extend(descs_cycles(a, rng))
    for es in graphs.all_undirected(4, loops=True):
        a = mk(4, es)
        descs.extend(descs_connectivity(a))
        descs.extend(descs_cycles(a, rng))
    for es in rng.sample(list(graphs.all_digraphs(4)), 600):
        descs.extend(descs_cycles(mk(4, es), rng))
    for nr, nc in ((1, 2), (2, 2), (2, 3)):
        for es in graphs.all_bipartite(nr, nc):
            descs.extend(descs_connectivity(mk(nr, es, m=nc), fbs=(True,)))
    sub = Sub(ctx)
    cases = cases_of(descs)
    for c in cases:
        c.run = None if c.spec else c.run
    evaluate(sub, cases)
    return sub.found()


def replay(ctx, payload):
    """Re-run one recorded failing input against the current tree."""
    case = payload.get('case') or (payload.get('what_no_longer_checks') or {}).get('case')
    if case and 'f' in case:
        evaluate(ctx, build(case))
    else:
        run(ctx)
