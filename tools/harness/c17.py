"""C17 — every fit terminates and stays within its buffers.

What a run does
  generate   tools/translate/kernels.py re-translates every Cython kernel of the tree under check into the kernel IR
             (lean/SkNet/Generated/KernelIR.lean); Lean is rebuilt on it.
  kinds      for every kernel the driver evaluates the index-kind checker (`c17.kind`): the access sites it cannot
             kind must be (a) on a local container, or (b) in the short list of documented exceptions (heap positions,
             the clique kernel, the colour counter of WL).  Anything else is a broken obligation -> failing-input
             search on the bounds-checked build.  The accepted obligations are also kernel-checked by a generated
             `by decide` file (SkNet/Generated/KernelObligations.lean) and instantiated with `kinds_sound`.
  contract   the arguments with which the compiled kernels are really entered (recorded in a monitoring worker) must
             satisfy the declared shapes/kinds: `c17.sat` = `Inputs.satisfies` of the Lean model on the real arguments.
  kernels    hand models with checked access (SkNet/Model/Kernels*.lean) against the real kernels: run lines (exact)
             and spec lines.
  workers    every public algorithm with default (and boundary) parameters on a degenerate input stream, in supervised
             worker processes with a CPU-time limit: a hang or a crash of the interpreter is a concrete failing input.
             Same stream on the bounds-checked build (boundscheck on, -D_GLIBCXX_ASSERTIONS): an IndexError raised by
             the bounds check, or an abort, is a concrete failing input.
"""
import fcntl
import json
import os
import select
import subprocess
import sys
import threading
import time
import queue as _queue

import numpy as np
from scipy import sparse

from vlib import graphs, core, overlay
from vlib.cases import Case, Sub, evaluate as _evaluate
from vlib.core import ToolFailure, VERIF, CACHE, LEAN_DIR, enc_list

RULE = ('kinds: one obligation per translated kernel (19 kernels of the 12 .pyx files); contract: every kernel call observed '
        'in the stream; workers: public algorithms x degenerate graphs (empty, one edge, self-loops, isolated nodes, sinks, '
        'directed cycles, several components, nnz < n, bool/int/explicit-zero data, unsorted indices, rectangular), '
        'structured random graphs n <= 12, seeds with labels >= n and oscillating configurations, tolerance-0 streams of the '
        'modularity estimators, a middle range (random graphs with 13..100 nodes, disjoint directed cycles with long sweep '
        'periods, transitive tournaments), are_isomorphic on pairs of graphs; scaling probe: CPU time of every stream algorithm '
        'on sparse graphs whose size doubles from 500 nodes until a run costs 0.5 s (pairs up to 32 000 nodes quick / 512 000 '
        'thorough), growth of the cost (per operator application for the ARPACK-based entries) against the declared class of the '
        'algorithm, an excess reported only when three re-measurements confirm it on a quiet machine; '
        'a case is non-trivial when the graph has at least one stored entry; distinct = distinct (algorithm, parameters, '
        'graph, build flavour)')
ASSUMPTIONS = [
    'translator tools/translate/kernels.py: Cython parser front end + our lowering to the kernel IR (floats, container '
    'orders, numpy calls and Python objects are an arbitrary oracle of the IR semantics; calls between kernels are checked '
    'at the argument, the callee is its own kernel)',
    'the SPECS table of the translator (cells and element kinds of the arrays handed to each kernel) - monitored on the '
    'real arguments by the contract lines for the kernels entered from Python',
    'prange loops are interpreted sequentially (schedules are the business of C16)',
    'compiled object code: exercised (plain and bounds-checked builds), not verified',
    'time limit in CPU seconds of the worker (6 s quick / 20 s thorough per task on graphs with at most 100 nodes, 60 s in the '
    'scaling probe): a task that uses more (confirmed once alone with twice the limit) is a hang; a worker that cannot '
    'use its allowance within 6 x the limit of wall clock makes the run a tool failure, not a verdict',
]
LEAN_MODULES = ['SkNet.Properties.C17']
DRIVE_MODULES = ['SkNet.Drive.C17']

HERE = os.path.dirname(os.path.abspath(__file__))
WORKER = os.path.join(HERE, 'c17_worker.py')
C17_CACHE = os.path.join(CACHE, 'c17')
_STATE = {}

def _lock():
    """One C17 run at a time: the generated Lean files are shared."""
    if 'lock' in _STATE:
        return
    os.makedirs(C17_CACHE, exist_ok=True)
    fh = open(os.path.join(C17_CACHE, 'run.lock'), 'w')
    fcntl.flock(fh, fcntl.LOCK_EX)
    _STATE['lock'] = fh


# ================================================================================================
# generate: translator
# ================================================================================================
def generate(ctx):
    _lock()
    tdir = os.path.join(os.path.dirname(HERE), 'translate')
    if tdir not in sys.path:
        sys.path.insert(0, tdir)
    import kernels as tk
    t0 = time.time()
    desc = tk.generate(ctx.overlay_root, LEAN_DIR, os.path.join(C17_CACHE, 'kernels.json'))
    _STATE['desc'] = desc
    _STATE['expected_kernels'] = [s['name'] for s in tk.SPECS]
    ctx.extra['translator'] = {'kernels': len(desc['kernels']), 'problems': desc['problems'],
                               'wall_s': round(time.time() - t0, 2),
                               'prange_loops': {k['name']: k['prange'] for k in desc['kernels'] if k['prange']},
                               'calls': {k['name']: k['calls'] for k in desc['kernels'] if k['calls']}}
    # a stale obligations file must not break the build of the library
    ob = os.path.join(LEAN_DIR, 'SkNet', 'Generated', 'KernelObligations.lean')
    if os.path.exists(ob):
        os.remove(ob)


# ================================================================================================
# kinds
# ================================================================================================
WAIVERS_FILE = os.path.join(HERE, 'c17_waivers.json')


def load_waivers():
    """The committed baseline of what the kind system does not reach: per kernel the multiset of waived access sites
    (by text) and the variables the definite-assignment check cannot prove assigned.  Anything beyond it is a broken
    obligation (review M2)."""
    if not os.path.exists(WAIVERS_FILE):
        return {}
    return json.load(open(WAIVERS_FILE))


def canonical_inputs(k):
    """A small concrete input of kernel `k` built from its declarations alone (path on 4 nodes as CSR, every other
    array filled with a value of its element kind, every entry variable with a value of its kind): the hypotheses of
    `kinds_sound` must be satisfiable (review M3).  Returns (dims, scalars [(id, v)], arrays [(id, contents or length)])."""
    dimv = {'0': 0, 'n': 4, 'nnz': 6, 'm': 3, 'L': 4, 'k': 3}
    dl = [dimv.get(d, 3) for d in k['dims']]
    dl[0] = 0

    def dval(d):
        return dl[k['dims'].index(d)]

    def pick(kind, prefer):
        lo, hi = kind
        v = prefer
        if lo is not None:
            v = max(v, lo)
        if hi is not None:
            v = min(v, dval(hi[0]) + hi[1] - 1)
        return v
    csr_ptr, csr_idx = [0, 1, 3, 5, 6], [1, 0, 2, 1, 3, 2]
    arrs = []
    for i, nm in enumerate(k['arrays']):
        info = k['array_info'][nm]
        if info['static'] and info['size'] is not None:
            ln = max(0, dval(info['size'][0]) + info['size'][1])
            if nm in ('indptr', 'rev_indptr') and ln == 5:
                arrs.append((i, csr_ptr))
            elif nm in ('indices', 'rev_indices') and ln == 6:
                arrs.append((i, csr_idx))
            elif info['float']:
                arrs.append((i, ln))
            else:
                arrs.append((i, [pick(info['elem'], j % 3) for j in range(ln)]))
        elif not info['static'] and nm.endswith('#ret'):
            arrs.append((i, [pick(info['elem'], 1)]))
    sc = []
    for nm in k['entry_vars']:
        prefer = dimv.get(nm, 2)
        sc.append((k['vars'].index(nm), pick(k['var_kinds'][nm], prefer)))
    return dl, sc, arrs


def enc_inputs_tokens(dl, sc, arrs):
    a = []
    for i, c in arrs:
        a.append('%d=#%d' % (i, c) if isinstance(c, int) else '%d=%s' % (i, enc_list(c)))
    return '%s %s %s' % (enc_list(dl), ';'.join('%d,%d' % p for p in sc) if sc else '-', '|'.join(a) if a else '-')


def lean_inputs(dl, sc, arrs):
    def lst(xs):
        return '[' + ', '.join(('(%d)' % x) if x < 0 else str(x) for x in xs) + ']'
    a = ', '.join('(%d, %s)' % (i, ('List.replicate %d 0' % c) if isinstance(c, int) else lst(c)) for i, c in arrs)
    return '{ dims := %s, scalars := [%s], arrs := [%s] }' % (
        lst(dl), ', '.join('(%d, %s)' % (x, ('(%d)' % v) if v < 0 else str(v)) for x, v in sc), a)


def kind_obligations(ctx):
    desc = _STATE['desc']
    kernels = desc['kernels']
    by_name = {k['name']: k for k in kernels}
    waivers = load_waivers()
    for nm in _STATE['expected_kernels']:
        if nm not in by_name:
            ctx.broken('kernel_ir:' + nm, {'what': 'kernel no longer found / translated', 'problems': desc['problems'][:3]},
                       sig={'obligation': 'kernel_ir', 'kernel': nm})
    # every typed function of every .pyx is translated or excused by name (review M7)
    for u in desc.get('unlisted', []):
        ctx.broken('kernel_ir:unlisted', {'what': 'a function of a .pyx file that is neither translated nor listed in NOT_KERNELS',
                                          'function': u}, sig={'obligation': 'kernel_ir_unlisted', 'file': u['file'],
                                                               'function': u.get('function')})
    ctx.count('pyx_functions_unlisted', len(desc.get('unlisted', [])))
    answers = ctx.lean(['c17.kind %s' % k['name'] for k in kernels])
    report = {}
    thms = []
    n_ob = 0
    n_ok = 0
    for k, ans in zip(kernels, answers):
        parts = ans.split(' ')
        if len(parts) != 4 or parts[0] not in ('ok', 'bad'):
            raise ToolFailure('c17.kind %s -> %r' % (k['name'], ans))
        ok = parts[0] == 'ok'
        ill = [] if parts[1] == '-' else [int(x) for x in parts[1].split(',')]
        probs = [] if parts[2] == '-' else parts[2].split(',')
        unassigned = [] if parts[3] == 'assigned' else parts[3][len('unassigned:'):].split(',')
        base = waivers.get(k['name'], {})
        budget = dict(base.get('sites', {}))
        unexpected = []
        listed = []
        for s in ill:
            si = k['sites'][s]
            info = k['array_info'].get(si['arr'], {})
            entry = {'site': si['text'], 'line': si['line'], 'access': si['kind'],
                     'why': 'local container' if not info.get('static', False) else 'fixed array'}
            if budget.get(si['text'], 0) > 0:
                budget[si['text']] -= 1
                listed.append(entry)
            else:
                unexpected.append(entry)
        new_unassigned = [v for v in unassigned if v not in base.get('unassigned', [])]
        # a statement the translator could not interpret, or an array without a declared shape, is not evidence text
        bad_notes = [nt for nt in k['notes'] if 'not interpreted' in nt or 'no declared shape' in nt]
        n_ob += 1
        report[k['name']] = {'accepted': ok, 'sites': len(k['sites']), 'waived': listed, 'unexpected': unexpected,
                             'value_problems': probs, 'unassigned': unassigned, 'notes': k['notes'][:6]}
        ctx.case(('kind', k['name'], tuple(ill)), True,
                 sample={'request': 'c17.kind ' + k['name'], 'model': ans, 'impl': 'sites=%d' % len(k['sites'])})
        good = ok and not unexpected and not new_unassigned and not bad_notes
        ctx.count('kind:' + ('clean' if good and not ill else 'waivers' if good else 'BROKEN'))
        if good:
            n_ok += 1
            thms.append((k, ill, not unassigned))
        else:
            ctx.broken('kinds:' + k['name'],
                       {'kernel': k['name'], 'file': k['file'], 'unkinded_sites_beyond_baseline': unexpected,
                        'value_problems': probs, 'unassigned_beyond_baseline': new_unassigned, 'translator_notes': bad_notes,
                        'what': 'the index-kind / definite-assignment checker no longer accepts this kernel within the '
                                'committed waiver baseline (tools/harness/c17_waivers.json)'},
                       sig={'obligation': 'kinds', 'kernel': k['name'],
                            'sites': sorted({u['site'] for u in unexpected}), 'problems': sorted(probs),
                            'unassigned': sorted(new_unassigned)})
    ctx.extra['kinds'] = report
    ctx.extra['untyped_access_sites'] = {nm: [u['site'] + ' @%d' % u['line'] for u in r['waived']]
                                         for nm, r in report.items() if r['waived']}
    _STATE['kind_report'] = report
    # the hypotheses are satisfiable, and the IR runs on such inputs (review M3, M4): canonical inputs per kernel
    canon = {}
    lines = []
    for k in kernels:
        canon[k['name']] = canonical_inputs(k)
        tok = enc_inputs_tokens(*canon[k['name']])
        lines.append('c17.sat %s %s' % (k['name'], tok))
        for seed in range(4):
            lines.append('c17.exec %s %s 4000 %d' % (k['name'], tok, seed))
    t_c = time.time()
    answers = ctx.lean(lines)
    ctx.extra.setdefault('kinds_phases_s', {})['canonical_sat_exec'] = round(time.time() - t_c, 1)
    pos = 0
    sat_ok = {}
    for k in kernels:
        sat = answers[pos]
        execs = answers[pos + 1:pos + 5]
        pos += 5
        sat_ok[k['name']] = (sat == 'holds')
        ctx.case(('canon', k['name']), True, sample={'request': lines[pos - 5][:200], 'model': sat, 'impl': execs})
        if sat != 'holds':
            ctx.broken('satisfiable:' + k['name'], {'what': 'the declared kinds admit no canonical input (vacuous obligation?)',
                                                    'answer': sat, 'line': lines[pos - 5][:600]},
                       sig={'obligation': 'satisfiable', 'kernel': k['name']})
        waived_txt = {w['site'] for w in report[k['name']]['waived'] + report[k['name']]['unexpected']}
        for e in execs:
            ctx.count('ir_exec:' + e.split(' ')[0])
            if e.startswith('uninit'):
                v = e.split(' ')[1]
                if v not in waivers.get(k['name'], {}).get('unassigned', []):
                    ctx.broken('ir_exec:' + k['name'], {'what': 'the IR run reads an unassigned variable', 'answer': e},
                               sig={'obligation': 'ir_exec', 'kernel': k['name'], 'answer': 'uninit'})
            elif e.startswith('oob'):
                site = k['sites'][int(e.split(' ')[1])]['text']
                if site not in waived_txt:
                    raise ToolFailure('IR run out of bounds at a kinded site (contradicts kinds_sound): %s %s' % (k['name'], e))
            elif e.split(' ')[0] not in ('ok', 'done', 'out'):
                raise ToolFailure('c17.exec %s -> %r' % (k['name'], e))
    # kernel-checked form of the accepted obligations
    lines = ['/- GENERATED by tools/harness/c17.py: the kind obligations of this run, decided by the kernel. -/',
             'import SkNet.Lemmas.KindsAssigned', 'import SkNet.Generated.KernelIR', '',
             'namespace SkNet.Generated.KernelObligations', 'open SkNet.IR SkNet.Generated.KernelIR', '']
    audit_names = []
    for k, ill, assigned in thms:
        ln = k['lean']
        lst = '[' + ', '.join(str(x) for x in ill) + ']'
        lines.append('theorem %s_checked : %s.checkWith %s = true := by decide' % (ln, ln, lst))
        lines.append('theorem %s_inbounds (inp : Inputs) (h : inp.satisfies %s.env = true) (orc : Nat → Nat → Int) '
                     '(fuel site : Nat)\n    (hr : exec fuel %s.body (inp.state orc) = .err (.oob site)) : site ∈ (%s : List Nat) :=\n'
                     '  kinds_sound_inputs %s %s %s_checked inp h orc fuel site hr' % (ln, ln, ln, lst, ln, lst, ln))
        audit_names.append(ln + '_inbounds')
        if assigned:
            lines.append('theorem %s_assigned : %s.assigned = true := by decide' % (ln, ln))
            lines.append('theorem %s_no_uninit (inp : Inputs) (hp : inp.provides %s.params = true) (orc : Nat → Nat → Int) '
                         '(fuel x : Nat) :\n    exec fuel %s.body (inp.state orc) ≠ .err (.uninit x) :=\n'
                         '  assigned_sound %s.params %s.body %s_assigned inp hp orc fuel x' % (ln, ln, ln, ln, ln, ln))
            audit_names.append(ln + '_no_uninit')
        if sat_ok.get(k['name']):
            lines.append('/-- the hypotheses of `%s_inbounds` are satisfiable: a concrete input built from the declarations -/' % ln)
            lines.append('theorem %s_satisfiable : (%s : Inputs).satisfies %s.env = true ∧\n    (%s : Inputs).provides %s.params = true := by decide'
                         % (ln, lean_inputs(*canon[k['name']]), ln, lean_inputs(*canon[k['name']]), ln))
        lines.append('')
    lines.append('end SkNet.Generated.KernelObligations')
    path = os.path.join(LEAN_DIR, 'SkNet', 'Generated', 'KernelObligations.lean')
    with open(path, 'w') as fh:
        fh.write('\n'.join(lines) + '\n')
    t_c = time.time()
    okb, out = core.lake_build(['SkNet.Generated.KernelObligations'])
    ctx.extra.setdefault('kinds_phases_s', {})['lake_build_obligations'] = round(time.time() - t_c, 1)
    if not okb:
        raise ToolFailure('generated obligations do not compile (driver said they hold):\n' + out[-3000:])
    aud = os.path.join(C17_CACHE, 'AuditGen.lean')
    with open(aud, 'w') as fh:
        fh.write('import SkNet.Generated.KernelObligations\n')
        for nm in audit_names:
            fh.write('#print axioms SkNet.Generated.KernelObligations.%s\n' % nm)
    t_c = time.time()
    rc, so, se = core.lean_file(aud)
    ctx.extra.setdefault('kinds_phases_s', {})['axiom_audit'] = round(time.time() - t_c, 1)
    import re
    found = re.findall(r"depends on axioms: \[([^\]]*)\]", (so + se).replace('\n', ' '))
    bad = [a.strip() for grp in found for a in grp.split(',') if a.strip() and a.strip() not in core.ALLOWED_AXIOMS]
    if rc != 0 or bad:
        raise ToolFailure('axiom audit of generated obligations failed: %s %s' % (bad, (so + se)[-1000:]))
    ctx.extra['generated_obligations'] = n_ob
    ctx.extra['generated_discharged'] = n_ok


# ================================================================================================
# supervised workers
# ================================================================================================
WALL_FACTOR = 6


class Worker:
    def __init__(self, root, tag, monitor=False, threads=2, ops=False):
        self.root = root
        self.monitor = monitor
        self.threads = threads
        self.ops = ops
        self.errpath = os.path.join(C17_CACHE, 'w_%d_%s.err' % (os.getpid(), tag))
        self.proc = None
        self.buf = b''

    def start(self):
        self.stop()
        env = dict(os.environ)
        env.pop('PYTHONPATH', None)
        # 2 threads in the stream (prange kernels run in parallel); 1 in the scaling probe (CPU time of a growth
        # measurement must not contain the spinning of idle BLAS / OpenMP threads on a loaded machine)
        for v in ('OMP_NUM_THREADS', 'OPENBLAS_NUM_THREADS', 'MKL_NUM_THREADS'):
            env[v] = str(self.threads)
        env['PYTHONFAULTHANDLER'] = '1'
        self.err = open(self.errpath, 'wb')
        cmd = [overlay.PY, '-u', WORKER, self.root] + (['monitor'] if self.monitor else []) + (['ops'] if self.ops else [])
        self.proc = subprocess.Popen(cmd, stdin=subprocess.PIPE, stdout=subprocess.PIPE, stderr=self.err, env=env)
        self.buf = b''
        r = self._read(120)
        if r is None or not r.get('ready'):
            raise ToolFailure('C17 worker failed to start: %r %s' % (r, self.err_tail()))

    def _read(self, limit):
        """One JSON line within `limit` seconds: dict, or 'timeout', or None when the process died."""
        fd = self.proc.stdout.fileno()
        end = time.time() + limit
        while b'\n' not in self.buf:
            left = end - time.time()
            if left <= 0:
                return 'timeout'
            r, _, _ = select.select([fd], [], [], min(left, 1.0))
            if r:
                chunk = os.read(fd, 65536)
                if not chunk:
                    return None
                self.buf += chunk
        line, self.buf = self.buf.split(b'\n', 1)
        return json.loads(line.decode())

    def run(self, task, limit):
        """`limit` is in CPU seconds of the worker process (user + system, all threads): the verdict does not depend
        on the load of the machine (review 2, M2).  A worker that has not used its CPU allowance after
        WALL_FACTOR x limit seconds of wall clock was starved (or blocked): status 'starved', a tool failure."""
        if self.proc is None or self.proc.poll() is not None:
            self.start()
        try:
            self.proc.stdin.write((json.dumps(task) + '\n').encode())
            self.proc.stdin.flush()
        except BrokenPipeError:
            self.start()
            self.proc.stdin.write((json.dumps(task) + '\n').encode())
            self.proc.stdin.flush()
        c0 = self._cpu()
        w0 = time.time()
        while True:
            r = self._read(0.25)
            if r != 'timeout':
                break
            used = self._cpu() - c0
            if used >= limit:
                self.stop()
                return {'id': task['id'], 'status': 'timeout', 'limit': limit, 'cpu_used_s': round(used, 2),
                        'wall_s': round(time.time() - w0, 1)}
            if time.time() - w0 >= WALL_FACTOR * limit:
                self.stop()
                return {'id': task['id'], 'status': 'starved', 'limit': limit, 'cpu_used_s': round(used, 2),
                        'wall_s': round(time.time() - w0, 1)}
        if r is None:
            rc = self.proc.wait()
            tail = self.err_tail()
            self.proc = None
            return {'id': task['id'], 'status': 'crash', 'rc': rc, 'stderr': tail}
        return r

    def _cpu(self):
        """CPU seconds (user + system, all threads) the worker process has used so far"""
        try:
            with open('/proc/%d/stat' % self.proc.pid) as fh:
                f = fh.read().rsplit(')', 1)[1].split()
            return (int(f[11]) + int(f[12])) / os.sysconf('SC_CLK_TCK')
        except Exception:
            return 0.0

    def err_tail(self):
        try:
            self.err.flush()
            with open(self.errpath, 'rb') as fh:
                data = fh.read().decode('utf8', 'replace')
            keep = [ln for ln in data.split('\n') if 'Assertion' in ln or 'Fatal Python error' in ln or 'Error' in ln]
            return (' | '.join(keep)[:700] or data[:400])
        except Exception:
            return ''

    def stop(self):
        if self.proc is not None:
            try:
                self.proc.kill()
                self.proc.wait(timeout=10)
            except Exception:
                pass
            self.proc = None
        try:
            self.err.close()
        except Exception:
            pass
        try:
            os.remove(self.errpath)
        except Exception:
            pass


FAIL_BUDGET = 2     # reports (with confirmation runs) per (algorithm, kind of failure) and pool


def run_pool(root, tasks, limit, nworkers, monitor=False, tag='p', known=None, checked_root=None):
    """Run tasks in supervised workers. Returns {id: answer}.  `limit`: CPU seconds per task.
    * a timeout or a crash is confirmed alone in a fresh worker (timeouts with twice the limit) before it is reported;
    * a crash that is not reproduced at once is tried in four more fresh processes, then once on the bounds-checked
      build (`checked_root`, a callable) — what remains unexplained is kept in the answer (`first_attempt`, `first_stderr`)
      and reported as a note by `judge`, never dropped (review 2, M1);
    * every task is run: after FAIL_BUDGET reports of one kind for one algorithm, further failures of that same kind are
      only counted (`similar`), without confirmation runs — other kinds of failure of that algorithm are still reported
      (review 2, M3);  failures that match a recorded known finding (`known(task, kind)`) are neither confirmed nor charged."""
    q = _queue.Queue()
    for t in tasks:
        q.put(t)
    results = {}
    lock = threading.Lock()
    charged = {}
    known = known or (lambda t, kind: False)

    def exhausted(t, kind):
        with lock:
            return charged.get((t['algo'], kind), 0) >= FAIL_BUDGET

    def fresh(k, suffix, t, lim, r_root=None, mon=None):
        w2 = Worker(r_root or root, '%s%d%s' % (tag, k, suffix), monitor if mon is None else mon)
        try:
            return w2.run(t, lim)
        finally:
            w2.stop()

    def loop(k):
        w = Worker(root, '%s%d' % (tag, k), monitor)
        try:
            while True:
                try:
                    t = q.get_nowait()
                except _queue.Empty:
                    break
                r = w.run(t, limit)
                st = r['status']
                if st in ('timeout', 'crash'):
                    if known(t, st):
                        r['confirmed'] = True
                        r['known'] = True
                    elif exhausted(t, st):
                        r['similar'] = True
                    else:
                        r2 = fresh(k, 'c', t, 2 * limit)
                        if r2['status'] in ('timeout', 'crash'):
                            r = r2
                            r['confirmed'] = True
                        elif r2['status'] == 'starved':
                            r = r2
                        elif st == 'crash':
                            # not reproduced at once: heap corruption after an out-of-bounds write is not deterministic;
                            # four more fresh processes, then the bounds-checked build, before the crash becomes a note
                            deaths, last = 1, None
                            for _ in range(4):
                                r3 = fresh(k, 'f', t, 2 * limit)
                                if r3['status'] == 'crash':
                                    deaths += 1
                                    last = r3
                            if deaths >= 2:
                                last['confirmed'] = True
                                last['flaky'] = '%d of 6 runs died' % deaths
                                r = last
                            else:
                                r2['first_attempt'] = 'crash'
                                r2['first_stderr'] = (r.get('stderr') or '')[:400]
                                r2['first_rc'] = r.get('rc')
                                croot = checked_root() if (checked_root is not None and t.get('flavour') != 'checked') else None
                                if croot:
                                    r4 = fresh(k, 'k', dict(t, flavour='checked'), 2 * limit, r_root=croot, mon=False)
                                    r2['checked_rerun'] = r4.get('status') + (':oob' if r4.get('oob') else '')
                                    if r4.get('status') == 'crash' or r4.get('oob'):
                                        r4['confirmed'] = True
                                        r4['on_checked_build'] = True
                                        r4['first_stderr'] = r2['first_stderr']
                                        r2 = r4
                                r = r2
                        else:
                            r2['first_attempt'] = 'timeout'
                            r2['first_cpu_s'] = r.get('cpu_used_s')
                            r = r2
                kind = r['status'] if r['status'] in ('timeout', 'crash') else ('oob' if r.get('oob') else None)
                if kind is not None and not r.get('known') and not r.get('similar'):
                    if kind == 'oob' and known(t, 'oob'):
                        r['known'] = True
                    elif kind == 'oob' and exhausted(t, 'oob'):
                        r['similar'] = True
                    else:
                        with lock:
                            charged[(t['algo'], kind)] = charged.get((t['algo'], kind), 0) + 1
                with lock:
                    results[t['id']] = r
        finally:
            w.stop()
    ths = [threading.Thread(target=loop, args=(k,)) for k in range(nworkers)]
    for th in ths:
        th.start()
    for th in ths:
        th.join()
    return results


# ================================================================================================
# the input stream
# ================================================================================================
def gdict(name, a, dtype='float'):
    a = sparse.csr_matrix(a)
    return {'name': name, 'n': int(a.shape[0]), 'm': int(a.shape[1]), 'indptr': [int(x) for x in a.indptr],
            'indices': [int(x) for x in a.indices],
            'data': [bool(x) if dtype == 'bool' else int(x) if dtype == 'int' else float(x) for x in a.data],
            'dtype': dtype}


def graph_props(g):
    if g.get('gen'):
        n = g['n']
        return {'n': n, 'nnz': 2 * n, 'directed': g['gen'] != 'ring_chords', 'square': True, 'nnz_lt_n': False,
                'max_index_ge_nnz': False, 'loops': False}
    n, m = g['n'], g['m']
    nnz = len(g['indices'])
    ent = set()
    for i in range(n):
        for p in range(g['indptr'][i], g['indptr'][i + 1]):
            ent.add((i, g['indices'][p]))
    sym = n == m and all((j, i) in ent for (i, j) in ent)
    return {'n': n, 'nnz': nnz, 'directed': not sym, 'square': n == m,
            'nnz_lt_n': nnz < n, 'max_index_ge_nnz': nnz > 0 and max(g['indices']) >= nnz,
            'loops': any(i == j for (i, j) in ent)}


def _csr(n, es, w=None, m=None):
    if w is None:
        return graphs.csr_from_edges(n, sorted(set(es)), None, m=m)
    d = {}
    for e, x in zip(es, w):         # the weight stays with its edge when the list is sorted
        d.setdefault(e, x)
    ks = sorted(d)
    return graphs.csr_from_edges(n, ks, [d[k] for k in ks], m=m)


def degenerate_graphs(rng):
    out = []

    def add(name, n, es, m=None, dtype='float', w=None):
        out.append(gdict(name, _csr(n, es, w, m), dtype))

    def und(es):
        return list(es) + [(j, i) for (i, j) in es if i != j]
    for n in (1, 2, 3, 5):
        add('empty%d' % n, n, [])
    for n in (2, 3, 6):
        add('one_arc%d' % n, n, [(0, 1)])
        add('one_edge%d' % n, n, und([(0, 1)]))
        add('last_edge%d' % n, n, und([(n - 2, n - 1)]))
    for n in (1, 2, 4):
        add('self_loop%d' % n, n, [(0, 0)])
        add('all_loops%d' % n, n, [(i, i) for i in range(n)])
    add('loop_and_edge4', 4, und([(1, 2)]) + [(1, 1)])
    for n in (3, 4, 5, 6):
        add('dicycle%d' % n, n, graphs.structured(rng, 'dicycle', n))
    for kind in ('path', 'star', 'cycle', 'clique', 'two_components', 'isolated'):
        for n in (4, 7):
            add('%s%d' % (kind, n), n, graphs.structured(rng, kind, n))
    add('clique5', 5, graphs.structured(rng, 'clique', 5))
    add('two_edges6', 6, und([(0, 1), (4, 5)]))
    add('sink_chain4', 4, [(0, 1), (1, 2), (2, 3)])
    add('in_star5', 5, [(i, 0) for i in range(1, 5)])
    add('out_star5', 5, [(0, i) for i in range(1, 5)])
    add('dag6', 6, graphs.structured(rng, 'dag', 6))
    add('sinks7', 7, graphs.structured(rng, 'sinks', 7))
    add('two_dicycles6', 6, [(0, 1), (1, 2), (2, 0), (3, 4), (4, 5), (5, 3)])
    add('mutual_pairs4', 4, [(0, 1), (1, 0), (2, 3), (3, 2)])
    # data variants
    es = graphs.structured(rng, 'path', 5)
    add('path5_bool', 5, es, dtype='bool')
    add('path5_int', 5, es, dtype='int', w=[rng.choice([1, 2, 3]) for _ in es])
    wsym = graphs.sym_weights(rng, es, [0.5, 1, 2, 4])
    add('path5_weighted', 5, es, w=wsym)
    g = gdict('star5_explicit_zero', _csr(5, graphs.structured(rng, 'star', 5)))
    g['data'][0] = 0.0
    g['data'][1] = 0.0
    out.append(g)
    a = graphs.unsorted_copy(_csr(6, graphs.structured(rng, 'clique', 6)), rng)
    out.append(gdict('clique6_unsorted', a))
    add('big_weights4', 4, und([(0, 1), (1, 2), (2, 3)]), w=[1e6, 1e6, 1e-6, 1e-6, 1.0, 1.0])
    # rectangular (biadjacency)
    add('rect_1x3_one', 1, [(0, 2)], m=3)
    add('rect_3x1_one', 3, [(1, 0)], m=1)
    add('rect_2x3_empty', 2, [], m=3)
    add('rect_3x4', 3, [(0, 0), (0, 1), (1, 1), (2, 3)], m=4)
    return out


def random_graphs(rng, count):
    out = []
    for c in range(count):
        weights = [[1, 1, 2, 3], [0.5, 1, 2, 4], [1e-6, 1, 1e6], [0.1, 0.2, 0.3, 0.7]][c % 4]
        for name, n, es, w in graphs.suite(rng, 1, 3, 12, kinds=[(graphs.UNDIRECTED_KINDS + graphs.DIRECTED_KINDS)[c % 14]],
                                           weights=weights):
            out.append(gdict(name + '_r%d' % len(out), _csr(n, es, w)))
    return out


ALGOS_SQUARE_ONLY = {'Betweenness', 'Closeness', 'get_core_decomposition', 'count_triangles', 'count_triangles_parallel',
                     'get_clustering_coefficient', 'count_cliques', 'count_cliques4', 'count_cliques2',
                     'color_weisfeiler_lehman', 'are_isomorphic', 'is_acyclic', 'get_cycles', 'break_cycles',
                     'breadth_first_search', 'get_dag', 'get_dag_index', 'Spring', 'ForceAtlas', 'GNNClassifier', 'Katz'}
ALL_ALGOS = ['Louvain', 'Leiden', 'PropagationClustering', 'KCenters', 'Paris', 'LouvainHierarchy', 'LouvainIteration',
             'PageRank', 'Katz', 'HITS', 'Closeness', 'Betweenness', 'Propagation', 'DiffusionClassifier',
             'PageRankClassifier', 'NNClassifier', 'Diffusion', 'Dirichlet', 'Spectral', 'SVD', 'GSVD', 'PCA',
             'RandomProjection', 'LouvainEmbedding', 'Spring', 'ForceAtlas', 'NNLinker', 'GNNClassifier',
             'get_core_decomposition', 'count_triangles', 'count_triangles_parallel', 'get_clustering_coefficient',
             'count_cliques', 'count_cliques4', 'count_cliques2', 'color_weisfeiler_lehman', 'are_isomorphic',
             'get_connected_components', 'get_largest_connected_component', 'is_bipartite', 'is_acyclic', 'get_cycles',
             'break_cycles', 'get_distances', 'get_shortest_path', 'breadth_first_search', 'get_dag', 'get_dag_index']
# algorithms that run compiled kernels: always on every degenerate graph
KERNEL_ALGOS = ['Louvain', 'Leiden', 'PropagationClustering', 'Paris', 'LouvainHierarchy', 'LouvainIteration', 'Propagation',
                'Betweenness', 'get_core_decomposition', 'count_triangles', 'count_triangles_parallel', 'count_cliques',
                'count_cliques4', 'color_weisfeiler_lehman', 'are_isomorphic', 'LouvainEmbedding', 'KCenters']
# boundary / non-default parameters
VARIANTS = {
    'PageRank': [{'solver': 'diteration'}, {'solver': 'push'}, {'solver': 'lanczos'}, {'solver': 'bicgstab'}, {'solver': 'RH'},
                 {'solver': 'diteration', 'n_iter': 0}, {'damping_factor': 0.0}],
    'Propagation': [{'n_iter': 0}, {'n_iter': 1}, {'node_order': 'decreasing'}, {'node_order': 'increasing'},
                    {'weighted': False}, {'n_iter': 3, 'weighted': False}],
    'PropagationClustering': [{'n_iter': 0}, {'weighted': False}, {'node_order': 'increasing'}],
    'Louvain': [{'resolution': 0}, {'resolution': 10}, {'modularity': 'newman'}, {'modularity': 'potts'},
                {'n_aggregations': 0}, {'tol_optimization': 0, 'tol_aggregation': 0}, {'shuffle_nodes': True}],
    'Leiden': [{'resolution': 0}, {'resolution': 10}, {'modularity': 'newman'}, {'tol_optimization': 0, 'tol_aggregation': 0}],
    'LouvainHierarchy': [{'resolution': 0}, {'tol_optimization': 0, 'tol_aggregation': 0}],
    'LouvainIteration': [{'depth': 1}, {'resolution': 0}],
    'Paris': [{'weights': 'uniform'}, {'reorder': False}],
    'KCenters': [{'n_clusters': 1}, {'n_clusters': 3, 'directed': True}],
    'Betweenness': [{'normalized': True}],
    'color_weisfeiler_lehman': [{'max_iter': 0}, {'max_iter': 1}],
    'Spectral': [{'n_components': 1}], 'SVD': [{'n_components': 1}],
    'DiffusionClassifier': [{'n_iter': 1}], 'Dirichlet': [{'n_iter': 1}], 'Diffusion': [{'n_iter': 1}],
}


def label_configs(rng, g):
    """Seed configurations for the classifiers (including the degenerate ones)."""
    n = g['n']
    cfgs = [None]
    if n >= 2:
        cfgs.append({'0': 0, '1': 1})
        cfgs.append({str(n - 1): 0})
        cfgs.append({'0': 5, str(n - 1): 5})
        cfgs.append({'0': 1000000, '1': 2000000})           # labels >= n
        cfgs.append({str(i): i % 2 for i in range(n)})       # every node a seed, alternating
        cfgs.append({str(i): i for i in range(n)})           # all distinct
        cfgs.append({'0': -1, '1': 0})
    return cfgs


def build_tasks(ctx, flavour, quick):
    rng = ctx.rng
    deg = degenerate_graphs(rng)
    rnd = random_graphs(rng, 10 if quick else 120)
    small = []
    if not quick:
        # every digraph (loops allowed) on 3 nodes, for the algorithms that enter compiled kernels
        for es in graphs.all_digraphs(3, loops=True):
            small.append(gdict('digraph3', _csr(3, es)))
    tasks = []

    def add(algo, g, extra=None):
        # rectangular inputs go to every algorithm: those that need a square matrix must refuse it with an exception
        if algo == 'get_cycles' and g['n'] > 7 and not g['name'].startswith('tournament'):
            return      # the number of simple cycles (the output) is exponential in dense graphs: not a hang
        t = {'id': len(tasks), 'algo': algo, 'graph': g, 'extra': extra or {}, 'flavour': flavour}
        tasks.append(t)
    for algo in ALL_ALGOS:
        pool_deg = deg if (algo in KERNEL_ALGOS or not quick) else rng.sample(deg, 14)
        pool_rnd = rnd if (algo in KERNEL_ALGOS or not quick) else rng.sample(rnd, 3)
        pool_small = small if algo in KERNEL_ALGOS else []
        for g in pool_deg + pool_rnd + pool_small:
            if algo in ('Propagation', 'DiffusionClassifier', 'PageRankClassifier', 'NNClassifier'):
                cfgs = label_configs(rng, g)
                if algo != 'Propagation' or quick:
                    cfgs = [cfgs[0]] + (rng.sample(cfgs[1:], min(2, len(cfgs) - 1)) if len(cfgs) > 1 else [])
                for c in cfgs:
                    add(algo, g, {'labels': c} if c is not None else {})
            else:
                add(algo, g)
        for params in VARIANTS.get(algo, []):
            sub = rng.sample(deg, 8 if quick else 25) + rng.sample(rnd, 2 if quick else 10)
            for g in sub:
                ex = {'params': params}
                if algo in ('Propagation',):
                    c = rng.choice(label_configs(rng, g))
                    if c is not None:
                        ex['labels'] = c
                add(algo, g, ex)
    for algo, g, ex in boundary_cases(rng, quick) + midrange_cases(rng, quick) + isomorphism_pairs(rng, quick):
        add(algo, g, ex)
    rng.shuffle(tasks)
    for i, t in enumerate(tasks):
        t['id'] = i
    return tasks


def weighted_ring_or_path(rng, n, weights, ring, loop):
    es, w = [], []
    for i in range(n - (0 if ring else 1)):
        x = rng.choice(weights)
        j = (i + 1) % n
        es += [(i, j), (j, i)]
        w += [x, x]
    if loop:
        k = rng.randrange(n)
        es.append((k, k))
        w.append(rng.choice(weights))
    order = sorted(range(len(es)), key=lambda k: es[k])
    return graphs.csr_from_edges(n, [es[k] for k in order], [w[k] for k in order])


TOL0_ALGOS = ['Louvain', 'Leiden', 'LouvainHierarchy', 'LouvainIteration', 'LouvainEmbedding']


def boundary_cases(rng, quick):
    """Boundary parameters where machine arithmetic bites (review H1, H2):
    * tolerance 0 of the modularity kernels on weighted paths / rings with 9..40 nodes (in float32 an exact tie can come
      out as a tiny positive gain: without a pass cap the nodes exchange their clusters for ever);
    * seeds whose label is huge (the vote buffer is indexed by label) or INT32_MAX."""
    out = []
    count = 60 if quick else 400
    for c in range(count):
        algo = TOL0_ALGOS[c % len(TOL0_ALGOS)]
        n = rng.randint(9, 40)
        weights = rng.choice([[1, 2, 3], [1, 1, 3], [0.5, 1, 2, 4]])
        a = weighted_ring_or_path(rng, n, weights, ring=rng.random() < 0.5, loop=rng.random() < 0.3)
        params = {'tol_optimization': 0}
        if rng.random() < 0.5:
            params['tol_aggregation'] = 0
        if rng.random() < 0.5:
            params['resolution'] = 0
        out.append((algo, gdict('tol0_%s%d' % ('w', n), a), {'params': params}))
    # the outer loops with tolerance 0 of the aggregation (small weighted / bipartite / directed inputs, several random
    # states: float32 noise reported as 'increase' by a round that merges nothing must not keep the loop alive);
    # measured on the tree before the repair F25: about one hang of Leiden in 1000 such cases, 5 ms per case.
    # Leiden in 5 cases of 8, the estimators built on Louvain.fit in the others (review 2, H4)
    agg0 = ['Leiden', 'Louvain', 'Leiden', 'LouvainHierarchy', 'Leiden', 'LouvainEmbedding', 'Leiden', 'LouvainIteration']
    for c in range(1500 if quick else 8000):
        algo = agg0[c % 8] if c % 16 != 15 else 'Leiden'
        n = rng.randint(6, 14)
        kind = c % 3
        if kind == 0:       # weighted: undirected, or symmetric pattern with one weight per arc (a directed input)
            es = graphs.random_edges(rng, n, rng.choice([0.3, 0.5, 0.7]), directed=False)
            ws = [0.25, 0.5, 1, 1.5, 2, 3]
            a = _csr(n, es, graphs.sym_weights(rng, es, ws) if c % 2 else [rng.choice(ws) for _ in es])
            ex = {}
        elif kind == 1:     # directed, boolean
            es = graphs.random_edges(rng, n, rng.choice([0.5, 0.7, 0.8]), directed=True)
            a = _csr(n, es)
            ex = {}
        else:               # square biadjacency, weighted
            es = graphs.random_edges(rng, n, rng.choice([0.25, 0.35]), directed=True, loops=True)
            a = _csr(n, es, [rng.choice([0.25, 0.5, 1, 1.5, 2, 3]) for _ in es])
            ex = {'force_bipartite': True}
        params = {'tol_aggregation': 0, 'random_state': rng.randrange(10 ** 6), 'resolution': rng.choice([0.5, 1, 2, 2])}
        if algo in ('Leiden', 'Louvain'):
            params['modularity'] = rng.choice(['dugue', 'newman', 'potts', 'potts'])
        if algo != 'Leiden':
            params['shuffle_nodes'] = rng.random() < 0.5
        if rng.random() < 0.15:
            params['tol_optimization'] = 0
        out.append((algo, gdict('%s_agg0_%d' % (algo.lower(), n), a, 'bool' if kind == 1 else 'float'), dict(ex, params=params)))
    rect = gdict('rect_3x4b', _csr(3, [(0, 0), (0, 1), (1, 1), (2, 3), (2, 2)], m=4))
    sq = gdict('path5b', _csr(5, graphs.structured(rng, 'path', 5)))
    for algo in ('Propagation', 'DiffusionClassifier', 'PageRankClassifier', 'NNClassifier'):
        out.append((algo, rect, {'labels_row': {'0': 0, '2': 1}}))
        out.append((algo, rect, {'labels_col': {'0': 0, '3': 1}}))
        out.append((algo, rect, {'labels_row': {'0': 5}, 'labels_col': {'1': 7}}))
        out.append((algo, sq, {'labels_vec': [-1, 0, -1, 1, -1]}))
        out.append((algo, sq, {'labels_vec': [-1, -1, -1, -1, -1]}))
        out.append((algo, sq, {'labels_vec': [3, 3, 3, 3, 3]}))
    # (only estimators whose fit takes force_bipartite: HITS and SVD do not — review 2, L1)
    for algo in ('Louvain', 'Leiden', 'Paris', 'PageRank', 'LouvainHierarchy', 'LouvainIteration', 'LouvainEmbedding',
                 'Spectral', 'KCenters'):
        out.append((algo, sq, {'force_bipartite': True}))
        out.append((algo, rect, {'force_bipartite': True}))
    path3 = gdict('path3', _csr(3, [(0, 1), (1, 0), (1, 2), (2, 1)]))
    path5 = gdict('path5', _csr(5, graphs.structured(rng, 'path', 5)))
    for g in (path3, path5):
        for lab in ({'0': 0, '2': 2 ** 31 - 1}, {'0': 2 ** 31 - 2}, {'0': 0, '1': 10 ** 8}, {'0': 3, '2': 4 * 10 ** 8},
                    {'0': 2 ** 31 - 1}):
            out.append(('Propagation', g, {'labels': lab}))
            out.append(('PropagationClustering', g, {}))
    return out


def known_oracle():
    """(task, kind) -> does the signature match a recorded *known* finding of C17?"""
    if 'findings' not in _STATE:
        _STATE['findings'] = core.load_findings()
    return lambda t, kind: core.match_finding(_STATE['findings'], 'C17', task_sig(t, kind)) is not None


def checked_root_or_none():
    """the bounds-checked overlay when it is built already (callable handed to run_pool)"""
    if 'checked_root' not in _STATE:
        try:
            _STATE['checked_root'] = overlay.sync('checked')[0] if checked_is_cheap() else None
        except Exception:
            _STATE['checked_root'] = None
    return _STATE['checked_root']


PRIME_CYCLES = (3, 4, 6, 8, 12, 14, 18, 20)      # lengths c with c - 1 prime: sweep period lcm(c_i - 1)


def disjoint_dicycles(lengths):
    es, off = [], 0
    for c in lengths:
        es += [(off + i, off + (i + 1) % c) for i in range(c)]
        off += c
    return off, es


def tournament(n, back):
    """the transitive tournament i -> j (i < j): n(n-1)/2 arcs, 2^(n-2) simple paths from 0 to n-1; with the arc n-1 -> 0
    the whole graph is one strong component"""
    return [(i, j) for i in range(n) for j in range(i + 1, n)] + ([(n - 1, 0)] if back else [])


def midrange_cases(rng, quick):
    """Between the toy stream (n <= 12) and the scaling probe (review 2, H1 / H2 / improvement 2):
    * disjoint directed cycles of lengths c_i with c_i - 1 prime, 20..85 nodes: the asynchronous sweep of Propagation has
      period lcm(c_i - 1) there — the number of sweeps must stay proportionate to the input all the same;
    * transitive tournaments on 16..24 nodes, with and without the back arc n-1 -> 0, for the cycle functions (polynomial
      output, exponentially many simple paths);
    * random graphs with 13..100 nodes (sparse directed / undirected, a denser weighted one) for every algorithm."""
    out = []
    for c in range(6 if quick else 40):
        if c == 0:
            lengths = [3, 4, 6, 8, 12, 14, 18]          # 65 nodes, period 510 510
        else:
            lengths = []
            for x in rng.sample(PRIME_CYCLES, len(PRIME_CYCLES)):
                if sum(lengths) + x <= 85 and rng.random() < 0.8:
                    lengths.append(x)
            if sum(lengths) < 20:
                lengths = [3, 4, 6, 8]
            lengths.sort()
        n, es = disjoint_dicycles(lengths)
        g = gdict('dicycles_' + '_'.join(map(str, lengths)), _csr(n, es))
        out.append(('Propagation', g, {}))
        out.append(('Propagation', g, {'labels': {'0': 0}}))
        if c % 3 == 0:
            out.append(('PropagationClustering', g, {}))
            out.append(('Propagation', g, {'params': {'node_order': 'decreasing'}}))
    for n in ((16, 24) if quick else (16, 20, 24)):
        for back in (True, False):
            g = gdict('tournament%d%s' % (n, '_back' if back else ''), _csr(n, tournament(n, back)))
            for algo in ('break_cycles', 'is_acyclic', 'get_distances', 'get_dag', 'get_connected_components'):
                if algo == 'break_cycles' and back and n > 16:
                    continue    # known finding F27 (2^n simple paths): its witness tournament22_back is in the corpus
                out.append((algo, g, {}))
            if not back:
                out.append(('get_cycles', g, {}))        # no cycle at all: the output is empty
    for c in range(3 if quick else 16):
        n = rng.randint(13, 100)
        kind = c % 3
        if kind == 0:
            es = graphs.random_edges(rng, n, rng.choice([2, 3, 5]) / n, directed=False)
            a, name = _csr(n, es), 'mid_und%d' % n
        elif kind == 1:
            es = graphs.random_edges(rng, n, rng.choice([2, 4, 8]) / n, directed=True, loops=rng.random() < 0.3)
            a, name = _csr(n, es), 'mid_dir%d' % n
        else:
            n = min(n, 40)
            es = graphs.random_edges(rng, n, 0.3, directed=False)
            a, name = _csr(n, es, graphs.sym_weights(rng, es, [0.5, 1, 2, 3])), 'mid_dense%d' % n
        g = gdict(name, a)
        for algo in ALL_ALGOS:
            if algo == 'get_cycles':
                continue        # the number of simple cycles (its output) is exponential here
            if algo == 'break_cycles' and kind != 0:
                continue        # known finding F27 (directed, or dense undirected: simple paths are enumerated);
                                # witnesses in the corpus; the sparse undirected graphs are run
            out.append((algo, g, {}))
    return out


def edges_graph(rng, n, k, name):
    """undirected simple graph with exactly k edges (2k stored entries) on n nodes"""
    slots = [(i, j) for i in range(n) for j in range(i + 1, n)]
    es = rng.sample(slots, k)
    return gdict(name, _csr(n, es + [(j, i) for (i, j) in es]))


def isomorphism_pairs(rng, quick):
    """are_isomorphic on PAIRS of graphs (seeded change C17r3): equal numbers of stored entries with different node
    counts in both orders (the buffers of the kernel are sized by one graph and swept by the other), equal node counts
    with different edges, different entry counts; a few large differences (50 against 1 500 / 30 000 nodes) that turn a
    missing guard into a crash of the plain build."""
    out = []

    def both(g1, g2, ex=None):
        out.append(('are_isomorphic_pair', g1, dict(ex or {}, graph2=g2)))
        out.append(('are_isomorphic_pair', g2, dict(ex or {}, graph2=g1)))
    k4 = gdict('K4', _csr(4, graphs.structured(rng, 'clique', 4)))
    house = gdict('house', _csr(5, [(0, 1), (0, 4), (1, 2), (1, 4), (2, 3), (3, 4)] +
                                [(1, 0), (4, 0), (2, 1), (4, 1), (3, 2), (4, 3)]))
    both(k4, house)
    for c in range(12 if quick else 80):
        n1 = rng.randint(3, 11)
        n2 = n1 + rng.randint(1, 6) if c % 4 else n1
        k = rng.randint(1, n1 * (n1 - 1) // 2)
        g1 = edges_graph(rng, n1, k, 'iso_a%d_%d' % (n1, k))
        k2 = k if c % 5 else min(k + 1, n2 * (n2 - 1) // 2)
        g2 = edges_graph(rng, n2, k2, 'iso_b%d_%d' % (n2, k2))
        both(g1, g2, {'params': {'max_iter': rng.choice([-1, 1, 3])}} if c % 3 == 0 else None)
    g50 = edges_graph(rng, 50, 1000, 'iso_50_1000')
    for n2 in ((1500, 30000) if quick else (60, 400, 1500, 8000, 30000)):
        chosen = set()
        while len(chosen) < 1000:           # exactly as many edges as g50
            i, j = rng.randrange(n2), rng.randrange(n2)
            if i != j:
                chosen.add((min(i, j), max(i, j)))
        es = sorted(chosen)
        both(g50, gdict('iso_%d_1000' % n2, _csr(n2, es + [(j, i) for (i, j) in es])))
    return out


def task_sig(t, kind):
    p = graph_props(t['graph'])
    lab = (t.get('extra') or {}).get('labels')
    labels_ge_n = bool(lab) and any(int(v) >= p['n'] for v in lab.values())
    params = (t.get('extra') or {}).get('params') or {}
    sig = {'entry': t['algo'], 'kind': kind, 'directed': p['directed'], 'max_index_ge_nnz': p['max_index_ge_nnz'],
           'labels_ge_n': labels_ge_n, 'tol_optimization_zero': params.get('tol_optimization', 1) == 0,
           'label_ge_1e8': bool(lab) and any(int(v) >= 10 ** 8 for v in lab.values()),
           'tol_aggregation_zero': params.get('tol_aggregation', 1) == 0,
           'solver': params.get('solver'), 'n_ge_16': p['n'] >= 16}
    if kind == 'scaling':
        sig['family'] = t['graph'].get('gen')
    g2 = (t.get('extra') or {}).get('graph2')
    if g2 is not None:
        sig['pair_node_counts_differ'] = g2['n'] != p['n']
        sig['pair_equal_nnz'] = len(g2['indices']) == p['nnz']
    return sig


def judge(ctx, tasks, results, flavour):
    """Turn worker answers into spec failures. Property: returns or raises a Python exception within the limit; in the
    checked build no bounds check fires and no libstdc++ assertion aborts."""
    for t in tasks:
        r = results.get(t['id'])
        if r is None:
            raise ToolFailure('no answer for task %r' % t['id'])
        st = r['status']
        p = graph_props(t['graph'])
        key = (flavour, t['algo'], json.dumps(t['extra'], sort_keys=True), t['graph']['name'], tuple(t['graph'].get('indices') or [t['graph'].get('seed')]),
               tuple(t['graph'].get('indptr') or [t['graph']['n']]))
        kind = None
        ctx.case(key, p['nnz'] > 0, sample={'request': '%s %s on %s (%s build)' % (t['algo'], str(t['extra'])[:300], t['graph']['name'], flavour),
                                            'model': 'returns or raises within the limit; no bounds violation',
                                            'impl': {k: r.get(k) for k in ('status', 'exc', 'wall', 'out')}})
        ctx.count('%s:%s' % (flavour, st if st != 'exc' else 'raises:' + str(r.get('exc'))))
        ctx.count('entry:' + t['algo'])
        if r.get('similar'):
            # more failures of a kind already reported twice for this algorithm in this pool: counted, not reported
            ctx.count('%s:similar-%s' % (flavour, 'oob' if r.get('oob') and st not in ('timeout', 'crash') else st))
            continue
        if st == 'timeout':
            kind = 'timeout'        # the limit is CPU time: independent of the load of the machine (review 2, M2)
        elif st == 'starved':
            ctx.count('%s:starved' % flavour)
            _STATE.setdefault('starved', []).append('%s on %s: %.1f s of CPU in %.0f s of wall clock (limit %s s CPU)' % (
                t['algo'], t['graph']['name'], r.get('cpu_used_s', 0), r.get('wall_s', 0), r.get('limit')))
        elif st == 'crash':
            kind = 'crash'          # run_pool only leaves confirmed crashes with this status
        elif r.get('oob'):
            kind = 'oob'
        if r.get('first_attempt') == 'crash' and kind is None:
            ctx.count('%s:first-attempt-crash-not-reproduced' % flavour)
            ctx.note('a worker died on %s %s on %s (%s build), rc %s, and 5 fresh runs%s passed: stderr %r' % (
                t['algo'], json.dumps(t['extra'], sort_keys=True)[:200], t['graph']['name'], flavour, r.get('first_rc'),
                (' + 1 on the bounds-checked build (%s)' % r['checked_rerun']) if r.get('checked_rerun') else '',
                r.get('first_stderr')))
        elif r.get('first_attempt') == 'timeout':
            ctx.count('%s:first-attempt-timeout-not-reproduced' % flavour)
        if kind is not None:
            detail = {'worker_answer': {k: v for k, v in r.items() if k != 'calls'}, 'build': flavour,
                      'property': 'returns or raises a Python exception within the time limit; stays within its buffers'}
            ctx.spec_fail(task_sig(t, kind), {'task': {k: t[k] for k in ('algo', 'graph', 'extra', 'flavour')}}, detail)


def contract_lines(ctx, tasks, results):
    """`Inputs.satisfies` of the Lean model on the arguments the kernels were really entered with."""
    desc = {k['name']: k for k in _STATE['desc']['kernels']}
    lines, meta = [], []
    seen = set()
    for t in tasks:
        r = results.get(t['id']) or {}
        for c in r.get('calls') or []:
            k = desc.get(c['kernel'])
            if k is None:
                continue
            if 'monitor_error' in c:
                raise ToolFailure('kernel monitor failed: %r' % c)
            # name the recorded arguments with the parameter list of the current source
            c['args'] = dict(zip(k.get('params', []), c.get('pos', [])))
            c['args'].update(c.get('kw', {}))
            enc = encode_inputs(k, c['args'])
            if enc is None:
                ctx.count('contract:skipped-unencodable')
                continue
            line = 'c17.sat %s %s' % (k['name'], enc)
            if line in seen:
                continue
            seen.add(line)
            lines.append(line)
            meta.append((t, c))
    # weisfeiler_lehman_coloring: `powers[labels[j]]` is the one fixed-array site of this kernel the kinds cannot type
    # (covered on the model by wl_colours_in_range); on the recorded arguments the colours handed in must index `powers`
    # and both buffers must cover the graph that is swept (seeded change C17r3)
    for t in tasks:
        for c in (results.get(t['id']) or {}).get('calls') or []:
            if c.get('kernel') != 'weisfeiler_lehman_coloring' or 'args' not in c:
                continue
            a = c['args']
            try:
                n = a['indptr']['len'] - 1
                nl, npow = a['labels']['len'], a['powers']['len']
                ints = a['labels'].get('ints')
            except (KeyError, TypeError):
                ctx.count('contract:skipped-unencodable')
                continue
            bad = None
            if nl < n or npow < n:
                bad = 'buffers shorter than the graph: n = %d, len(labels) = %d, len(powers) = %d' % (n, nl, npow)
            elif ints is not None and ints and (min(ints) < 0 or max(ints) >= npow):
                bad = 'a colour outside powers: min %d, max %d, len(powers) = %d' % (min(ints), max(ints), npow)
            ctx.count('contract:wl-buffers')
            if bad:
                sig = task_sig(t, 'contract')
                sig['kernel'] = 'weisfeiler_lehman_coloring'
                sig['violated'] = 'wl-buffers'
                ctx.spec_fail(sig, {'task': {k2: t[k2] for k2 in ('algo', 'graph', 'extra', 'flavour')}},
                              {'what': 'weisfeiler_lehman_coloring was entered with ' + bad +
                                       ' (the kernel writes labels[i] for every i < n and reads powers[labels[j]])'})
                break
    answers = ctx.lean(lines) if lines else []
    # the translated kernels are *run* (step-bounded interpreter, pseudo-random oracles) on arguments the real kernels
    # were entered with: no read of an unassigned variable, no out-of-bounds access at a kinded site (review M4)
    waivers = load_waivers()
    report = _STATE.get('kind_report', {})
    per, ex_lines, ex_kern = {}, [], []
    for (t, c), ln in zip(meta, lines):
        kn = c['kernel']
        k = desc[kn]
        if per.get(kn, 0) >= 6 or not all('int' in c['args'].get(pn, {}) for pn in k.get('int_params', [])):
            continue
        per[kn] = per.get(kn, 0) + 1
        for seed in (0, 1):
            ex_lines.append('c17.exec ' + ln[len('c17.sat '):] + ' 3000 %d' % seed)
            ex_kern.append(kn)
    for kn, ln, e in zip(ex_kern, ex_lines, ctx.lean(ex_lines) if ex_lines else []):
        ctx.count('ir_exec_recorded:' + e.split(' ')[0])
        if e.startswith('uninit'):
            if e.split(' ')[1] not in waivers.get(kn, {}).get('unassigned', []):
                ctx.broken('ir_exec:' + kn, {'what': 'the IR run on recorded arguments reads an unassigned variable',
                                             'answer': e, 'line': ln[:600]},
                           sig={'obligation': 'ir_exec', 'kernel': kn, 'answer': 'uninit'})
        elif e.startswith('oob'):
            site = desc[kn]['sites'][int(e.split(' ')[1])]['text']
            if site not in {w['site'] for w in report.get(kn, {}).get('waived', []) + report.get(kn, {}).get('unexpected', [])}:
                raise ToolFailure('IR run out of bounds at a kinded site (contradicts kinds_sound): %s %s' % (kn, e))
        elif e.split(' ')[0] not in ('ok', 'done', 'out'):
            raise ToolFailure('c17.exec -> %r for %r' % (e, ln[:200]))
    for (t, c), line, ans in zip(meta, lines, answers):
        ctx.case(('sat', line), True, sample={'request': line[:300], 'model': ans, 'impl': 'arguments of ' + c['kernel']})
        ctx.count('contract:' + c['kernel'])
        if ans == 'bad-args':
            raise ToolFailure('driver rejected %r' % line[:200])
        if ans != 'holds':
            sig = task_sig(t, 'contract')
            sig['kernel'] = c['kernel']
            sig['violated'] = ans
            ctx.spec_fail(sig, {'task': {k2: t[k2] for k2 in ('algo', 'graph', 'extra', 'flavour')}},
                          {'contract_line': line[:2000], 'answer': ans,
                           'what': 'the kernel was entered with arguments outside the declared shapes/kinds '
                                   '(under which alone it is proved to stay in bounds)'})


def encode_inputs(k, args):
    """Worker-recorded arguments -> `dims scalars arrays` tokens for the kernel `k` (None if not encodable)."""
    dims = {}
    arrs = []
    info = k['array_info']
    # dimension symbols from the arrays that define them
    for nm, a in args.items():
        if nm in info and info[nm]['size'] is not None and 'len' in a:
            d, off = info[nm]['size']
            if d not in dims and nm in ('indptr', 'indices', 'labels', 'index', 'fluid', 'labels_refined', 'cluster_weights'):
                pass
    def setdim(d, v):
        dims.setdefault(d, v)
    if 'indptr' in args:
        setdim('n', args['indptr']['len'] - 1)
    if 'indices' in args:
        setdim('nnz', args['indices']['len'])
    if 'index' in args:
        setdim('m', args['index']['len'])
    if 'cluster_weights' in args and 'L' in k['dims']:
        setdim('L', args['cluster_weights']['len'])
    dl = [0]
    for d in k['dims'][1:]:
        if d not in dims:
            return None
        dl.append(dims[d])
    sc = []
    for nm, a in args.items():
        if 'int' in a and nm in k['vars']:
            sc.append('%d,%d' % (k['vars'].index(nm), a['int']))
    for nm, a in args.items():
        if 'len' in a and nm in k['arrays']:
            i = k['arrays'].index(nm)
            if a.get('ints') is not None and not info[nm]['float']:
                arrs.append('%d=%s' % (i, enc_list(a['ints'])))
            else:
                arrs.append('%d=#%d' % (i, a['len']))
    for nm in k['arrays']:
        # arrays the kernel allocates itself (np.zeros(n), argsort ...): the declared number of cells, zeros
        if nm not in args and info[nm]['static'] and info[nm]['size'] is not None:
            d, off = info[nm]['size']
            arrs.append('%d=#%d' % (k['arrays'].index(nm), max(0, dl[k['dims'].index(d)] + off)))
    return '%s %s %s' % (enc_list(dl), ';'.join(sc) if sc else '-', '|'.join(arrs) if arrs else '-')


# ================================================================================================
# run / search / replay
# ================================================================================================
def _nworkers():
    return 12


def stream(ctx, flavour, quick, monitor):
    root = ctx.overlay_root
    if flavour == 'checked':
        root, info = overlay.sync('checked')
        ctx.extra['checked_overlay'] = info if len(str(info)) < 600 else {'built': info.get('built'), 'wall_s': info.get('wall_s')}
    tasks = build_tasks(ctx, flavour, quick)
    limit = 6 if quick else 20
    t0 = time.time()
    results = run_pool(root, tasks, limit, _nworkers(), monitor=monitor, tag=flavour[0], known=known_oracle(),
                       checked_root=checked_root_or_none if flavour == 'plain' else None)
    ctx.extra['stream_' + flavour] = {'tasks': len(tasks), 'wall_s': round(time.time() - t0, 1), 'limit_s': limit}
    judge(ctx, tasks, results, flavour)
    if monitor:
        contract_lines(ctx, tasks, results)
    return tasks, results


# ---- 'within time proportionate to the input': growth of the CPU time, per algorithm, against a declared class ---------
# History: the first probe had a 1 s floor under which nothing was tested and stopped at 2000 nodes (review 2, H3); the
# second trusted baselines of 0.05 s and reported a x57 of GSVD that was ARPACK needing 1638 operator applications on one
# instance and 125 on the next size (thorough seed 62: a false alarm).  Rules now:
#  * sizes double from 500 nodes until a run costs SCALING_BASE_S of CPU (single-threaded worker): that run is the baseline;
#    no baseline within the size limit = not tested (counted);
#  * class 'lin' (n + m up to log factors): t(4n) / t(n) <= 10 (exponent 1.66; measured 3.5 .. 7.7);
#    class 'quad' (n * m: one traversal per node, pairwise forces, brute-force similarities, break_cycles' path copies:
#    finding F27): t(2n) / t(n) <= 6.3 (exponent 2.66; measured 3.5 .. 4.8);
#    class 'eig' (ARPACK behind it: Spectral, SVD, GSVD, PCA, HITS): the number of operator applications ARPACK asks for
#    depends on the spectrum of the instance, not on its size (125 / 1638 / 125 for GSVD on 8 000 / 32 000 / 128 000 nodes);
#    judged is the CPU time PER APPLICATION (counted in the worker), as 'lin'; the number of applications is not judged;
#  * an excess is a *suspect*.  It is reported as a failing input only if it holds (a) on a second measurement of the same
#    graphs, (b) on another graph of the family (other seed) at the same sizes, (c) on a second pair of sizes (2n -> 8n,
#    resp. 2n -> 4n; a run over the CPU limit counts with the limit as its time) and (d) the machine is quiet (1-minute load
#    below the number of cores).  (a)-(c) hold but the machine is loaded: tool failure (no verdict).  Otherwise: a note.
SCALING_CLASS = {'Betweenness': 'quad', 'Closeness': 'quad', 'Spring': 'quad', 'ForceAtlas': 'quad', 'break_cycles': 'quad',
                 'NNLinker': 'quad',
                 'Spectral': 'eig', 'SVD': 'eig', 'GSVD': 'eig', 'PCA': 'eig', 'HITS': 'eig'}
SCALING_SPAN = {'lin': 4, 'eig': 4, 'quad': 2}
SCALING_RATIO = {'lin': 10.0, 'eig': 10.0, 'quad': 6.3}
# not probed: get_cycles (its output is exponential on these families); break_cycles on the directed family (finding F27)
SCALING_ALGOS = [a for a in ALL_ALGOS if a not in ('get_cycles',)]
SCALING_DIRECTED = ['Propagation', 'PropagationClustering', 'PageRank', 'Louvain', 'Leiden', 'Paris', 'KCenters', 'Katz',
                    'get_distances', 'get_shortest_path', 'breadth_first_search', 'get_dag', 'get_dag_index', 'is_acyclic',
                    'get_connected_components', 'Betweenness', 'Closeness', 'DiffusionClassifier', 'Diffusion', 'Dirichlet',
                    'color_weisfeiler_lehman', 'HITS', 'LouvainHierarchy', 'count_triangles', 'get_core_decomposition',
                    'SVD', 'Spectral']
SCALING_BASE_S = 0.5            # CPU seconds the smaller run of a judged pair must cost
SCALING_START = 500
SCALING_LIMIT_S = 90            # CPU seconds allowed for one run of the probe
SCALING_CONFIRM_LIMIT_S = 240   # ... for the runs that confirm a suspect


def scaling_nmax(ctx):
    """largest size of a judged pair"""
    return 32000 if ctx.quick else 512000


def probe_one(w, algo, family, seed, nmax):
    """-> (row, verdict) with row = {n: judged value, ...} and verdict None | 'untested' | ('suspect' | 'confirmed', text) |
    ('failed', task, answer) for a crash."""
    cls = SCALING_CLASS.get(algo, 'lin')
    span, allowed = SCALING_SPAN[cls], SCALING_RATIO[cls]
    row = {'class': cls}

    def task(n, sd):
        return {'id': 0, 'algo': algo, 'graph': {'gen': family, 'n': n, 'seed': sd, 'name': '%s%d' % (family, n), 'm': n},
                'extra': {}, 'flavour': 'plain'}

    class Dead(Exception):
        pass

    def run(n, sd=seed, limit=SCALING_LIMIT_S):
        """(cpu, judged value); a run over the limit counts with the limit"""
        r = w.run(task(n, sd), limit)
        if r.get('status') == 'timeout':
            return float(limit), float(limit)
        if r.get('status') not in ('ok', 'exc'):
            raise Dead((task(n, sd), r))
        if r.get('status') == 'exc':
            row['exc'] = r.get('exc')
        cpu = r['cpu']
        val = cpu / max(1, r.get('ops') or 1) if cls == 'eig' else cpu
        return cpu, val

    def ratio(n, sd=seed, limit=SCALING_LIMIT_S, store=None):
        c1, v1 = run(n, sd, limit)
        c2, v2 = run(span * n, sd, limit)
        if store is not None:
            store['%d' % n] = round(v1, 6)
            store['%d' % (span * n)] = round(v2, 6)
        return (v2 / v1) if v1 > 0 else 0.0
    try:
        n = SCALING_START
        while True:
            cpu, val = run(n)
            row[n] = round(val, 6)
            if cpu >= SCALING_BASE_S or span * 2 * n > nmax:
                break
            n *= 2
        if cpu < SCALING_BASE_S:
            return row, 'untested'
        c2, v2 = run(span * n)
        row[span * n] = round(v2, 6)
        r1 = v2 / val if val > 0 else 0.0
        row['ratio'] = round(r1, 2)
        row['pair'] = [n, span * n]
        if r1 <= allowed:
            return row, None
        # suspect: (a) same graphs again, (b) another graph of the family, (c) a second pair of sizes
        conf = {}
        conf['again'] = round(ratio(n, limit=SCALING_CONFIRM_LIMIT_S), 2)
        conf['other_seed'] = round(ratio(n, sd=seed + 7919, limit=SCALING_CONFIRM_LIMIT_S), 2)
        conf['second_pair'] = round(ratio(2 * n, limit=SCALING_CONFIRM_LIMIT_S), 2)
        conf['loadavg'] = round(os.getloadavg()[0], 1)
        row['confirmations'] = conf
        text = 'cost x%.1f from %d to %d nodes (allowed x%.1f for x%d nodes, class %s); again x%.1f, other graph x%.1f, ' \
               '%d -> %d nodes x%.1f; load %.1f on %d cores' % (r1, n, span * n, allowed, span, cls, conf['again'],
                                                                 conf['other_seed'], 2 * n, 2 * n * span, conf['second_pair'],
                                                                 conf['loadavg'], os.cpu_count() or 1)
        if min(conf['again'], conf['other_seed'], conf['second_pair']) > allowed:
            return row, ('confirmed', text)
        return row, ('suspect', text)
    except Dead as e:
        return row, ('failed',) + e.args[0]


def scaling_probe(ctx, algos=None, families=None):
    """CPU time of every stream algorithm on sparse graphs (average degree 4) of growing size: an undirected family (ring +
    random chords: expander-like, no shrinking spectral gap) for all of them, a directed family (directed ring + random
    arcs) for those that treat directed inputs in their own way.  See the rules above."""
    rng = ctx.rng
    seed = rng.randrange(10 ** 6)
    jobs = []
    for algo in (algos or SCALING_ALGOS):
        for fam in (families or ['ring_chords', 'diring_chords']):
            if fam == 'diring_chords' and algos is None and algo not in SCALING_DIRECTED:
                continue
            if fam == 'diring_chords' and algo == 'break_cycles':
                continue
            if ctx.quick and algos is None and fam == 'diring_chords' and rng.random() < 0.5:
                continue            # quick tier: half of the directed probes per run (the seed chooses)
            jobs.append((algo, fam))
    nmax = scaling_nmax(ctx)
    q = _queue.Queue()
    for j in jobs:
        q.put(j)
    table, verdicts, lock = {}, {}, threading.Lock()

    def loop(k):
        w = Worker(ctx.overlay_root, 'z%d' % k, False, threads=1, ops=True)
        try:
            while True:
                try:
                    algo, fam = q.get_nowait()
                except _queue.Empty:
                    return
                row, verdict = probe_one(w, algo, fam, seed, nmax)
                with lock:
                    table['%s/%s' % (algo, fam)] = row
                    verdicts['%s/%s' % (algo, fam)] = verdict
        finally:
            w.stop()
    ths = [threading.Thread(target=loop, args=(k,)) for k in range(8)]
    for th in ths:
        th.start()
    for th in ths:
        th.join()
    ctx.extra.setdefault('scaling', {}).update({k: {str(n): v for n, v in row.items()} for k, row in table.items()})
    loaded = []
    for key in sorted(table):
        algo, fam = key.split('/')
        row, verdict = table[key], verdicts[key]
        ctx.case(('scaling', key, row.get('ratio')), True)
        if verdict is None:
            ctx.count('scaling:ok')
        elif verdict == 'untested':
            ctx.count('scaling:untested(no run of %.1f s within the size limit)' % SCALING_BASE_S)
        elif verdict[0] == 'failed':
            t, r = verdict[1], verdict[2]
            judge(ctx, [dict(t, id=0)], {0: dict(r, id=0, confirmed=True)}, 'plain')
        elif verdict[0] == 'suspect':
            ctx.count('scaling:suspect-not-confirmed')
            ctx.note('scaling probe, not confirmed by the re-measurements (no verdict): %s on %s: %s' % (algo, fam, verdict[1]))
        else:
            big = row['pair'][1]
            t = {'algo': algo, 'graph': {'gen': fam, 'n': big, 'seed': seed, 'name': '%s%d' % (fam, big), 'm': big},
                 'extra': {}, 'flavour': 'plain'}
            quiet = row['confirmations']['loadavg'] < (os.cpu_count() or 1)
            if quiet or known_oracle()(t, 'scaling'):
                ctx.count('scaling:SUPERLINEAR')
                ctx.spec_fail(task_sig(t, 'scaling'), {'task': t},
                              {'what': 'time not proportionate to the input', 'why': verdict[1],
                               'values': {str(n): v for n, v in row.items()}})
            else:
                ctx.count('scaling:confirmed-on-a-loaded-machine')
                loaded.append('%s on %s: %s' % (algo, fam, verdict[1]))
    ctx.extra['scaling_pairs_tested'] = ctx.extra.get('scaling_pairs_tested', 0) + sum(1 for r in table.values() if 'ratio' in r)
    if loaded:
        _STATE.setdefault('loaded', []).extend(loaded)


def run_corpus(ctx):
    p = os.path.join(VERIF, 'corpus', 'C17.jsonl')
    if not os.path.exists(p):
        return
    tasks = []
    for ln in open(p):
        ln = ln.strip()
        if ln and not ln.startswith('#'):
            t = json.loads(ln)
            t['id'] = len(tasks)
            tasks.append(t)
    for flavour in ('plain', 'checked'):
        ts = [dict(t, flavour=flavour) for t in tasks]
        if not ts:
            continue
        root = ctx.overlay_root if flavour == 'plain' else overlay.sync('checked')[0]
        res = run_pool(root, ts, 8, min(6, len(ts)), tag='c' + flavour[0], known=known_oracle())
        judge(ctx, ts, res, flavour)
        ctx.count('corpus:%s' % flavour, len(ts))


def checked_is_cheap():
    """Is the bounds-checked overlay of this tree (nearly) built already? (quick tier uses it only then)"""
    try:
        root = os.path.join(CACHE, 'overlay_checked')
        return os.path.isdir(os.path.join(root, 'sknetwork'))
    except Exception:
        return False


def run(ctx):
    _lock()
    os.makedirs(C17_CACHE, exist_ok=True)
    phases = {}

    def timed(name, f, *a, **k):
        t0 = time.time()
        r = f(*a, **k)
        phases[name] = round(time.time() - t0, 1)
        return r
    phases['before_run(sync+generate+build+audit)'] = round(time.time() - ctx.t0, 1)
    timed('kinds', kind_obligations, ctx)
    timed('corpus', run_corpus, ctx)
    timed('kernel_models', kernel_model_cases, ctx)
    timed('scaling', scaling_probe, ctx)
    timed('stream_plain', stream, ctx, 'plain', ctx.quick, monitor=True)
    timed('stream_checked', stream, ctx, 'checked', ctx.quick, monitor=False)
    ctx.extra['phases_s'] = phases
    raise_if_starved()


def raise_if_starved():
    """A worker that could not use its CPU allowance within WALL_FACTOR x the limit: no verdict on that task (review 2, L4:
    also in replay and search)."""
    if _STATE.get('starved'):
        raise ToolFailure('workers were starved of CPU (or blocked without using CPU): %s' % _STATE['starved'][:3])
    if _STATE.get('loaded'):
        raise ToolFailure('scaling probe: an excess was confirmed by every re-measurement but the machine is loaded — no '
                          'verdict, run again on a quiet machine: %s' % _STATE['loaded'][:3])


def _as_csr(g):
    dt = {'float': float, 'bool': bool, 'int': int}[g.get('dtype', 'float')]
    return sparse.csr_matrix((np.array(g['data'], dtype=dt), np.array(g['indices'], dtype=np.int32),
                              np.array(g['indptr'], dtype=np.int32)), shape=(g['n'], g['m']))


def core_cases(ctx, graphs_):
    """compute_core: the checked model (SkNet/Model/KernelsHeap.lean, theorem inbounds_core) against the kernel,
    which runs in supervised workers (a mutated kernel must not take the harness down)."""
    tasks = []
    for g in graphs_:
        if g['n'] != g['m']:
            continue
        tasks.append({'id': len(tasks), 'algo': 'get_core_decomposition', 'graph': g, 'extra': {'want_value': True},
                      'flavour': 'plain'})
    res = run_pool(ctx.overlay_root, tasks, 10, _nworkers(), tag='k', known=known_oracle())
    judge(ctx, tasks, res, 'plain')
    cases = []
    for t in tasks:
        r = res[t['id']]
        g = t['graph']
        if r['status'] == 'ok' and 'value' in r:
            impl = 'ok ' + enc_list(r['value'])
        elif r['status'] == 'exc':
            impl = 'err ' + str(r.get('exc'))
        else:
            continue            # timeout / crash / skipped: already judged
        run = 'c17.core %s %s' % (enc_list(g['indptr']), enc_list(g['indices']))
        cases.append(Case(('core', run), {'entry': 'get_core_decomposition', 'kind': 'model'}, run, impl, None,
                          len(g['indices']) > 0, {'task': {'algo': 'get_core_decomposition', 'graph': g, 'extra': {},
                                                           'flavour': 'plain'}}))
    return cases


def vote_cases(ctx, graphs_, fixed=None):
    """vote_update: the checked model (SkNet/Model/KernelsVote.lean, theorem inbounds_vote) against the kernel."""
    rng = ctx.rng
    tasks = []
    for g in graphs_:
        n = g['n']
        if n != g['m'] or n == 0:
            continue
        if fixed is not None:
            tasks.append({'id': len(tasks), 'algo': 'vote_update_kernel', 'graph': g, 'extra': fixed, 'flavour': 'plain'})
            continue
        g2 = dict(g, dtype='float', data=[float(rng.choice([1, 1, 2, 3])) for _ in g['indices']])
        for _ in range(2):
            pool = [-1, -1, 0, 1, 2, n, n + 3, rng.randint(0, 12)]
            labels = [rng.choice(pool) for _ in range(n)]
            index = [i for i in range(n) if rng.random() < 0.7]
            rng.shuffle(index)
            tasks.append({'id': len(tasks), 'algo': 'vote_update_kernel', 'graph': g2,
                          'extra': {'labels_vec': labels, 'index': index}, 'flavour': 'plain'})
    res = run_pool(ctx.overlay_root, tasks, 10, _nworkers(), tag='v', known=known_oracle())
    judge(ctx, tasks, res, 'plain')
    cases = []
    for t in tasks:
        r = res[t['id']]
        g = t['graph']
        if r['status'] == 'ok' and 'value' in r:
            impl = 'ok ' + enc_list(r['value'])
        elif r['status'] == 'exc':
            impl = 'err ' + str(r.get('exc'))
        else:
            continue
        run = 'c17.vote %d %s %s %s %s %s' % (g['n'], enc_list(g['indptr']), enc_list(g['indices']),
                                              enc_list(int(x) for x in g['data']), enc_list(t['extra']['labels_vec']),
                                              enc_list(t['extra']['index']))
        cases.append(Case(('vote', run), {'entry': 'vote_update', 'kind': 'model'}, run, impl, None,
                          len(g['indices']) > 0, {'task': {k: t[k] for k in ('algo', 'graph', 'extra', 'flavour')}}))
    return cases


def kernel_model_cases(ctx):
    """Hand models with checked access against the real kernels: run lines, compared exactly."""
    rng = ctx.rng
    gs = degenerate_graphs(rng) + random_graphs(rng, 40 if ctx.quick else 400)
    for n in (1, 2, 3):
        for es in graphs.all_digraphs(n, loops=True):
            gs.append(gdict('all%d' % n, _csr(n, es)))
    if not ctx.quick:
        for es in graphs.all_undirected(4, loops=True):
            gs.append(gdict('und4', _csr(4, es)))
    for _ in range(30 if ctx.quick else 300):
        n = rng.randint(2, 9)
        es = graphs.random_edges(rng, n, rng.choice([0.1, 0.3, 0.6]), directed=rng.random() < 0.5, loops=True)
        a = _csr(n, es)
        if rng.random() < 0.5:
            a = graphs.unsorted_copy(a, rng)
        gs.append(gdict('rand%d' % n, a))
    cases = core_cases(ctx, gs) + vote_cases(ctx, gs)
    _evaluate(ctx, cases)


def search(ctx, pending):
    """A kind obligation broke (or a model disagrees): look for a concrete failing input of the property on the
    bounds-checked build with the full degenerate stream restricted to the algorithms that enter the kernel."""
    sub = Sub(ctx)
    sub.extra = {}
    sub.overlay_root = ctx.overlay_root
    kernels = set()
    for kind, sig, obj in pending:
        if isinstance(sig, dict) and sig.get('kernel'):
            kernels.add(sig['kernel'])
    algos = set()
    for k in kernels:
        algos |= set(KERNEL_TO_ALGOS.get(k, []))
    if not algos:
        algos = set(KERNEL_ALGOS)
    root, _ = overlay.sync('checked')
    tasks = [t for t in build_tasks(ctx, 'checked', False) if t['algo'] in algos]
    for i, t in enumerate(tasks):
        t['id'] = i
    res = run_pool(root, tasks, 10, _nworkers(), tag='s', known=known_oracle())
    judge(sub, tasks, res, 'checked')
    raise_if_starved()
    found = sub.found(limit=8)
    # one report per distinct signature
    seen, out = set(), []
    for f in found:
        key = json.dumps(f['sig'], sort_keys=True)
        if key not in seen:
            seen.add(key)
            out.append(f)
    return out


KERNEL_TO_ALGOS = {
    'vote_update': ['Propagation', 'PropagationClustering'],
    'optimize_core': ['Louvain', 'LouvainHierarchy', 'LouvainIteration', 'LouvainEmbedding', 'Leiden'],
    'optimize_refine_core': ['Leiden'],
    'diffusion': ['PageRank', 'PageRankClassifier'],
    'push_pagerank': ['PageRank'],
    'count_local_triangles_from_dag': ['count_triangles', 'count_triangles_parallel', 'get_clustering_coefficient'],
    'count_triangles_from_dag': ['count_triangles', 'count_triangles_parallel', 'get_clustering_coefficient'],
    'weisfeiler_lehman_coloring': ['color_weisfeiler_lehman', 'are_isomorphic', 'are_isomorphic_pair'],
    'compute_core': ['get_core_decomposition', 'count_cliques', 'count_cliques4'],
    'MinHeap.swap': ['get_core_decomposition', 'count_cliques'], 'MinHeap.insert_key': ['get_core_decomposition', 'count_cliques'],
    'MinHeap.decrease_key': ['get_core_decomposition', 'count_cliques'], 'MinHeap.pop_min': ['get_core_decomposition', 'count_cliques'],
    'MinHeap.min_heapify': ['get_core_decomposition', 'count_cliques'],
    'ListingBox.__cinit__': ['count_cliques', 'count_cliques4', 'count_cliques2'],
    'count_cliques_from_dag': ['count_cliques', 'count_cliques4', 'count_cliques2'],
    'Betweenness.fit': ['Betweenness'], 'AggregateGraph.__init__': ['Paris'], 'Paris.fit': ['Paris'],
}


def replay(ctx, payload):
    _lock()
    case = payload.get('case') or {}
    t = case.get('task')
    if not t:
        # a broken obligation: re-evaluate all obligations on the current tree
        kind_obligations(ctx)
        return
    sig = payload.get('sig') or {}
    if sig.get('kind') == 'scaling':
        fam = (t.get('graph') or {}).get('gen') or sig.get('family')
        scaling_probe(ctx, algos=[t['algo']], families=[fam] if fam else None)
        raise_if_starved()
        return
    if sig.get('kind') == 'model':
        # a disagreement between a checked hand model and the kernel: compare again on the recorded input
        g = t['graph']
        if t['algo'] == 'get_core_decomposition':
            _evaluate(ctx, core_cases(ctx, [g]))
        else:
            _evaluate(ctx, vote_cases(ctx, [g], fixed=t.get('extra')))
        raise_if_starved()
        return
    t = dict(t, id=0)
    flavour = t.get('flavour', 'plain')
    root = ctx.overlay_root if flavour == 'plain' else overlay.sync('checked')[0]
    limit = SCALING_LIMIT_S if (t.get('graph') or {}).get('gen') else 10
    res = run_pool(root, [t], limit, 1, monitor=(flavour == 'plain' and limit == 10), tag='r', known=known_oracle())
    judge(ctx, [t], res, flavour)
    if flavour == 'plain' and limit == 10:
        contract_lines(ctx, [t], res)
    raise_if_starved()
