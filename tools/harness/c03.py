"""C03 — a biadjacency matrix is treated exactly as its bipartite block adjacency.

Two parts:
 (1) plumbing: get_values / stack_values / get_adjacency_values of the implementation against the Lean
     model (SkNet/Model/Bipartite.lean), exact rationals (`run` lines);
 (2) the relation itself, evaluated on the implementation (this is the property statement, so a failure
     is a concrete failing input): every estimator / function accepting bipartite input is run on B (with
     row / column seeds) and on the block adjacency [[0,B],[Bᵀ,0]] (rows first, stacked seeds) and the
     *_row_ / *_col_ / unsuffixed outputs are compared. Routing of get_distances / get_shortest_path is
     covered by C10's harness (same model) and by theorems C03.distances_bipartite / shortestPath_bipartite.
"""
import warnings

import numpy as np
from scipy import sparse

from vlib import graphs
from vlib.cases import Case, Sub, call, evaluate
from vlib.core import enc_rat, enc_ratlist, enc_bool, dec_ratlist

RULE = ('plumbing: random array / list / dict / None seeds (in-range, out-of-range, empty dict, wrong length) for '
        'get_values, stack_values, get_adjacency_values x which in {None, probs, labels}; relation: exhaustive 0/1 '
        'biadjacency matrices up to 2x3 / 3x2 (quick: sampled) and random weighted rectangular / square+force_bipartite '
        'matrices up to 6x6 x seed placements (row only, column only, both; dict and array) x every estimator of the '
        'table; a case is non-trivial when B has an edge and the compared outputs are not all equal constants; '
        'distinct = distinct (entry, matrix, seeds)')
ASSUMPTIONS = ['deterministic estimators only (shuffle_nodes=False; solvers with fixed iteration budgets)',
               'numeric outputs compared within 1e-8 (same arithmetic on both sides up to summation order)',
               'Louvain / Leiden with modularity="dugue" document Barber\'s modularity (directed block) for bipartite '
               'input: recorded as known finding F-C03-barber, and additionally checked against the directed block']
TOL = 1e-8
DRIVE_MODULES = ['SkNet.Drive.C03', 'SkNet.Drive.C10']


# ------------------------------------------------------------------------------------------------
# part 1: plumbing against the Lean model
# ------------------------------------------------------------------------------------------------
def _enc_values(v):
    if v is None:
        return '_'
    if isinstance(v, dict):
        return 'd:' + (';'.join('%d=%s' % (k, enc_rat(x)) for k, x in v.items()) if v else '-')
    return 'a:' + enc_ratlist(list(v))


def _rand_values(rng, n, allow_bad=True):
    r = rng.random()
    pool = [0, 1, 2, 3, -1, 0.5, 4]
    if r < 0.15:
        return None
    if r < 0.5:
        ln = n if (not allow_bad or rng.random() < 0.85) else rng.choice([max(0, n - 1), n + 1])
        vals = [rng.choice(pool) for _ in range(ln)]
        return vals if rng.random() < 0.5 else np.array(vals, dtype=float)
    if not allow_bad or rng.random() < 0.9:
        ks = rng.sample(range(n), rng.randint(1, n)) if n else []
    else:
        ks = rng.sample(range(n + 2), min(n + 2, rng.randint(0, n + 1)))
    return {int(k): rng.choice(pool) for k in ks}


def _show(x):
    return 'ok ' + enc_ratlist([float(v) for v in x])


def plumbing_cases(ctx, count):
    from sknetwork.utils.values import get_values, stack_values
    from sknetwork.utils.format import get_adjacency_values
    rng = ctx.rng
    cases = []
    for t in range(count):
        n = rng.randint(1, 5)
        v = _rand_values(rng, n)
        d = rng.choice([-1, 0, 2])
        with warnings.catch_warnings():
            warnings.simplefilter('ignore')
            impl = call(lambda: _show(get_values((n,), v, d)))
        cases.append(Case(('values', n, _enc_values(v), d), {'entry': 'get_values'},
                          'c03.values %d %s %s' % (n, _enc_values(v), enc_rat(d)), impl, None, v is not None,
                          {'f': 'get_values', 'n': n, 'values': _enc_values(v), 'default': d}))
        nr, nc = rng.randint(1, 4), rng.randint(1, 4)
        vr, vc = _rand_values(rng, nr), _rand_values(rng, nc)
        with warnings.catch_warnings():
            warnings.simplefilter('ignore')
            impl = call(lambda: _show(stack_values((nr, nc), vr, vc, d)))
        cases.append(Case(('stack', nr, nc, _enc_values(vr), _enc_values(vc), d), {'entry': 'stack_values'},
                          'c03.stack %d %d %s %s %s' % (nr, nc, _enc_values(vr), _enc_values(vc), enc_rat(d)), impl, None,
                          vr is not None or vc is not None,
                          {'f': 'stack_values', 'shape': [nr, nc], 'row': _enc_values(vr), 'col': _enc_values(vc), 'default': d}))
        # get_adjacency_values on a real matrix
        square = rng.random() < 0.6
        nr2 = rng.randint(2, 4)
        nc2 = nr2 if square else rng.randint(1, 4)
        sym = square and rng.random() < 0.5
        es = graphs.random_edges(rng, nr2, 0.5, directed=not sym, m=nc2)
        if not es:
            es = [(0, 0)]
        m = graphs.csr_from_edges(nr2, es, m=nc2)
        is_sym = (nr2 == nc2) and (abs(m - m.T).nnz == 0)
        allow_dir = rng.random() < 0.5
        fb = rng.random() < 0.3
        mode = rng.choice(['values', 'rowcol', 'none'])
        val = vrow = vcol = None
        if mode == 'values':
            # in the bipartite branch `values` is used for the rows
            val = _rand_values(rng, nr2, allow_bad=False)
        elif mode == 'rowcol':
            vrow = _rand_values(rng, nr2, allow_bad=False)
            vcol = _rand_values(rng, nc2, allow_bad=False)
        which = rng.choice([None, 'probs', 'labels'])

        def f():
            with warnings.catch_warnings():
                warnings.simplefilter('ignore')
                a, vals, bip = get_adjacency_values(m, allow_directed=allow_dir, force_bipartite=fb, values=val,
                                                    values_row=vrow, values_col=vcol, default_value=d, which=which)
            return 'ok %s %d %s' % (enc_bool(bip), a.shape[0], enc_ratlist([float(x) for x in vals]))
        impl = call(f)
        run = 'c03.adjvals %d %d %s %s %s %s %s %s %s %s' % (
            nr2, nc2, enc_bool(is_sym), enc_bool(allow_dir), enc_bool(fb), _enc_values(val), _enc_values(vrow),
            _enc_values(vcol), enc_rat(d), which or 'none')
        cases.append(Case(('adjvals', run), {'entry': 'get_adjacency_values'}, run, impl, None, True,
                          {'f': 'get_adjacency_values', 'line': run, 'dense': m.toarray().tolist()}))
    return cases


def _same_plumbing(c, model, impl, spec_ok):
    if model.startswith('ok') and impl.startswith('ok'):
        mt, it = model.split(' '), impl.split(' ')
        if len(mt) != len(it) or mt[:-1] != it[:-1]:
            return False
        a, b = dec_ratlist(mt[-1]), dec_ratlist(it[-1])
        return len(a) == len(b) and all(abs(float(x) - float(y)) <= 1e-12 * (1 + abs(float(x))) for x, y in zip(a, b))
    return False


# ------------------------------------------------------------------------------------------------
# part 2: the relation on the implementation
# ------------------------------------------------------------------------------------------------
def _block(b):
    from sknetwork.utils.format import bipartite2undirected
    return bipartite2undirected(sparse.csr_matrix(b))


def _table():
    """(name, factory, seed kind, accepts force_bipartite, outputs)"""
    from sknetwork.ranking import PageRank, Katz
    from sknetwork.clustering import Louvain, Leiden, PropagationClustering, KCenters
    from sknetwork.hierarchy import Paris, LouvainHierarchy, LouvainIteration
    from sknetwork.classification import Propagation, DiffusionClassifier, NNClassifier, PageRankClassifier
    from sknetwork.regression import Diffusion, Dirichlet
    T = []
    T.append(('PageRank(piteration)', lambda: PageRank(solver='piteration', n_iter=50), 'weights', True, ['scores']))
    T.append(('PageRank(RH)', lambda: PageRank(solver='RH', n_iter=30), 'weights', True, ['scores']))
    T.append(('Katz', lambda: Katz(), None, False, ['scores']))
    for mod in ('newman', 'potts', 'dugue'):
        T.append(('Louvain(%s)' % mod, (lambda mod=mod: Louvain(modularity=mod, shuffle_nodes=False, random_state=0)), None, True,
                  ['labels', 'probs']))
        T.append(('Leiden(%s)' % mod, (lambda mod=mod: Leiden(modularity=mod, shuffle_nodes=False, random_state=0)), None, True,
                  ['labels', 'probs']))
    T.append(('PropagationClustering', lambda: PropagationClustering(), None, False, ['labels', 'probs']))
    T.append(('Paris', lambda: Paris(), None, False, ['dendrogram']))
    T.append(('LouvainHierarchy', lambda: LouvainHierarchy(shuffle_nodes=False, random_state=0), None, True, ['dendrogram']))
    T.append(('LouvainIteration', lambda: LouvainIteration(shuffle_nodes=False, random_state=0), None, True, ['dendrogram']))
    T.append(('Propagation', lambda: Propagation(), 'labels', False, ['labels', 'probs']))
    T.append(('DiffusionClassifier', lambda: DiffusionClassifier(), 'labels', False, ['labels', 'probs']))
    T.append(('NNClassifier', lambda: NNClassifier(n_neighbors=2), 'labels', False, ['labels', 'probs']))
    T.append(('PageRankClassifier', lambda: PageRankClassifier(), 'labels', False, ['labels', 'probs']))
    T.append(('Diffusion', lambda: Diffusion(), 'values', False, ['values']))
    T.append(('Dirichlet', lambda: Dirichlet(), 'values', False, ['values']))
    return T


def _seed_sets(rng, kind, nr, nc):
    """Yield (row seeds, col seeds, stacked seeds) in dict and array forms."""
    out = []
    if kind is None:
        return [(None, None, None, 'none')]
    if kind == 'weights':
        out.append((None, None, np.concatenate([np.ones(nr), np.zeros(nc)]), 'default'))   # documented default
        pool = [1.0, 2.0, 3.0]
    elif kind == 'labels':
        pool = [0, 1, 2]
    else:
        pool = [0.0, 1.0, 2.5, 4.0]
    for form in ('dict', 'array'):
        for place in ('row', 'col', 'both'):
            rk = sorted(rng.sample(range(nr), rng.randint(1, min(2, nr)))) if place in ('row', 'both') else []
            ck = sorted(rng.sample(range(nc), rng.randint(1, min(2, nc)))) if place in ('col', 'both') else []
            rv = {int(k): rng.choice(pool) for k in rk}
            cv = {int(k): rng.choice(pool) for k in ck}
            if kind == 'labels' and len(set(rv.values()) | set(cv.values())) < 2 and nr + nc > 2:
                # make sure two classes are present (a single class is re-labelled by `which='labels'`)
                if rv:
                    rv[rk[0]] = 0
                if cv:
                    cv[ck[0]] = 1
                elif len(rk) > 1:
                    rv[rk[1]] = 1
            stacked = dict(rv)
            stacked.update({nr + k: v for k, v in cv.items()})
            if form == 'dict':
                out.append((rv or None, cv or None, stacked, 'dict-' + place))
            else:
                dflt = 0.0 if kind == 'weights' else -1
                ra = np.array([rv.get(i, dflt) for i in range(nr)], dtype=float) if rv else None
                ca = np.array([cv.get(i, dflt) for i in range(nc)], dtype=float) if cv else None
                sa = np.array([stacked.get(i, dflt) for i in range(nr + nc)], dtype=float)
                if kind == 'labels':
                    ra = None if ra is None else ra.astype(int)
                    ca = None if ca is None else ca.astype(int)
                    sa = sa.astype(int)
                out.append((ra, ca, sa, 'array-' + place))
    return out


def _fit_b(est, kind, b, sr, sc, force):
    kw = {}
    if force:
        kw['force_bipartite'] = True
    if kind == 'weights':
        if sr is not None:
            kw['weights_row'] = sr
        if sc is not None:
            kw['weights_col'] = sc
    elif kind == 'labels':
        if sr is not None:
            kw['labels_row'] = sr
        if sc is not None:
            kw['labels_col'] = sc
    elif kind == 'values':
        if sr is not None:
            kw['values_row'] = sr
        if sc is not None:
            kw['values_col'] = sc
    return est.fit(b, **kw)


def _fit_a(est, kind, a, stacked):
    if kind == 'weights':
        return est.fit(a, weights=stacked)
    if kind == 'labels':
        return est.fit(a, labels=stacked)
    if kind == 'values':
        return est.fit(a, values=stacked)
    return est.fit(a)


def _dense(x):
    return x.toarray() if sparse.issparse(x) else np.asarray(x)


def _compare(eb, ea, outs, nr):
    """Return None if the relation holds, else a description."""
    for o in outs:
        if o == 'dendrogram':
            full = getattr(eb, 'dendrogram_full_', None)
            if full is None or not np.allclose(full, ea.dendrogram_, atol=TOL):
                return 'dendrogram_full_ differs from the dendrogram of the block adjacency'
            if not np.allclose(eb.dendrogram_, eb.dendrogram_row_, atol=TOL):
                return 'dendrogram_ is not dendrogram_row_'
            continue
        whole = _dense(getattr(ea, o + '_'))
        row = getattr(eb, o + '_row_', None)
        col = getattr(eb, o + '_col_', None)
        plain = getattr(eb, o + '_', None)
        if row is None or col is None or plain is None:
            return '%s_row_/%s_col_ missing' % (o, o)
        row, col, plain = _dense(row), _dense(col), _dense(plain)
        if o == 'probs' and (row.shape[1] != whole.shape[1] or col.shape[1] != whole.shape[1]):
            return 'probs have %d/%d columns, block fit has %d' % (row.shape[1], col.shape[1], whole.shape[1])
        if row.shape[0] != nr or not np.allclose(row, whole[:nr], atol=TOL):
            return '%s_row_ is not the first n_row entries of the block fit' % o
        if not np.allclose(col, whole[nr:], atol=TOL):
            return '%s_col_ is not the remaining n_col entries of the block fit' % o
        if plain.shape != row.shape or not np.allclose(plain, row, atol=TOL):
            return 'unsuffixed %s_ is not the row output' % o
    return None


def relation_cases(ctx, mats, seeds_per=2, sub=None):
    """Evaluate the relation for every estimator of the table on the given biadjacency matrices."""
    tgt = sub or ctx
    rng = ctx.rng
    table = _table()
    from sknetwork.utils.format import bipartite2directed
    for b in mats:
        nr, nc = b.shape
        a = _block(b)
        force = (nr == nc)
        bdesc = {'shape': [nr, nc], 'dense': b.toarray().tolist()}
        for name, mk, kind, accepts_force, outs in table:
            if force and not accepts_force and kind is None:
                continue       # a square matrix cannot be declared bipartite to this estimator
            seeds = _seed_sets(rng, kind, nr, nc)
            if len(seeds) > seeds_per:
                seeds = [seeds[0]] + rng.sample(seeds[1:], seeds_per - 1) if kind == 'weights' else rng.sample(seeds, seeds_per)
            for sr, sc, stacked, sname in seeds:
                if force and not accepts_force and sr is None and sc is None:
                    continue
                with warnings.catch_warnings():
                    warnings.simplefilter('ignore')
                    try:
                        eb = _fit_b(mk(), kind, b, sr, sc, force and accepts_force)
                        err_b = None
                    except Exception as e:   # noqa
                        eb, err_b = None, type(e).__name__ + ': ' + str(e)[:80]
                    try:
                        ea = _fit_a(mk(), kind, a, stacked)
                        err_a = None
                    except Exception as e:   # noqa
                        ea, err_a = None, type(e).__name__ + ': ' + str(e)[:80]
                sig = {'entry': name, 'relation': 'bipartite-as-block'}
                desc = {'entry': name, 'biadjacency': bdesc, 'seeds': sname,
                        'seeds_row': None if sr is None else (sr if isinstance(sr, dict) else list(map(float, sr))),
                        'seeds_col': None if sc is None else (sc if isinstance(sc, dict) else list(map(float, sc)))}
                key = (name, b.shape, tuple(b.toarray().ravel().tolist()), sname, repr(desc['seeds_row']), repr(desc['seeds_col']))
                if err_b or err_a:
                    tgt.count('relation-error:' + name)
                    if bool(err_b) != bool(err_a):
                        tgt.case(key, True, None)
                        tgt.spec_fail(sig, desc, {'why': 'one form raises, the other does not', 'biadjacency_form': err_b,
                                                  'block_form': err_a})
                    else:
                        tgt.case(key, False, None)
                    continue
                why = _compare(eb, ea, outs, nr)
                if why and name.endswith('(dugue)'):
                    # documented: Barber's modularity = the *directed* block [[0,B],[0,0]]
                    sig = dict(sig, modularity='dugue')
                tgt.case(key, b.nnz > 0, {'entry': name, 'biadjacency': bdesc['dense'], 'seeds': sname, 'holds': why is None})
                tgt.count('relation:' + name)
                if why:
                    tgt.spec_fail(sig, desc, {'why': why})
                if name.endswith('(dugue)'):
                    with warnings.catch_warnings():
                        warnings.simplefilter('ignore')
                        ed = mk().fit(bipartite2directed(sparse.csr_matrix(b)))
                    lab = np.asarray(ed.labels_)
                    if not (np.array_equal(eb.labels_row_, lab[:nr]) and np.array_equal(eb.labels_col_, lab[nr:])):
                        tgt.spec_fail({'entry': name, 'relation': 'bipartite-as-directed-block'}, desc,
                                      {'why': 'labels differ from the fit on [[0,B],[0,0]]'})


def structure_cases(ctx, mats, sub=None):
    """get_connected_components / is_connected / get_largest_connected_component with force_bipartite."""
    tgt = sub or ctx
    from sknetwork.topology import get_connected_components, is_connected, get_largest_connected_component
    for b in mats:
        nr, nc = b.shape
        a = _block(b)
        bdesc = {'shape': [nr, nc], 'dense': b.toarray().tolist()}
        sig = {'entry': 'get_connected_components', 'relation': 'bipartite-as-block'}
        key = ('cc', b.shape, tuple(b.toarray().ravel().tolist()))
        try:
            lb = get_connected_components(b, force_bipartite=True)
            la = get_connected_components(a)
            if isinstance(lb, tuple):
                lb = np.concatenate(lb)
            ok = _same_partition(lb, la)
            cb = is_connected(b, force_bipartite=True)
            ca = is_connected(a)
        except Exception as e:  # noqa
            tgt.case(key, False, None)
            tgt.count('structure-error')
            continue
        tgt.case(key, b.nnz > 0, {'entry': 'get_connected_components', 'biadjacency': bdesc['dense'], 'holds': bool(ok and cb == ca)})
        tgt.count('relation:get_connected_components')
        if not ok:
            tgt.spec_fail(sig, {'entry': 'get_connected_components', 'biadjacency': bdesc},
                          {'why': 'components of B (rows then columns) are not those of the block adjacency',
                           'bip': list(map(int, lb)), 'block': list(map(int, la))})
        if cb != ca:
            tgt.spec_fail({'entry': 'is_connected', 'relation': 'bipartite-as-block'}, {'entry': 'is_connected', 'biadjacency': bdesc},
                          {'why': 'is_connected differs', 'bip': bool(cb), 'block': bool(ca)})


def _same_partition(x, y):
    x, y = list(map(int, x)), list(map(int, y))
    if len(x) != len(y):
        return False
    m1, m2 = {}, {}
    for a, b in zip(x, y):
        if m1.setdefault(a, b) != b or m2.setdefault(b, a) != a:
            return False
    return True


def _matrices(ctx, quick):
    rng = ctx.rng
    mats = []
    shapes = [(1, 2), (2, 1), (2, 2), (2, 3), (3, 2)]
    for nr, nc in shapes:
        allb = [es for es in graphs.all_bipartite(nr, nc) if es]
        if quick and len(allb) > 6:
            allb = rng.sample(allb, 6)
        for es in allb:
            mats.append(graphs.csr_from_edges(nr, es, m=nc))
    for _ in range(12 if quick else 150):
        nr, nc = rng.randint(2, 6), rng.randint(2, 6)
        es = graphs.random_edges(rng, nr, rng.choice([0.3, 0.5, 0.8]), m=nc)
        if not es:
            continue
        w = [rng.choice([1, 1, 2, 3]) for _ in es]
        mats.append(graphs.csr_from_edges(nr, es, w, m=nc))
    return mats


def run(ctx):
    quick = ctx.quick
    evaluate(ctx, plumbing_cases(ctx, 300 if quick else 3000), same=_same_plumbing)
    mats = _matrices(ctx, quick)
    relation_cases(ctx, mats, seeds_per=2 if quick else 4)
    structure_cases(ctx, mats)
    routing_cases(ctx, quick)


def routing_cases(ctx, quick, sub=None):
    """get_distances / get_shortest_path on biadjacency matrices (source / source_row / source_col / transpose /
    force_bipartite): the run and spec lines of the path model (C10's handlers; theorems C03.distances_bipartite,
    C03.shortestPath_bipartite)."""
    from harness import c10
    rng = ctx.rng
    cases = []
    shapes = [(1, 2), (2, 1), (2, 2), (2, 3), (3, 2), (3, 4)]
    for nr, nc in shapes:
        allb = list(graphs.all_bipartite(nr, nc))
        k = 10 if quick else 200
        if len(allb) > k:
            allb = rng.sample(allb, k)
        for es in allb:
            b = c10._mk(nr, es, [1] * len(es), m=nc)
            cases += c10.cases_for_bigraph(ctx, b, rng, full=not quick)
    c10.evaluate(sub or ctx, cases)


def search(ctx, pending):
    sub = Sub(ctx)
    mats = _matrices(ctx, False)[:120]
    relation_cases(ctx, mats, seeds_per=3, sub=sub)
    routing_cases(ctx, True, sub=sub)
    return sub.found()


def replay(ctx, payload):
    case = payload.get('case') or {}
    if 'biadjacency' in case:
        b = sparse.csr_matrix(np.array(case['biadjacency']['dense'], dtype=float))
        if case.get('entry') in ('get_connected_components', 'is_connected'):
            structure_cases(ctx, [b])
        else:
            # all seed placements of every estimator on this matrix
            relation_cases(ctx, [b], seeds_per=8)
    else:
        run(ctx)
