"""C03 — a biadjacency matrix is treated exactly as its bipartite block adjacency.

Three parts:
 (1) plumbing against the Lean model (SkNet/Model/Bipartite.lean), `run` lines, exact rationals:
     get_values / stack_values / get_adjacency_values; bipartite2undirected / bipartite2directed / get_adjacency on
     matrices with unsorted indices, duplicates, stored zeros, int / bool data, dense / csc / coo containers
     (`c03.block`, `c03.adjacency`: the model adds up the COO triples `sparse.bmat` is given; theorem
     `denote_block` says that this is [[0,B],[Bᵀ,0]]); every `_split_vars` of the base classes (`c03.split`);
 (2) the relation itself, evaluated on the implementation (this is the property statement, so a failure is a
     concrete failing input): every estimator / function of the table is run on B (all keyword forms of the row /
     column seeds) and on the block adjacency built HERE with numpy (np.block, never by the code under test) with
     the seeds stacked HERE; `*_row_` / `*_col_` / unsuffixed outputs are compared;
 (3) routing of get_distances / get_shortest_path: C10's handlers and spec lines (theorems C10.route_spec,
     getDistances_exact, getShortestPath_exact for every argument combination).
"""
import json
import os
import time
import warnings
from fractions import Fraction

import numpy as np
from scipy import sparse

from vlib import graphs
from vlib.cases import Case, Sub, call, evaluate
from vlib.core import enc_rat, enc_ratlist, enc_bool, enc_csr, dec_ratlist, ToolFailure, load_findings, match_finding

RULE = ('plumbing: random array / list / dict / None seeds (in-range, out-of-range, empty dict, wrong length) for '
        'get_values, stack_values, get_adjacency_values (values, values_row, values_col in every combination, also values '
        'together with values_row / values_col) x which in {None, probs, labels}; block construction: random rectangular / '
        'square matrices <= 4x4 with unsorted indices, duplicate entries (some cancelling), stored zeros, float / int data (bool: '
        'stored zeros, sorted indices, no duplicates), csr / csc / coo / dense containers, empty matrices; _split_vars of the 6 base classes on random vectors / '
        'matrices; relation: exhaustive 0/1 biadjacency matrices of the shapes 1x1, 1x2, 2x1, 1x3, 3x1, 1x4, 2x2, 2x3, 3x2 '
        '(quick: sampled) and random weighted rectangular / square+force_bipartite matrices 1..6 a side, one in twelve 7..14 a '
        'side (float / int / bool; csr / unsorted csr / csc / dense / csr with stored zeros, mirrored in the reference block) x '
        'seed placements (none; row only, column only, both; dict, array, list; suffixed keywords, unsuffixed keyword for the '
        'rows, unsuffixed together with *_col; an empty dict on one side; flag given or implied; Spectral also on square '
        'non-symmetric matrices without the flag) x every entry of the table; predict / predict_proba / transform with '
        'columns=False / True and fit_predict on B against the attributes. A relation case is '
        'non-trivial when B has an edge, both forms returned and some compared output of the block fit is not constant '
        '(a dendrogram: has at least two merges); a plumbing case when a seed / a stored entry is given; '
        'distinct = distinct (entry, matrix, container, seeds)')
ASSUMPTIONS = ['deterministic configurations only (shuffle_nodes=False, random_state=0, np.random.seed set before both fits of '
               'KCenters); PageRank(solver="push") is left out (racy kernel, finding F-push of C04/C16)',
               'both forms execute the same floating-point program on the same CSR arrays: outputs are compared EXACTLY '
               '(np.array_equal), except the entries listed in TOL_ENTRIES (ARPACK / LAPACK based: |x-y| <= 1e-9, rtol=0)',
               'documented row-only defaults are deviations from the literal statement and recorded as known findings, each '
               'with a compensating exact comparison: F-C03-barber (Louvain / Leiden modularity="dugue" = directed block), '
               'F-C03-default-rows (no seeds on bipartite input = rows only: PageRank, Diffusion, Dirichlet)',
               'scipy: csr_matrix(ndarray), np.block, sparse.bmat, tocsr (adds up duplicates), sort_indices',
               'at estimator level B has no duplicate entries; explicitly stored zeros are mirrored in the reference block '
               '(Propagation / PropagationClustering count a stored zero as a neighbour, on plain graphs alike: C13, not the '
               'bipartite plumbing)']
DRIVE_MODULES = ['SkNet.Drive.C03', 'SkNet.Drive.C10']
TOL_ENTRIES = {'Spectral': 1e-9, 'PageRank/lanczos': 1e-9, 'PageRank/bicgstab': 1e-9}

VERIF = os.path.dirname(os.path.dirname(os.path.dirname(os.path.abspath(__file__))))


def _quiet():
    w = warnings.catch_warnings()
    w.__enter__()
    warnings.simplefilter('ignore')
    return w


# ------------------------------------------------------------------------------------------------
# part 1a: seeds plumbing against the Lean model
# ------------------------------------------------------------------------------------------------
def _enc_values(v):
    if v is None:
        return '_'
    if isinstance(v, dict):
        return 'd:' + (';'.join('%d=%s' % (k, enc_rat(x)) for k, x in v.items()) if v else '-')
    return 'a:' + enc_ratlist(list(v))


def _dec_values(s, as_array=False):
    if s == '_':
        return None
    if s.startswith('d:'):
        body = s[2:]
        return {} if body == '-' else {int(t.split('=')[0]): float(Fraction(t.split('=')[1])) for t in body.split(';')}
    vals = [float(x) for x in dec_ratlist(s[2:])]
    return np.array(vals, dtype=float) if as_array else vals


def _rand_values(rng, n, allow_bad=True):
    r = rng.random()
    pool = [0, 1, 2, 3, -1, 0.5, 4]
    if r < 0.15:
        return None
    if r < 0.5:
        ln = n if (not allow_bad or rng.random() < 0.85) else rng.choice([max(0, n - 1), n + 1])
        vals = [rng.choice(pool) for _ in range(ln)]
        return vals if rng.random() < 0.5 else np.array(vals, dtype=float)
    if not allow_bad or rng.random() < 0.9:
        ks = rng.sample(range(n), rng.randint(1, n)) if n else []
    else:
        ks = rng.sample(range(n + 2), min(n + 2, rng.randint(0, n + 1)))
    return {int(k): rng.choice(pool) for k in ks}


def _show(x):
    return 'ok ' + enc_ratlist([float(v) for v in x])


def _case_values(n, v, d):
    from sknetwork.utils.values import get_values
    w = _quiet()
    impl = call(lambda: _show(get_values((n,), v, d)))
    w.__exit__(None, None, None)
    return Case(('values', n, _enc_values(v), d), {'entry': 'get_values'},
                'c03.values %d %s %s' % (n, _enc_values(v), enc_rat(d)), impl, None, v is not None,
                {'f': 'get_values', 'n': n, 'values': _enc_values(v), 'array': isinstance(v, np.ndarray), 'default': d})


def _case_stack(nr, nc, vr, vc, d):
    from sknetwork.utils.values import stack_values
    w = _quiet()
    impl = call(lambda: _show(stack_values((nr, nc), vr, vc, d)))
    w.__exit__(None, None, None)
    return Case(('stack', nr, nc, _enc_values(vr), _enc_values(vc), d), {'entry': 'stack_values'},
                'c03.stack %d %d %s %s %s' % (nr, nc, _enc_values(vr), _enc_values(vc), enc_rat(d)), impl, None,
                vr is not None or vc is not None,
                {'f': 'stack_values', 'shape': [nr, nc], 'row': _enc_values(vr), 'col': _enc_values(vc), 'default': d,
                 'array': [isinstance(vr, np.ndarray), isinstance(vc, np.ndarray)]})


def _case_adjvals(m, allow_dir, fb, val, vrow, vcol, d, which):
    from sknetwork.utils.format import get_adjacency_values
    nr2, nc2 = m.shape
    is_sym = (nr2 == nc2) and (abs(m - m.T).nnz == 0)

    def f():
        w = _quiet()
        try:
            a, vals, bip = get_adjacency_values(m, allow_directed=allow_dir, force_bipartite=fb, values=val,
                                                values_row=vrow, values_col=vcol, default_value=d, which=which)
        finally:
            w.__exit__(None, None, None)
        return 'ok %s %d %s' % (enc_bool(bip), a.shape[0], enc_ratlist([float(x) for x in vals]))
    impl = call(f)
    run = 'c03.adjvals %d %d %s %s %s %s %s %s %s %s' % (
        nr2, nc2, enc_bool(is_sym), enc_bool(allow_dir), enc_bool(fb), _enc_values(val), _enc_values(vrow),
        _enc_values(vcol), enc_rat(d), which or 'none')
    return Case(('adjvals', run), {'entry': 'get_adjacency_values'}, run, impl, None, True,
                {'f': 'get_adjacency_values', 'dense': m.toarray().tolist(), 'allow_directed': allow_dir,
                 'force_bipartite': fb, 'values': _enc_values(val), 'values_row': _enc_values(vrow),
                 'values_col': _enc_values(vcol), 'default': d, 'which': which,
                 'array': [isinstance(x, np.ndarray) for x in (val, vrow, vcol)]})


def plumbing_cases(ctx, count):
    rng = ctx.rng
    cases = []
    for t in range(count):
        n = rng.randint(0, 5)
        d = rng.choice([-1, 0, 2])
        cases.append(_case_values(n, _rand_values(rng, n), d))
        nr, nc = rng.randint(0, 4), rng.randint(0, 4)
        cases.append(_case_stack(nr, nc, _rand_values(rng, nr), _rand_values(rng, nc), d))
        # get_adjacency_values on a real matrix
        square = rng.random() < 0.6
        nr2 = rng.randint(2, 4)
        nc2 = nr2 if square else rng.randint(1, 4)
        sym = square and rng.random() < 0.5
        es = graphs.random_edges(rng, nr2, 0.5, directed=not sym, m=nc2)
        if not es:
            es = [(0, 0)]
        m = graphs.csr_from_edges(nr2, es, m=nc2)
        allow_dir = rng.random() < 0.5
        fb = rng.random() < 0.3
        mode = rng.choice(['values', 'rowcol', 'none', 'values+col', 'values+row', 'all'])
        val = vrow = vcol = None
        if mode in ('values', 'values+col', 'values+row', 'all'):
            # in the bipartite branch `values` is the alias of `values_row`; on a plain graph it has n entries
            val = _rand_values(rng, nr2, allow_bad=False)
        if mode in ('rowcol', 'values+row', 'all'):
            vrow = _rand_values(rng, nr2, allow_bad=False)
        if mode in ('rowcol', 'values+col', 'all'):
            vcol = _rand_values(rng, nc2, allow_bad=False)
        ctx.count('adjvals-mode:' + mode)
        cases.append(_case_adjvals(m, allow_dir, fb, val, vrow, vcol, d, rng.choice([None, 'probs', 'labels'])))
    return cases


def _same_plumbing(c, model, impl, spec_ok):
    if model.startswith('ok') and impl.startswith('ok'):
        mt, it = model.split(' '), impl.split(' ')
        if len(mt) != len(it) or mt[:-1] != it[:-1]:
            return False
        a, b = dec_ratlist(mt[-1]), dec_ratlist(it[-1])
        return len(a) == len(b) and all(abs(float(x) - float(y)) <= 1e-12 * (1 + abs(float(x))) for x, y in zip(a, b))
    return False


# ------------------------------------------------------------------------------------------------
# part 1b: the block matrices and get_adjacency against the Lean model
# ------------------------------------------------------------------------------------------------
def _enc_rows(m):
    m = np.asarray(m)
    return ';'.join(enc_ratlist([Fraction(float(x)) for x in row]) for row in m) if m.shape[0] else '-'


def _raw_csr(rng, nr, nc, dtype):
    """A CSR matrix as scipy accepts it, not canonical: unsorted indices, duplicates (some cancelling), stored zeros."""
    indptr, indices, data = [0], [], []
    for i in range(nr):
        k = rng.randint(0, min(4, nc + 1))
        for _ in range(k):
            indices.append(rng.randrange(nc))
            data.append(rng.choice([1, 1, 2, 3, 0, -1, 0.5] if dtype == 'float64' else ([1, 1, 2, 3, 0, -1] if dtype == 'int64'
                                                                                       else [True, True, False])))
        indptr.append(len(indices))
    m = sparse.csr_matrix((np.array(data, dtype=dtype), np.array(indices, dtype=np.int32), np.array(indptr, dtype=np.int32)),
                          shape=(nr, nc))
    if dtype == 'bool':
        # scipy adds duplicate entries of a boolean matrix with `or`, the model with `+` (2 != 1 would change the symmetry
        # test): boolean matrices are generated without duplicates (stored False entries stay)
        m.sum_duplicates()
    return m


def _mdesc(m):
    return {'shape': list(m.shape), 'indptr': m.indptr.tolist(), 'indices': m.indices.tolist(),
            'data': [float(x) for x in m.data], 'dtype': str(m.dtype)}


def _m_of(d):
    return sparse.csr_matrix((np.array(d['data']).astype(d['dtype']), np.array(d['indices'], dtype=np.int32),
                              np.array(d['indptr'], dtype=np.int32)), shape=tuple(d['shape']))


def _container(m, kind):
    if kind == 'dense':
        return m.toarray()
    if kind == 'csc':
        return sparse.csc_matrix(m)
    if kind == 'coo':
        return sparse.coo_matrix(m)
    if kind == 'lil':
        return sparse.lil_matrix(m)
    return m


def _case_block(m, directed):
    from sknetwork.utils.format import bipartite2undirected, bipartite2directed
    f = bipartite2directed if directed else bipartite2undirected

    def g():
        return 'ok ' + _enc_rows(f(m).toarray())
    impl = call(g)
    run = 'c03.block %s %s' % (enc_bool(directed), enc_csr(m))
    return Case(('block', directed, run), {'entry': 'bipartite2directed' if directed else 'bipartite2undirected'}, run, impl, None,
                m.nnz > 0, {'f': 'block', 'directed': directed, 'matrix': _mdesc(m)})


def _case_adjacency(m, cont, allow_dir, fb, fd, ae):
    from sknetwork.utils.format import get_adjacency

    def g():
        a, bip = get_adjacency(_container(m, cont), allow_directed=allow_dir, force_bipartite=fb, force_directed=fd,
                               allow_empty=ae)
        return 'ok %s %d %s' % (enc_bool(bip), a.shape[0], _enc_rows(a.toarray()))
    impl = call(g)
    # the model sees what check_format makes of the container: csr_matrix(x) (csr: unchanged; others: canonical)
    seen = m if cont == 'csr' else sparse.csr_matrix(_container(m, cont))
    run = 'c03.adjacency %s %s %s %s %s' % (enc_csr(seen), enc_bool(allow_dir), enc_bool(fb), enc_bool(fd), enc_bool(ae))
    return Case(('adjacency', run, cont), {'entry': 'get_adjacency', 'container': cont}, run, impl, None, m.nnz > 0,
                {'f': 'get_adjacency', 'matrix': _mdesc(m), 'container': cont, 'allow_directed': allow_dir,
                 'force_bipartite': fb, 'force_directed': fd, 'allow_empty': ae})


def _same_block(c, model, impl, spec_ok):
    """scipy adds duplicate entries of a boolean matrix with `or`: a boolean matrix is compared by its pattern"""
    if (c.desc or {}).get('matrix', {}).get('dtype') == 'bool' and model.startswith('ok') and impl.startswith('ok'):
        mt, it = model.split(' '), impl.split(' ')
        if mt[:-1] != it[:-1]:
            return False

        def pat(t):
            return [[x != 0 for x in dec_ratlist(r)] for r in t.split(';')] if t != '-' else []
        return pat(mt[-1]) == pat(it[-1])
    return False


def block_cases(ctx, count):
    rng = ctx.rng
    cases = []
    for t in range(count):
        nr = rng.randint(1, 4)
        nc = nr if rng.random() < 0.4 else rng.randint(1, 4)
        dtype = rng.choice(['float64', 'float64', 'int64', 'bool'])
        m = _raw_csr(rng, nr, nc, dtype)
        if nr == nc and rng.random() < 0.4:     # a symmetric one, so that allow_directed=False has both answers
            s = sparse.csr_matrix(m + m.T)
            m = s if rng.random() < 0.5 else graphs.unsorted_copy(s, rng)
        cases.append(_case_block(m, False))
        cases.append(_case_block(m, True))
        cont = rng.choice(['csr', 'csr', 'dense', 'csc', 'coo', 'lil'])
        cases.append(_case_adjacency(m, cont, rng.random() < 0.5, rng.random() < 0.3, rng.random() < 0.3, rng.random() < 0.3))
        ctx.count('block-dtype:' + dtype)
    for shape in ((2, 3), (2, 2), (0, 2), (2, 0)):
        e = sparse.csr_matrix(shape, dtype=float)
        cases.append(_case_block(e, False))
        cases.append(_case_adjacency(e, 'csr', True, False, False, False))
        cases.append(_case_adjacency(e, 'csr', True, True, False, True))
    return cases


# ------------------------------------------------------------------------------------------------
# part 1c: every `_split_vars` against the Lean model
# ------------------------------------------------------------------------------------------------
def _split_classes():
    """(name, class, attributes split, has a `bipartite` switch)"""
    from sknetwork.ranking.base import BaseRanking
    from sknetwork.clustering.base import BaseClustering
    from sknetwork.embedding.base import BaseEmbedding
    from sknetwork.regression.base import BaseRegressor
    from sknetwork.classification.base import BaseClassifier
    from sknetwork.classification.base_rank import RankClassifier
    return [('BaseRanking', BaseRanking, ['scores'], False), ('BaseClustering', BaseClustering, ['labels'], False),
            ('BaseEmbedding', BaseEmbedding, ['embedding'], False), ('BaseRegressor', BaseRegressor, ['values'], False),
            ('BaseClassifier', BaseClassifier, ['labels', 'probs'], True),
            ('RankClassifier', RankClassifier, ['labels', 'probs'], False)]


def _case_split(name, cls, attrs, switch, bip, nr, nc, cols, seedvals):
    """Set the unsplit attributes on a bare instance, call `_split_vars((nr, nc))`, compare (unsuffixed, row, col)."""
    n = nr + nc if bip else nr
    out = []
    for a in attrs:
        two_d = a in ('probs', 'embedding')
        k = cols if two_d else 1
        vals = np.array(seedvals[:n * k], dtype=float).reshape(n, k)
        for c in range(k):
            def g(a=a, c=c, two_d=two_d):
                inst = cls.__new__(cls)
                inst.bipartite = bip
                for b in attrs:
                    kk = cols if b in ('probs', 'embedding') else 1
                    v = np.array(seedvals[:n * kk], dtype=float).reshape(n, kk)
                    setattr(inst, b + '_', sparse.csr_matrix(v) if b == 'probs' else (v if b == 'embedding' else v[:, 0]))
                inst._split_vars((nr, nc))
                res = []
                for suffix in ('_', '_row_', '_col_'):
                    x = getattr(inst, a + suffix)
                    x = x.toarray() if sparse.issparse(x) else np.asarray(x)
                    res.append(enc_ratlist([float(y) for y in (x[:, c] if two_d else x)]))
                return 'ok ' + ' '.join(res)
            impl = call(g, errors=(ValueError, IndexError, TypeError, KeyError, AttributeError))
            run = 'c03.split %s %d %s' % (enc_bool(bip or not switch), nr, enc_ratlist([float(x) for x in vals[:, c]]))
            out.append(Case(('split', name, a, c, bip, nr, nc, tuple(seedvals[:n * k])), {'entry': name + '._split_vars', 'output': a},
                            run, impl, None, n > 0,
                            {'f': 'split', 'class': name, 'bipartite': bip, 'shape': [nr, nc], 'cols': cols, 'values': seedvals}))
    return out


def split_cases(ctx, count):
    rng = ctx.rng
    cases = []
    classes = _split_classes()
    for t in range(count):
        name, cls, attrs, switch = classes[t % len(classes)]
        nr, nc = rng.randint(0, 4), rng.randint(0, 4)
        cols = rng.randint(1, 3)
        bip = True if not switch else rng.random() < 0.7
        seedvals = [rng.choice([0, 1, 2, 3, -1, 0.5, 7]) for _ in range((nr + nc) * 3)]
        cases += _case_split(name, cls, attrs, switch, bip, nr, nc, cols, seedvals)
    return cases


# ------------------------------------------------------------------------------------------------
# part 2: the relation on the implementation
# ------------------------------------------------------------------------------------------------
def _block_ref(dense, directed=False):
    """[[0,B],[Bᵀ,0]] (or [[0,B],[0,0]]) with the row nodes first — built with numpy, not by the code under test."""
    dense = np.asarray(dense)
    nr, nc = dense.shape
    low = np.zeros((nc, nr), dtype=dense.dtype) if directed else dense.T
    full = np.block([[np.zeros((nr, nr), dtype=dense.dtype), dense], [low, np.zeros((nc, nc), dtype=dense.dtype)]])
    return sparse.csr_matrix(full)


class Entry:
    def __init__(self, name, variant, mk, kind, force_kw, outs, np_seed=False, custom=None, quick_every=1):
        self.name, self.variant, self.mk, self.kind, self.force_kw, self.outs = name, variant, mk, kind, force_kw, outs
        self.np_seed, self.custom, self.quick_every = np_seed, custom, quick_every

    @property
    def label(self):
        return self.name + ('/' + self.variant if self.variant else '')

    @property
    def tol(self):
        return TOL_ENTRIES.get(self.label, TOL_ENTRIES.get(self.name, 0.0))


def _table():
    """Every public estimator that accepts a biadjacency matrix and for which the block relation is meaningful.
    Exclusions (with reasons) are listed in design-notes/status/C03.md."""
    from sknetwork.ranking import PageRank, Katz
    from sknetwork.clustering import Louvain, Leiden, PropagationClustering, KCenters
    from sknetwork.hierarchy import Paris, LouvainHierarchy, LouvainIteration
    from sknetwork.classification import Propagation, DiffusionClassifier, NNClassifier, PageRankClassifier
    from sknetwork.regression import Diffusion, Dirichlet
    from sknetwork.embedding import Spectral, RandomProjection
    T = []
    for solver, it in (('piteration', 50), ('diteration', 20), ('lanczos', 10), ('bicgstab', 10), ('RH', 30)):
        T.append(Entry('PageRank', solver, (lambda solver=solver, it=it: PageRank(solver=solver, n_iter=it)), 'weights', True,
                       ['scores']))
    T.append(Entry('Katz', '', lambda: Katz(), None, False, ['scores']))
    for mod in ('newman', 'potts', 'dugue'):
        T.append(Entry('Louvain', mod, (lambda mod=mod: Louvain(modularity=mod, shuffle_nodes=False, random_state=0)), None, True,
                       ['labels', 'probs']))
        T.append(Entry('Leiden', mod, (lambda mod=mod: Leiden(modularity=mod, shuffle_nodes=False, random_state=0)), None, True,
                       ['labels', 'probs']))
    T.append(Entry('PropagationClustering', '', lambda: PropagationClustering(), None, False, ['labels', 'probs']))
    for ni in (1, 5):
        T.append(Entry('KCenters', 'both,n_init=%d' % ni,
                       (lambda ni=ni: KCenters(n_clusters=2, center_position='both', n_init=ni)), None, True, ['labels'],
                       np_seed=True, custom=_compare_centers, quick_every=3 if ni > 1 else 1))   # 5 restarts: slow
    T.append(Entry('Paris', '', lambda: Paris(), None, True, ['dendrogram']))
    T.append(Entry('LouvainHierarchy', '', lambda: LouvainHierarchy(shuffle_nodes=False, random_state=0), None, True, ['dendrogram']))
    T.append(Entry('LouvainIteration', '', lambda: LouvainIteration(shuffle_nodes=False, random_state=0), None, True, ['dendrogram']))
    T.append(Entry('Propagation', '', lambda: Propagation(), 'labels', False, ['labels', 'probs']))
    T.append(Entry('DiffusionClassifier', '', lambda: DiffusionClassifier(), 'labels', True, ['labels', 'probs']))
    T.append(Entry('NNClassifier', '', lambda: NNClassifier(n_neighbors=2), 'labels', False, ['labels', 'probs']))
    T.append(Entry('PageRankClassifier', '', lambda: PageRankClassifier(), 'labels', False, ['labels', 'probs']))
    T.append(Entry('Diffusion', '', lambda: Diffusion(), 'values', True, ['values']))
    T.append(Entry('Dirichlet', '', lambda: Dirichlet(), 'values', True, ['values']))
    T.append(Entry('Spectral', '', lambda: Spectral(2), None, True, ['embedding']))
    T.append(Entry('RandomProjection', '', lambda: RandomProjection(2, random_state=0), None, True, ['embedding']))
    # the columns `force_kw` and `kind` are read off the real signatures, so that the table cannot drift from the code
    import inspect
    for e in T:
        params = inspect.signature(type(e.mk()).fit).parameters
        if ('force_bipartite' in params) != e.force_kw:
            raise ToolFailure('table of c03.py: %s.fit %s force_bipartite, the table says force_kw=%s'
                              % (e.name, 'has' if 'force_bipartite' in params else 'has no', e.force_kw))
        kinds = {k for k in KW if k + '_row' in params}
        if kinds != ({e.kind} if e.kind else set()):
            raise ToolFailure('table of c03.py: %s.fit takes the seed keywords %s, the table says kind=%r' % (e.name, sorted(kinds), e.kind))
    return T


KW = {'weights': 'weights', 'labels': 'labels', 'values': 'values'}
DEFAULT = {'weights': 0.0, 'labels': -1, 'values': -1.0}
POOL = {'weights': [1.0, 2.0, 3.0], 'labels': [0, 1, 2], 'values': [0.0, 1.0, 2.5, 4.0]}


def _seed_sets(rng, kind, nr, nc):
    """All seed placements for one matrix, as JSON-able records
    {'style', 'form', 'row', 'col'} with row / col = None | {index: value}; the keyword forms are
      rowcol    : X_row= / X_col=                      (force_bipartite implied)
      plain     : X=<row seeds>                        (rectangular B, or the flag given)
      plain+col : X=<row seeds>, X_col=<column seeds>  (the unsuffixed keyword is the alias of X_row)
      none      : no seeds at all"""
    if kind is None:
        return [{'style': 'none', 'form': 'none', 'row': None, 'col': None}]
    out = []
    if kind in ('weights', 'values'):
        out.append({'style': 'none', 'form': 'none', 'row': None, 'col': None})
    pool = POOL[kind]
    for form in ('dict', 'array', 'list'):
        for place in ('row', 'col', 'both'):
            lo = 2 if (kind == 'labels' and place != 'both') else 1       # classifiers want two classes: two seeds on a lone side
            rk = sorted(rng.sample(range(nr), rng.randint(min(lo, nr), min(2, nr)))) if place in ('row', 'both') else []
            ck = sorted(rng.sample(range(nc), rng.randint(min(lo, nc), min(2, nc)))) if place in ('col', 'both') else []
            rv = {int(k): rng.choice(pool) for k in rk}
            cv = {int(k): rng.choice(pool) for k in ck}
            if kind == 'labels' and len(set(rv.values()) | set(cv.values())) < 2 and len(rv) + len(cv) > 1:
                # two classes whenever two seeds are drawn (a single class is re-numbered by which='labels': kept, rarer)
                if rng.random() < 0.9:
                    ks = [('r', k) for k in rk] + [('c', k) for k in ck]
                    for t, (side, k) in enumerate(ks):
                        (rv if side == 'r' else cv)[k] = t % 2
            styles = ['rowcol']
            if place == 'row':
                styles.append('plain')
            if place == 'both':
                styles.append('plain+col')
            for style in styles:
                out.append({'style': style, 'form': form, 'row': rv or None, 'col': cv or None})
    return out


def _materialise(kind, form, d, n):
    """dict seeds {i: v} in the requested form"""
    if d is None:
        return None
    if form == 'dict':
        return {int(k): v for k, v in d.items()}
    arr = [d.get(i, DEFAULT[kind]) for i in range(n)]
    if kind == 'labels':
        arr = [int(x) for x in arr]
    return arr if form == 'list' else np.array(arr, dtype=int if kind == 'labels' else float)


def _stack_ref(kind, seeds, nr, nc):
    """The seeds of the block form, stacked HERE: row node i at i, column node j at n_row + j, the default value in the
    part that was not given (the documented meaning of values_row / values_col); None when there are no seeds."""
    r, c = seeds['row'], seeds['col']
    if r is None and c is None:
        return None
    if seeds['form'] == 'dict':
        st = {int(k): v for k, v in (r or {}).items()}
        st.update({nr + int(k): v for k, v in (c or {}).items()})
        return st
    arr = [(r or {}).get(i, DEFAULT[kind]) for i in range(nr)] + [(c or {}).get(j, DEFAULT[kind]) for j in range(nc)]
    return np.array(arr, dtype=int if kind == 'labels' else float)


def _kw_b(kind, seeds, nr, nc, force):
    """keyword arguments of the fit on B"""
    kw = {}
    if force:
        kw['force_bipartite'] = True
    if kind is not None:
        base = KW[kind]
        r = _materialise(kind, seeds['form'], seeds['row'], nr)
        c = _materialise(kind, seeds['form'], seeds['col'], nc)
        if seeds['style'] == 'rowcol':
            if r is not None:
                kw[base + '_row'] = r
            if c is not None:
                kw[base + '_col'] = c
        elif seeds['style'] == 'plain':
            kw[base] = r
        elif seeds['style'] == 'plain+col':
            kw[base] = r
            kw[base + '_col'] = c
    return kw


def _fit_b(est, kind, x, seeds, nr, nc, force):
    return est.fit(x, **_kw_b(kind, seeds, nr, nc, force))


def _fit_a(est, kind, a, stacked):
    if kind is None or stacked is None:
        return est.fit(a)
    return est.fit(a, **{KW[kind]: stacked})


def _dense(x):
    return x.toarray() if sparse.issparse(x) else np.asarray(x)


def _eq(x, y, tol):
    x, y = np.asarray(x), np.asarray(y)
    if x.shape != y.shape:
        return False
    if tol == 0:
        return bool(np.array_equal(x, y))
    return bool(np.allclose(x, y, rtol=0, atol=tol, equal_nan=True))


def _split_ref(dendrogram, nr, nc, side):
    """Independent reference for the dendrogram of one side: the merges of the full dendrogram that join two clusters
    which both meet the side, with the number of side leaves as size (by leaf sets, not by the bookkeeping of
    split_dendrogram)."""
    n = nr + nc
    sel = set(range(nr)) if side == 'row' else set(range(nr, n))
    leaves = {i: frozenset([i]) for i in range(n)}
    ident = {frozenset([i]): (i if side == 'row' else i - nr) for i in sel}
    nxt = len(sel)
    out = []
    for t in range(len(dendrogram)):
        a, b = int(dendrogram[t, 0]), int(dendrogram[t, 1])
        la, lb = leaves[a], leaves[b]
        leaves[n + t] = la | lb
        sa, sb = la & sel, lb & sel
        if sa and sb:
            out.append([ident[frozenset(sa)], ident[frozenset(sb)], dendrogram[t, 2], len(sa) + len(sb)])
            ident[frozenset(sa | sb)] = nxt
            nxt += 1
    return np.array(out, dtype=float).reshape(len(out), 4)


def _compare(eb, ea, outs, nr, nc, tol):
    """None if the relation holds, else (output, reason code, text)."""
    for o in outs:
        if o == 'dendrogram':
            full = getattr(eb, 'dendrogram_full_', None)
            if full is None or not _eq(full, ea.dendrogram_, tol):
                return o, 'full-differs', 'dendrogram_full_ differs from the dendrogram of the block adjacency'
            ref_r, ref_c = _split_ref(np.asarray(ea.dendrogram_), nr, nc, 'row'), _split_ref(np.asarray(ea.dendrogram_), nr, nc, 'col')
            if getattr(eb, 'dendrogram_row_', None) is None or getattr(eb, 'dendrogram_col_', None) is None:
                return o, 'missing', 'dendrogram_row_ / dendrogram_col_ missing'
            if not _eq(np.asarray(eb.dendrogram_row_, dtype=float).reshape(-1, 4), ref_r, tol):
                return o, 'row-differs', 'dendrogram_row_ is not the block dendrogram restricted to the row nodes'
            if not _eq(np.asarray(eb.dendrogram_col_, dtype=float).reshape(-1, 4), ref_c, tol):
                return o, 'col-differs', 'dendrogram_col_ is not the block dendrogram restricted to the column nodes'
            if not _eq(np.asarray(eb.dendrogram_, dtype=float).reshape(-1, 4), ref_r, tol):
                return o, 'unsuffixed-differs', 'unsuffixed dendrogram_ is not the row dendrogram'
            continue
        whole = _dense(getattr(ea, o + '_'))
        row = getattr(eb, o + '_row_', None)
        col = getattr(eb, o + '_col_', None)
        plain = getattr(eb, o + '_', None)
        if row is None or col is None or plain is None:
            return o, 'missing', '%s_row_ / %s_col_ / %s_ missing' % (o, o, o)
        row, col, plain = _dense(row), _dense(col), _dense(plain)
        if whole.shape[0] != nr + nc:
            return o, 'block-shape', 'the block fit has %d entries, not n_row + n_col' % whole.shape[0]
        if row.ndim != whole.ndim or (whole.ndim == 2 and (row.shape[1] != whole.shape[1] or col.shape[1] != whole.shape[1])):
            return o, 'shape-differs', '%s has %s / %s columns, the block fit %s' % (o, row.shape[1:], col.shape[1:], whole.shape[1:])
        if row.shape[0] != nr or not _eq(row, whole[:nr], tol):
            return o, 'row-differs', '%s_row_ is not the first n_row entries of the block fit' % o
        if col.shape[0] != nc or not _eq(col, whole[nr:], tol):
            return o, 'col-differs', '%s_col_ is not the remaining n_col entries of the block fit' % o
        if not _eq(plain, whole[:nr], tol):
            return o, 'unsuffixed-differs', 'unsuffixed %s_ is not the row output' % o
    return None


def _same_obj(x, y):
    if x is None or y is None:
        return x is None and y is None
    return _eq(_dense(x), _dense(y), 0)


def _check_methods(eb, e, x, kw, np_seed):
    """predict / predict_proba / transform (columns=False / True) and fit_predict / fit_transform on B return the
    unsuffixed (= row) and the column attributes."""
    attr = {'scores': 'scores', 'labels': 'labels', 'values': 'values', 'embedding': 'embedding', 'dendrogram': 'dendrogram'}[e.outs[0]]
    for meth, base in (('predict', attr), ('predict_proba', 'probs'), ('transform', 'probs' if hasattr(eb, 'probs_') else attr)):
        f = getattr(eb, meth, None)
        if f is None or (meth == 'predict_proba' and 'probs' not in e.outs):
            continue
        if not _same_obj(f(), getattr(eb, base + '_')):
            return base, 'method-differs', '%s() is not %s_' % (meth, base)
        import inspect
        if 'columns' in inspect.signature(f).parameters and not _same_obj(f(columns=True), getattr(eb, base + '_col_')):
            return base, 'method-differs', '%s(columns=True) is not %s_col_' % (meth, base)
    if np_seed % 4 == 0 and hasattr(eb, 'fit_predict'):
        # a second fit through fit_predict (same arguments): returns the unsuffixed (= row) output
        if e.np_seed:
            np.random.seed(np_seed)
        got, err = _try(lambda: e.mk().fit_predict(x, **kw))
        if err or not _same_obj(got, getattr(eb, attr + '_')):
            return attr, 'method-differs', 'fit_predict on B is not %s_ (%s)' % (attr, err)
    return None


def _compare_centers(eb, ea, nr, nc):
    """KCenters: centers_ are block-numbered, centers_row_ the ones below n_row, centers_col_ the others minus n_row."""
    cb, ca = np.asarray(eb.centers_), np.asarray(ea.centers_)
    if not np.array_equal(cb, ca):
        return 'centers', 'differs', 'centers_ differ from the centres of the block fit'
    cr = np.asarray(eb.centers_row_) if eb.centers_row_ is not None else np.array([], dtype=int)
    cc = np.asarray(eb.centers_col_) if eb.centers_col_ is not None else np.array([], dtype=int)
    if sorted(cr.tolist()) != sorted(int(c) for c in ca if c < nr) or sorted(cc.tolist()) != sorted(int(c) - nr for c in ca if c >= nr):
        return 'centers', 'split-differs', 'centers_row_ / centers_col_ are not the centres of the block fit, split at n_row'
    return None


def _nonconstant(ea, outs):
    for o in outs:
        if o == 'dendrogram':
            if len(np.asarray(ea.dendrogram_)) >= 2:
                return True
            continue
        w = _dense(getattr(ea, o + '_')).astype(float)
        if w.size and np.ptp(w) > 0:
            return True
    return False


def _try(f):
    w = _quiet()
    try:
        return f(), None
    except Exception as e:    # noqa: the class is part of the comparison
        return None, type(e).__name__ + ': ' + str(e)[:80]
    finally:
        w.__exit__(None, None, None)


def _zero_positions(dense):
    """where the 'csr-zeros' container stores explicit zeros: the null entries (i, j) with (i + 2 j) % 3 == 0"""
    d = np.asarray(dense)
    return [(i, j) for i in range(d.shape[0]) for j in range(d.shape[1]) if d[i, j] == 0 and (i + 2 * j) % 3 == 0]


def _with_stored_zeros(dense, block=False):
    """B (or its block adjacency, rows first) as CSR with explicit zeros stored at `_zero_positions` (mirrored in the block):
    built from COO triples here, not by the code under test"""
    d = np.asarray(dense)
    nr, nc = d.shape
    ent = [(i, j, d[i, j]) for i in range(nr) for j in range(nc) if d[i, j] != 0] + [(i, j, 0) for i, j in _zero_positions(d)]
    if block:
        ent = [(i, nr + j, v) for i, j, v in ent] + [(nr + j, i, v) for i, j, v in ent]
    n, m = (nr + nc, nr + nc) if block else (nr, nc)
    out = sparse.csr_matrix((np.array([e[2] for e in ent], dtype=d.dtype), ([e[0] for e in ent], [e[1] for e in ent])), shape=(n, m))
    out.sort_indices()
    return out


def _input_of(dense, container, rng_shuffle=None):
    if container == 'csr-zeros':
        return _with_stored_zeros(dense)
    m = sparse.csr_matrix(dense)
    if container == 'csr-unsorted':
        for i in range(m.shape[0]):
            lo, hi = m.indptr[i], m.indptr[i + 1]
            m.indices[lo:hi] = m.indices[lo:hi][::-1].copy()
            m.data[lo:hi] = m.data[lo:hi][::-1].copy()
        m.has_sorted_indices = False
        return m
    return _container(m, container)


class Outcomes:
    """per entry: how many cases were compared, how many ended with both forms raising"""
    def __init__(self):
        self.d = {}

    def add(self, label, key, k=1):
        self.d.setdefault(label, {'compared': 0, 'both-raise': 0, 'nontrivial': 0, 'seconds': 0.0})[key] += k


def relation_one(tgt, e, dense, container, seeds, np_seed, force_kw_used, outcomes=None):
    """One recorded relation case: entry `e` on the biadjacency `dense` (given in `container`) with `seeds`."""
    dense = np.asarray(dense)
    nr, nc = dense.shape
    square = nr == nc
    x = _input_of(dense, container)
    # stored zeros are part of the input of Propagation / PropagationClustering (a stored zero counts as a neighbour: C13's
    # matter, on plain graphs alike), so the reference block stores the mirrored zeros
    a = _with_stored_zeros(dense, block=True) if container == 'csr-zeros' else _block_ref(dense)
    stacked = _stack_ref(e.kind, seeds, nr, nc)
    sig = {'entry': e.name, 'variant': e.variant, 'relation': 'bipartite-as-block', 'seeds': seeds['style']}
    desc = {'f': 'relation', 'entry': e.label, 'biadjacency': {'shape': [nr, nc], 'dense': dense.tolist(), 'dtype': str(dense.dtype),
                                                              'container': container},
            'seeds': {'style': seeds['style'], 'form': seeds['form'],
                      'row': None if seeds['row'] is None else {str(k): v for k, v in seeds['row'].items()},
                      'col': None if seeds['col'] is None else {str(k): v for k, v in seeds['col'].items()}},
            'np_seed': np_seed, 'force_bipartite_keyword': force_kw_used}
    key = (e.label, dense.shape, str(dense.dtype), container, tuple(dense.ravel().tolist()), json.dumps(desc['seeds'], sort_keys=True),
           force_kw_used)

    def fit_b():
        if e.np_seed:
            np.random.seed(np_seed)
        return _fit_b(e.mk(), e.kind, x, seeds, nr, nc, force_kw_used)

    def fit_a(st=stacked, adj=a, mk=e.mk):
        if e.np_seed:
            np.random.seed(np_seed)
        return _fit_a(mk(), e.kind, adj, st)
    t0 = time.time()
    eb, err_b = _try(fit_b)
    ea, err_a = _try(fit_a)
    if outcomes is not None:
        outcomes.add(e.label, 'seconds', time.time() - t0)
    tgt.count('relation:' + e.label)
    if err_b or err_a:
        if outcomes is not None and err_b and err_a:
            outcomes.add(e.label, 'both-raise')
        tgt.case(key, False, None)
        if bool(err_b) != bool(err_a):
            tgt.spec_fail(dict(sig, output='*', reason='raises-B-only' if err_b else 'raises-block-only'), desc,
                          {'why': 'one form raises, the other does not', 'biadjacency_form': err_b, 'block_form': err_a})
        elif err_b.split(':')[0] != err_a.split(':')[0]:
            tgt.spec_fail(dict(sig, output='*', reason='exception-class-differs'), desc,
                          {'why': 'the two forms raise different exceptions', 'biadjacency_form': err_b, 'block_form': err_a})
        return
    if outcomes is not None:
        outcomes.add(e.label, 'compared')
    dugue = e.variant == 'dugue' and e.name in ('Louvain', 'Leiden')
    why = _compare(eb, ea, e.outs, nr, nc, e.tol)
    if why is None and e.custom is not None:
        why = e.custom(eb, ea, nr, nc)
    if why is None:
        why = _check_methods(eb, e, x, _kw_b(e.kind, seeds, nr, nc, force_kw_used), np_seed)
    nontrivial = bool(dense.any()) and _nonconstant(ea, e.outs)
    if nontrivial and outcomes is not None:
        outcomes.add(e.label, 'nontrivial')
    tgt.case(key, nontrivial, {'entry': e.label, 'biadjacency': dense.tolist(), 'seeds': desc['seeds'], 'holds': why is None})
    if why is not None:
        out, reason, text = why
        detail = {'why': text}
        # documented deviations: each is accepted only if the compensating comparison holds for EVERY output
        comp = None
        if dugue and reason in ('row-differs', 'col-differs', 'shape-differs'):
            if _compare_dugue(eb, fit_a, dense, e.tol) is None:
                comp = 'equals-directed-block-fit'
        elif seeds['style'] == 'none' and e.kind in ('weights', 'values') and reason in ('row-differs', 'col-differs'):
            dflt = np.concatenate([np.ones(nr), DEFAULT[e.kind] * np.ones(nc)])
            ed, err = _try(lambda: fit_a(dflt))
            if err is None and _compare(eb, ed, e.outs, nr, nc, e.tol) is None:
                comp = 'equals-block-fit-seeded-on-rows-only'
        if comp is not None:
            out, reason = ','.join(e.outs), comp
            detail['compensating_check'] = comp + ' (all outputs)'
        tgt.spec_fail(dict(sig, output=out, reason=reason), desc, detail)
    # the documented semantics of the default modularity is checked in full as well, on every case
    if dugue:
        whyd = _compare_dugue(eb, fit_a, dense, e.tol)
        if whyd is not None:
            tgt.spec_fail(dict(sig, relation='bipartite-as-directed-block', output=whyd[0], reason=whyd[1]), desc,
                          {'why': 'modularity="dugue" documents Barber\'s modularity, i.e. the labels of the fit on [[0,B],[0,0]] '
                                  '(probs from B and B^T with these labels): ' + str(whyd[2])})


def _membership_probs(a, labels):
    """normalize(A . membership(labels)) computed with numpy: row i = share of the weight of i going to each label"""
    labels = np.asarray(labels)
    k = int(labels.max()) + 1 if len(labels) else 0
    m = np.zeros((len(labels), k))
    m[np.arange(len(labels))[labels >= 0], labels[labels >= 0]] = 1
    p = np.asarray(a, dtype=float).dot(m)
    norm = np.abs(p).sum(axis=1)
    norm[norm == 0] = 1
    return p / norm[:, None]


def _compare_dugue(eb, fit_a, dense, tol):
    """Louvain / Leiden with modularity='dugue' on B: the labels (row, column, unsuffixed) are those of the fit on the
    DIRECTED block [[0,B],[0,0]]; the probabilities are the membership shares in the undirected block graph."""
    nr, nc = dense.shape
    ed, err = _try(lambda: fit_a(None, _block_ref(dense, directed=True)))
    if err:
        return '*', 'raises-block-only', err
    why = _compare(eb, ed, ['labels'], nr, nc, tol)
    if why is not None:
        return why
    ref = _membership_probs(_block_ref(dense).toarray(), np.asarray(ed.labels_))
    for name, part in (('probs_row_', ref[:nr]), ('probs_col_', ref[nr:]), ('probs_', ref[:nr])):
        got = getattr(eb, name, None)
        if got is None:
            return 'probs', 'missing', name + ' missing'
        got = _dense(got)
        if got.shape != part.shape or not np.allclose(got, part, rtol=0, atol=1e-12):
            return 'probs', 'differs', name + ' is not the membership share computed from the block adjacency and the labels'
    return None


def emptydict_one(tgt, e, dense, side, other):
    """An empty dict on one side (np.min of an empty array): `get_values` refuses `{}` wherever it meets it, so the fit on B
    with `X_row={}` (or `X_col={}`) beside real seeds on the other side raises ValueError, like `X={}` on the block
    adjacency does. (Merging the two dicts into one block dict would hide the empty side: theorem
    `emptydict_refused_both_forms`.)"""
    dense = np.asarray(dense)
    nr, nc = dense.shape
    base = KW[e.kind]
    kw = {base + '_row': {} if side == 'row' else other, base + '_col': other if side == 'row' else {}}
    _, err_b = _try(lambda: e.mk().fit(sparse.csr_matrix(dense), **kw))
    _, err_a = _try(lambda: e.mk().fit(_block_ref(dense), **{base: {}}))
    sig = {'entry': e.name, 'variant': e.variant, 'relation': 'bipartite-as-block', 'seeds': 'emptydict-' + side}
    desc = {'f': 'emptydict', 'entry': e.label, 'side': side, 'other': {str(k): v for k, v in other.items()},
            'biadjacency': {'shape': [nr, nc], 'dense': dense.tolist(), 'dtype': str(dense.dtype), 'container': 'csr'}}
    tgt.count('relation:emptydict')
    tgt.case(('emptydict', e.label, side, dense.shape, tuple(dense.ravel().tolist()), json.dumps(desc['other'], sort_keys=True)), False, None)
    cb, ca = (err_b or 'no exception').split(':')[0], (err_a or 'no exception').split(':')[0]
    if cb != ca or cb != 'ValueError':
        tgt.spec_fail(dict(sig, output='*', reason='refusal-differs'), desc,
                      {'why': 'an empty dict on one side must be refused (ValueError) in both forms', 'biadjacency_form': err_b,
                       'block_form': err_a})


def relation_cases(ctx, mats, seeds_per=2, sub=None, outcomes=None, only=None):
    """Evaluate the relation for every entry of the table on the given (dense, container) biadjacency matrices."""
    tgt = sub or ctx
    rng = ctx.rng
    table = [e for e in _table() if only is None or e.name in only]
    for mi, (dense, container) in enumerate(mats):
        nr, nc = dense.shape
        square = nr == nc
        for e in table:
            if mi % e.quick_every:          # the slow variants run on every third matrix (both tiers)
                continue
            if e.kind is not None and rng.random() < 0.2:
                side = rng.choice(['row', 'col'])
                n_other = nc if side == 'row' else nr
                emptydict_one(tgt, e, dense, side, {int(rng.randrange(n_other)): POOL[e.kind][0]})
            seeds = _seed_sets(rng, e.kind, nr, nc)
            if len(seeds) > seeds_per:
                # the no-seed form (where it exists) in a third of the draws, the rest sampled from the placements
                first = [s for s in seeds if s['style'] == 'none'][:1] if rng.random() < 0.34 else []
                seeds = first + rng.sample([s for s in seeds if s['style'] != 'none'], seeds_per - len(first))
            for s in seeds:
                implied = s['style'] in ('rowcol', 'plain+col')        # *_row / *_col given: the flag is implied
                if square and not implied and not e.force_kw:
                    continue            # a square matrix cannot be declared bipartite to this estimator in this form
                # the flag: needed on a square matrix unless implied; otherwise given half of the time (must not matter)
                force = e.force_kw and ((square and not implied) or rng.random() < 0.5)
                relation_one(tgt, e, dense, container, s, rng.randrange(1000), force, outcomes)
                if e.name == 'Spectral' and square and not np.array_equal(dense, dense.T):
                    # get_adjacency(allow_directed=False): a square NON-symmetric matrix is a biadjacency matrix by itself
                    tgt.count('relation:Spectral:square-asymmetric-without-flag')
                    relation_one(tgt, e, dense, container, s, 0, False, outcomes)


# -- structure functions and other functions with their own output forms ---------------------------
def _same_partition(x, y):
    x, y = list(map(int, x)), list(map(int, y))
    if len(x) != len(y):
        return False
    m1, m2 = {}, {}
    for a, b in zip(x, y):
        if m1.setdefault(a, b) != b or m2.setdefault(b, a) != a:
            return False
    return True


def structure_one(tgt, dense, container, force, outcomes=None):
    from sknetwork.topology import get_connected_components, is_connected, get_largest_connected_component
    dense = np.asarray(dense)
    nr, nc = dense.shape
    x = _input_of(dense, container)
    # scipy's connected_components follows stored zeros (on plain graphs alike): the reference block stores them too
    a = _with_stored_zeros(dense, block=True) if container == 'csr-zeros' else _block_ref(dense)
    bdesc = {'shape': [nr, nc], 'dense': dense.tolist(), 'dtype': str(dense.dtype), 'container': container}
    kw = {'force_bipartite': True} if force else {}

    def sig(entry, out, reason):
        return {'entry': entry, 'variant': '', 'relation': 'bipartite-as-block', 'seeds': 'none', 'output': out, 'reason': reason}

    def desc(entry):
        return {'f': 'structure', 'entry': entry, 'biadjacency': bdesc, 'force_bipartite_keyword': force}
    # get_connected_components / is_connected
    (rb, err_b) = _try(lambda: (get_connected_components(x, **kw), is_connected(x, **kw)))
    (ra, err_a) = _try(lambda: (get_connected_components(a), is_connected(a)))
    key = ('cc', dense.shape, container, tuple(dense.ravel().tolist()), force)
    tgt.count('relation:get_connected_components')
    if err_b or err_a:
        tgt.case(key, False, None)
        if outcomes is not None and err_b and err_a:
            outcomes.add('get_connected_components', 'both-raise')
        if bool(err_b) != bool(err_a) or err_b.split(':')[0] != err_a.split(':')[0]:
            tgt.spec_fail(sig('get_connected_components', '*', 'raises-differently'), desc('get_connected_components'),
                          {'why': 'the two forms do not raise alike', 'biadjacency_form': err_b, 'block_form': err_a})
    else:
        lb, cb = rb
        la, ca = ra
        if outcomes is not None:
            outcomes.add('get_connected_components', 'compared')
        ok = _same_partition(lb, la)
        nt = bool(dense.any()) and len(set(map(int, la))) > 1
        if nt and outcomes is not None:
            outcomes.add('get_connected_components', 'nontrivial')
        tgt.case(key, nt, {'entry': 'get_connected_components', 'biadjacency': dense.tolist(), 'holds': bool(ok and cb == ca)})
        if not ok:
            tgt.spec_fail(sig('get_connected_components', 'labels', 'partition-differs'), desc('get_connected_components'),
                          {'why': 'components of B (rows then columns) are not those of the block adjacency',
                           'bip': list(map(int, lb)), 'block': list(map(int, la))})
        if bool(cb) != bool(ca):
            tgt.spec_fail(sig('is_connected', 'bool', 'differs'), desc('is_connected'),
                          {'why': 'is_connected differs', 'bip': bool(cb), 'block': bool(ca)})
    # get_largest_connected_component with the index: rows, then columns in column numbering (documented)
    (rb, err_b) = _try(lambda: get_largest_connected_component(x, return_index=True, **kw))
    (ra, err_a) = _try(lambda: get_largest_connected_component(a, return_index=True))
    key = ('lcc', dense.shape, container, tuple(dense.ravel().tolist()), force)
    tgt.count('relation:get_largest_connected_component')
    if err_b or err_a:
        tgt.case(key, False, None)
        if outcomes is not None and err_b and err_a:
            outcomes.add('get_largest_connected_component', 'both-raise')
        if bool(err_b) != bool(err_a) or err_b.split(':')[0] != err_a.split(':')[0]:
            tgt.spec_fail(sig('get_largest_connected_component', '*', 'raises-differently'), desc('get_largest_connected_component'),
                          {'why': 'the two forms do not raise alike', 'biadjacency_form': err_b, 'block_form': err_a})
        return
    if outcomes is not None:
        outcomes.add('get_largest_connected_component', 'compared')
    (mb, ib), (ma, ia) = rb, ra
    ib, ia = np.asarray(ib), np.asarray(ia)
    k = mb.shape[0]                                     # number of row nodes of the component
    why = None
    if len(ib) != mb.shape[0] + mb.shape[1]:
        why = ('index', 'length', 'the index has %d entries, the returned biadjacency %d + %d nodes' % (len(ib), mb.shape[0], mb.shape[1]))
    elif not np.array_equal(np.concatenate([ib[:k], nr + ib[k:]]), ia):
        why = ('index', 'differs', 'index (rows, then n_row + columns) is not the index returned for the block adjacency')
    elif not np.array_equal(_block_ref(mb.toarray()).toarray(), ma.toarray()):
        why = ('matrix', 'differs', 'the block adjacency of the returned biadjacency is not the component of the block adjacency')
    nt = bool(dense.any()) and len(ia) < nr + nc
    if nt and outcomes is not None:
        outcomes.add('get_largest_connected_component', 'nontrivial')
    tgt.case(key, nt, {'entry': 'get_largest_connected_component', 'biadjacency': dense.tolist(), 'holds': why is None})
    if why:
        tgt.spec_fail(sig('get_largest_connected_component', why[0], why[1]), desc('get_largest_connected_component'),
                      {'why': why[2], 'index_bip': ib.tolist(), 'index_block': ia.tolist()})


def modularity_one(tgt, dense, outcomes=None):
    """get_modularity(B, labels_row, labels_col) on a rectangular B against get_modularity(block, labels_row ++ labels_col)
    (the function has no force_bipartite: a square matrix is always an adjacency matrix for it)."""
    from sknetwork.clustering import get_modularity
    dense = np.asarray(dense)
    nr, nc = dense.shape
    a = _block_ref(dense)
    x = sparse.csr_matrix(dense)
    desc = {'f': 'modularity', 'entry': 'get_modularity',
            'biadjacency': {'shape': [nr, nc], 'dense': dense.tolist(), 'dtype': str(dense.dtype), 'container': 'csr'}}
    sig = {'entry': 'get_modularity', 'variant': '', 'relation': 'bipartite-as-block', 'seeds': 'none'}
    for t, (lr, lc) in enumerate([(np.arange(nr) % 2, (np.arange(nc) + 1) % 2), (np.arange(nr) % 3, np.arange(nc) % 2),
                                  (np.zeros(nr, dtype=int), np.arange(nc))]):
        key = ('mod', dense.shape, tuple(dense.ravel().tolist()), t)
        tgt.count('relation:get_modularity')
        (rb, err_b) = _try(lambda: get_modularity(x, lr, lc, return_all=True))
        (ra, err_a) = _try(lambda: get_modularity(a, np.concatenate([lr, lc]), return_all=True))
        if err_b or err_a:
            tgt.case(key, False, None)
            if outcomes is not None and err_b and err_a:
                outcomes.add('get_modularity', 'both-raise')
            if bool(err_b) != bool(err_a) or err_b.split(':')[0] != err_a.split(':')[0]:
                tgt.spec_fail(dict(sig, output='*', reason='raises-differently'), dict(desc, labels=t),
                              {'why': 'the two forms do not raise alike', 'biadjacency_form': err_b, 'block_form': err_a})
            continue
        ok = all(float(u) == float(v) for u, v in zip(rb, ra))
        if outcomes is not None:
            outcomes.add('get_modularity', 'compared')
            if dense.any() and float(ra[0]) != 0.0:
                outcomes.add('get_modularity', 'nontrivial')
        tgt.case(key, bool(dense.any()) and float(ra[0]) != 0.0, {'entry': 'get_modularity', 'biadjacency': dense.tolist(), 'holds': ok})
        if not ok:
            tgt.spec_fail(dict(sig, output='modularity', reason='differs'), dict(desc, labels=t),
                          {'why': 'modularity, fit or diversity of (B, labels_row, labels_col) differ from those of the block adjacency',
                           'bip': [float(u) for u in rb], 'block': [float(v) for v in ra]})


def louvain_embedding_one(tgt, dense, force, outcomes=None):
    """LouvainEmbedding is NOT a function of the block adjacency (a biadjacency matrix is embedded directly: the rows in
    the space of the column clusters that keep at least two COLUMNS, the columns in the space of the row labels), so the
    block relation does not apply. What C03 says about it is checked here: a rectangular matrix, or a square one with
    force_bipartite=True, gets embedding_row_ (n_row rows) and embedding_col_ (n_col rows), the unsuffixed output is
    the row output, labels_ are the labels of the n_col columns and embedding_row_ = normalize(B) . membership(labels_)."""
    from sknetwork.embedding import LouvainEmbedding
    dense = np.asarray(dense)
    nr, nc = dense.shape
    kw = {'force_bipartite': True} if force else {}
    est, err = _try(lambda: LouvainEmbedding(shuffle_nodes=False, random_state=0).fit(sparse.csr_matrix(dense), **kw))
    sig = {'entry': 'LouvainEmbedding', 'variant': '', 'relation': 'bipartite-attributes', 'seeds': 'none'}
    desc = {'f': 'louvain_embedding', 'entry': 'LouvainEmbedding',
            'biadjacency': {'shape': [nr, nc], 'dense': dense.tolist(), 'dtype': str(dense.dtype), 'container': 'csr'},
            'force_bipartite_keyword': force}
    key = ('LE', dense.shape, str(dense.dtype), tuple(dense.ravel().tolist()), force)
    tgt.count('relation:LouvainEmbedding')
    if err:
        tgt.case(key, False, None)
        tgt.spec_fail(dict(sig, output='*', reason='raises'), desc, {'why': 'fit on a biadjacency matrix raises', 'error': err})
        return
    why = None
    er, ec, eu, lab = est.embedding_row_, est.embedding_col_, est.embedding_, est.labels_
    if er is None or ec is None or eu is None:
        why = ('embedding', 'missing', 'embedding_row_ / embedding_col_ missing on bipartite input')
    elif np.asarray(er).shape[0] != nr or np.asarray(ec).shape[0] != nc:
        why = ('embedding', 'shape-differs', 'embedding_row_ has %d rows, embedding_col_ %d (n_row=%d, n_col=%d)'
               % (np.asarray(er).shape[0], np.asarray(ec).shape[0], nr, nc))
    elif not _eq(eu, er, 0):
        why = ('embedding', 'unsuffixed-differs', 'unsuffixed embedding_ is not the row output')
    elif len(np.asarray(lab)) != nc:
        why = ('labels', 'shape-differs', 'labels_ has %d entries: not the labels of the n_col columns' % len(np.asarray(lab)))
    else:
        lab = np.asarray(lab)
        k = int(lab.max()) + 1 if len(lab) and lab.max() >= 0 else 0
        m = np.zeros((nc, k))
        m[np.arange(nc)[lab >= 0], lab[lab >= 0]] = 1
        d = dense.astype(float)
        norm = np.abs(d).sum(axis=1)
        norm[norm == 0] = 1
        ref = (d / norm[:, None]).dot(m)
        if np.asarray(er).shape != ref.shape or not np.allclose(er, ref, rtol=0, atol=1e-12):
            why = ('embedding', 'row-differs', 'embedding_row_ is not normalize(B) . membership(labels_ of the columns)')
    if outcomes is not None:
        outcomes.add('LouvainEmbedding', 'compared')
        if dense.any():
            outcomes.add('LouvainEmbedding', 'nontrivial')
    tgt.case(key, bool(dense.any()), {'entry': 'LouvainEmbedding', 'biadjacency': dense.tolist(), 'holds': why is None})
    if why:
        tgt.spec_fail(dict(sig, output=why[0], reason=why[1]), desc, {'why': why[2]})


def structure_cases(ctx, mats, sub=None, outcomes=None):
    tgt = sub or ctx
    for dense, container in mats:
        nr, nc = dense.shape
        if nr != nc:
            structure_one(tgt, dense, container, False, outcomes)      # a rectangular matrix is bipartite by itself
            louvain_embedding_one(tgt, dense, False, outcomes)
            modularity_one(tgt, dense, outcomes)
        structure_one(tgt, dense, container, True, outcomes)
        louvain_embedding_one(tgt, dense, True, outcomes)


# -- generators ------------------------------------------------------------------------------------
def _matrices(ctx, quick, exhaustive_shapes=None, n_random=None):
    """(dense ndarray, container) pairs"""
    rng = ctx.rng
    mats = []
    shapes = exhaustive_shapes or [(1, 1), (1, 2), (2, 1), (1, 3), (3, 1), (1, 4), (2, 2), (2, 3), (3, 2)]
    for nr, nc in shapes:
        allb = [es for es in graphs.all_bipartite(nr, nc) if es]
        if quick and len(allb) > 4:
            allb = rng.sample(allb, 4)
        for es in allb:
            mats.append((graphs.csr_from_edges(nr, es, m=nc).toarray(), 'csr'))
    for t in range(n_random if n_random is not None else (12 if quick else 100)):
        big = t % 12 == 11                      # one matrix in twelve is larger (7..14 nodes a side)
        nr = rng.randint(7, 14) if big else rng.randint(1, 6)
        nc = nr if rng.random() < 0.35 else (rng.randint(7, 14) if big else rng.randint(1, 6))
        es = graphs.random_edges(rng, nr, rng.choice([0.3, 0.5, 0.8]), m=nc)
        if not es:
            continue
        w = [rng.choice([1, 1, 2, 3]) for _ in es]
        d = graphs.csr_from_edges(nr, es, w, m=nc).toarray()
        r = rng.random()
        if r < 0.2:
            d = d.astype(np.int64)
        elif r < 0.3:
            d = d.astype(bool)
        mats.append((d, ['csr', 'csr-unsorted', 'csc', 'dense', 'csr-zeros', 'csr', 'csr'][t % 7]))     # every container in every run
        ctx.count('relation-matrix:%s:%s' % (d.dtype, mats[-1][1]))
    return mats


def corpus_entries():
    path = os.path.join(VERIF, 'corpus', 'C03.jsonl')
    out = []
    if os.path.exists(path):
        for ln in open(path):
            ln = ln.strip()
            if ln and not ln.startswith('#'):
                out.append(json.loads(ln))
    return out


def run(ctx):
    quick = ctx.quick
    outcomes = Outcomes()
    for rec in corpus_entries():           # minimised past failing inputs first
        _replay_case(ctx, rec['case'], neighbourhood=False, outcomes=outcomes)
        ctx.count('corpus')
    phases = {}

    def phase(name, f):
        t0 = time.time()
        f()
        phases[name] = round(time.time() - t0, 2)
    phase('plumbing', lambda: evaluate(ctx, plumbing_cases(ctx, 300 if quick else 3000), same=_same_plumbing))
    phase('block', lambda: evaluate(ctx, block_cases(ctx, 120 if quick else 1500), same=_same_block))
    phase('split', lambda: evaluate(ctx, split_cases(ctx, 60 if quick else 600)))
    mats = _matrices(ctx, quick)
    phase('relation', lambda: relation_cases(ctx, mats, seeds_per=2 if quick else 4, outcomes=outcomes))
    phase('structure', lambda: structure_cases(ctx, mats, outcomes=outcomes))
    phase('routing', lambda: routing_cases(ctx, quick))
    ctx.extra['phase_seconds'] = phases
    ctx.extra['relation_outcomes'] = outcomes.d
    dead = [k for k, v in outcomes.d.items() if v['compared'] == 0 or v['nontrivial'] == 0]
    if dead and (ctx.spec_failures or ctx.run_disagreements):
        ctx.note('entries never compared non-trivially in this run (reported failures take precedence): %s' % dead)
    elif dead:
        raise ToolFailure('no relation case of %s was compared non-trivially (the reference raises or is constant every time): '
                          'the entry is not being checked' % dead)


def routing_cases(ctx, quick, sub=None):
    """get_distances / get_shortest_path on biadjacency matrices (source / source_row / source_col / transpose /
    force_bipartite, flag set and implied, malformed calls): the run and spec lines of the path model (C10's handlers;
    theorems C10.route_spec, getDistances_exact, getShortestPath_exact, restated for bipartite input in Properties/C03)."""
    from harness import c10
    rng = ctx.rng
    cases = []
    shapes = [(1, 2), (2, 1), (2, 2), (2, 3), (3, 2), (3, 4)]
    for nr, nc in shapes:
        allb = list(graphs.all_bipartite(nr, nc))
        k = 10 if quick else 200
        if len(allb) > k:
            allb = rng.sample(allb, k)
        for es in allb:
            b = c10._mk(nr, es, [1] * len(es), m=nc)
            cases += c10.cases_for_bigraph(ctx, b, rng, full=not quick)
    c10.evaluate(sub or ctx, cases)


# -- failing-input search --------------------------------------------------------------------------
def search(ctx, pending):
    """Hunt for a concrete failing input of the property on the implementation: the relation over the exhaustive small
    0/1 matrices, weighted and square ones, all entries and seed placements (the entries named by the broken tie
    first), the structure functions and the routing lines. Failures that only re-find a recorded known finding are
    dropped BEFORE the list is cut."""
    findings = load_findings()
    ents0 = {str((p[1] or {}).get('entry', '')) for p in pending}

    def related(sig):
        """does this failing input explain a broken tie of one of the pending entries?"""
        ent = sig.get('entry')
        if ents0 <= {'get_values', 'stack_values', 'get_adjacency_values'}:
            return sig.get('seeds') not in (None, 'none')               # a seed-plumbing line: failures that involve seeds
        if ents0 <= {'get_distances', 'get_shortest_path'}:
            return ent in ('get_distances', 'get_shortest_path', 'DiffusionClassifier')
        return sig.get('relation') in ('bipartite-as-block', 'bipartite-attributes')    # block / split / generated obligation
    have = [f for f in ctx.spec_failures if match_finding(findings, ctx.prop, f['sig']) is None and related(f['sig'])]
    if have:
        # the run itself already holds concrete failing inputs of the property that no recorded finding explains
        return [{'sig': f['sig'], 'case': f['case'], 'detail': f['detail']} for f in have[:3]]
    sub = Sub(ctx)
    ents = {str((p[1] or {}).get('entry', '')) for p in pending}
    seeded = {e.name for e in _table() if e.kind is not None}
    cheap = {e.name for e in _table()} - {'KCenters'}
    only, seeds_per, routing = cheap, 2, True
    if ents and ents <= {'get_values', 'stack_values', 'get_adjacency_values'}:
        only, seeds_per, routing = seeded, 3, False                 # a seed-plumbing function moved: hunt with seeds
    elif ents and ents <= {'get_distances', 'get_shortest_path'}:
        only, seeds_per = {'DiffusionClassifier'}, 3               # the routing moved (DiffusionClassifier calls get_distances)
    elif ents and all(x.endswith('._split_vars') or x in ('bipartite2undirected', 'bipartite2directed', 'get_adjacency')
                      for x in ents):
        only, seeds_per, routing = cheap | {'KCenters'}, 1, False   # the block or the split moved: every entry, few seeds
    mats = _matrices(ctx, False, exhaustive_shapes=[(1, 2), (2, 1), (2, 2)], n_random=8)
    more = [es for es in graphs.all_bipartite(2, 3) if es]
    mats += [(graphs.csr_from_edges(2, es, m=3).toarray(), 'csr') for es in ctx.rng.sample(more, 6)]
    relation_cases(ctx, mats, seeds_per=seeds_per, sub=sub, only=only)
    structure_cases(ctx, mats, sub=sub)
    if routing:
        routing_cases(ctx, True, sub=sub)
    fresh = [f for f in sub.spec_failures if match_finding(findings, ctx.prop, f['sig']) is None]
    # one representative per (entry, output, reason), entries named by the pending disagreements first
    seen, out = set(), []
    for f in fresh:
        k = (f['sig'].get('entry'), f['sig'].get('variant'), f['sig'].get('output'), f['sig'].get('reason'))
        if k in seen:
            continue
        seen.add(k)
        out.append({'sig': f['sig'], 'case': f['case'], 'detail': f['detail']})
    return out[:8]


# -- replay ----------------------------------------------------------------------------------------
def _entry_by_label(label):
    for e in _table():
        if e.label == label:
            return e
    raise ToolFailure('replay: unknown entry %r' % label)


def _replay_case(ctx, case, neighbourhood=True, outcomes=None):
    """Re-run exactly the recorded case on the current tree, then (for a replay) its neighbourhood."""
    f = case.get('f')
    if f == 'relation':
        bd = case['biadjacency']
        dense = np.array(bd['dense']).astype(bd.get('dtype', 'float64')).reshape(bd['shape'])
        s = case['seeds']
        seeds = {'style': s['style'], 'form': s['form'],
                 'row': None if s['row'] is None else {int(k): v for k, v in s['row'].items()},
                 'col': None if s['col'] is None else {int(k): v for k, v in s['col'].items()}}
        relation_one(ctx, _entry_by_label(case['entry']), dense, bd.get('container', 'csr'), seeds, case.get('np_seed', 0),
                     bool(case.get('force_bipartite_keyword')), outcomes)
        if neighbourhood:
            relation_cases(ctx, [(dense, bd.get('container', 'csr'))], seeds_per=6, only={_entry_by_label(case['entry']).name})
            relation_cases(ctx, [(dense, 'csr')], seeds_per=3)
    elif f == 'structure':
        bd = case['biadjacency']
        dense = np.array(bd['dense']).astype(bd.get('dtype', 'float64')).reshape(bd['shape'])
        structure_one(ctx, dense, bd.get('container', 'csr'), bool(case.get('force_bipartite_keyword')), outcomes)
        if neighbourhood:
            structure_cases(ctx, [(dense, 'csr')])
    elif f == 'louvain_embedding':
        bd = case['biadjacency']
        dense = np.array(bd['dense']).astype(bd.get('dtype', 'float64')).reshape(bd['shape'])
        louvain_embedding_one(ctx, dense, bool(case.get('force_bipartite_keyword')), outcomes)
        if neighbourhood:
            structure_cases(ctx, [(dense, 'csr')])
    elif f == 'emptydict':
        bd = case['biadjacency']
        emptydict_one(ctx, _entry_by_label(case['entry']), np.array(bd['dense']).astype(bd.get('dtype', 'float64')).reshape(bd['shape']),
                      case['side'], {int(k): v for k, v in case['other'].items()})
    elif f == 'modularity':
        bd = case['biadjacency']
        modularity_one(ctx, np.array(bd['dense']).astype(bd.get('dtype', 'float64')).reshape(bd['shape']), outcomes)
    elif f == 'get_values':
        arr = case.get('array', False)
        cs = [_case_values(case['n'], _dec_values(case['values'], arr), case['default'])]
        if neighbourhood:
            cs += [_case_values(case['n'], _rand_values(ctx.rng, case['n']), case['default']) for _ in range(50)]
        evaluate(ctx, cs, same=_same_plumbing)
    elif f == 'stack_values':
        nr, nc = case['shape']
        arr = case.get('array', [False, False])
        cs = [_case_stack(nr, nc, _dec_values(case['row'], arr[0]), _dec_values(case['col'], arr[1]), case['default'])]
        if neighbourhood:
            cs += [_case_stack(nr, nc, _rand_values(ctx.rng, nr), _rand_values(ctx.rng, nc), case['default']) for _ in range(50)]
        evaluate(ctx, cs, same=_same_plumbing)
    elif f == 'get_adjacency_values':
        m = sparse.csr_matrix(np.array(case['dense'], dtype=float))
        if 'values' not in case and 'line' in case:       # payloads written before the replay was repaired
            t = case['line'].split(' ')
            case = dict(case, allow_directed=t[4] == '1', force_bipartite=t[5] == '1', values=t[6], values_row=t[7],
                        values_col=t[8], default=float(Fraction(t[9])), which=None if t[10] == 'none' else t[10])
        arr = case.get('array', [False, False, False])
        args = (case['allow_directed'], case['force_bipartite'], _dec_values(case['values'], arr[0]),
                _dec_values(case['values_row'], arr[1]), _dec_values(case['values_col'], arr[2]), case['default'], case['which'])
        cs = [_case_adjvals(m, *args)]
        if neighbourhood:
            nr, nc = m.shape
            for _ in range(60):
                cs.append(_case_adjvals(m, ctx.rng.random() < 0.5, ctx.rng.random() < 0.5, _rand_values(ctx.rng, nr, False),
                                        _rand_values(ctx.rng, nr, False), _rand_values(ctx.rng, nc, False), case['default'],
                                        ctx.rng.choice([None, 'probs', 'labels'])))
        evaluate(ctx, cs, same=_same_plumbing)
    elif f == 'block':
        m = _m_of(case['matrix'])
        evaluate(ctx, [_case_block(m, case['directed'])] + ([_case_block(m, not case['directed'])] if neighbourhood else []), same=_same_block)
    elif f == 'get_adjacency':
        m = _m_of(case['matrix'])
        cs = [_case_adjacency(m, case['container'], case['allow_directed'], case['force_bipartite'], case['force_directed'],
                              case['allow_empty'])]
        if neighbourhood:
            for cont in ('csr', 'dense', 'csc', 'coo', 'lil'):
                for ad in (False, True):
                    for fb in (False, True):
                        cs.append(_case_adjacency(m, cont, ad, fb, case['force_directed'], case['allow_empty']))
        evaluate(ctx, cs, same=_same_block)
    elif f == 'split':
        cls = {c[0]: c for c in _split_classes()}[case['class']]
        nr, nc = case['shape']
        evaluate(ctx, _case_split(cls[0], cls[1], cls[2], cls[3], case['bipartite'], nr, nc, case['cols'], case['values']))
    elif f in ('get_distances', 'get_shortest_path') and 'biadjacency' in case:
        from harness import c10
        c10.evaluate(ctx, c10._cases_of(ctx, case, neighbourhood=neighbourhood))
    else:
        raise ToolFailure('replay: the payload does not describe a C03 case (f=%r)' % f)


def replay(ctx, payload):
    case = payload.get('case') or (payload.get('what_no_longer_checks') or {}).get('case') or {}
    if 'f' not in case and 'biadjacency' in case and 'entry' in case:
        raise ToolFailure('replay: payload of the old format (before the replay was repaired); re-run the check to get a new one')
    _replay_case(ctx, case, neighbourhood=True)
