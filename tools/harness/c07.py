"""C07 — Paris, LouvainHierarchy and LouvainIteration always return a valid dendrogram.

Correspondence: every case calls the real code (overlay build of /repo's working tree) and sends
  run  line -> the Lean model (SkNet/Model/Hierarchy.lean, Paris.lean, Dendro.lean) computes the same thing:
               get_dendrogram, reorder_dendrogram, split_dendrogram, the two Louvain tree builders (Louvain itself is
               a recorded parameter), the nearest-neighbour chain of Paris on the same doubles (bit-exact)
  spec line -> the Lean specification (SkNet/Spec/Dendro.lean, Spec/Hierarchy.lean) evaluated on the dendrograms the
               implementation returned; an exception on an admissible graph is a failure of the property too.
"""
import copy
import json
import math
import os
import struct
from fractions import Fraction

import numpy as np
from scipy import sparse

from vlib import graphs
from vlib.cases import Case, Sub, evaluate as _evaluate
from vlib.core import enc_list, enc_bool, dec_list, VERIF
from harness import _dendro as dd

RULE = ('all undirected graphs with at least one edge on n <= 4 nodes (quick; thorough n <= 5), n = 3 with self-loops, sampled '
        'digraphs, 3 000 (thorough 40 000) random unweighted graphs on 7-9 nodes for Paris with degree weights (near-ties of heights), '
        'structured graphs n <= 12 with weights 1, 2, 3 (paths, cycles, stars, cliques, grids, blocks, two components, isolated '
        'nodes, self-loops, directed kinds), 200 (1 500) structured graphs with weights from {0.1, 1/3, 1e-3, 7, 2^24+1, 1e20, 1, 2, 2.5}, '
        '120 (2 500) paths / stars / cycles / random graphs with one or two weights multiplied by 10^(+-20..45) (Paris), 60 (800) graphs '
        'handed over as bool / int64 / float32 / dense / unsorted CSR / CSR with duplicate entries, refits of an already fitted estimator, '
        'stored zero entries (explicit zeros on both sides of a non-adjacent pair, on ONE side only - the matrix stays symmetric '
        'in value -, on the diagonal: all graphs of 3 nodes x every such position, 25 (400) sampled graphs of 4-7 nodes with 1-3 '
        'of them), DIRECTED graphs whose entries have the integer part of their mirror entries (all digraphs of 3 nodes x 0.5; 60 '
        '(1 200) sampled digraphs / DAGs of 4-8 nodes scaled by 0.5 or 0.25, with weights from {0.25, 0.5, 0.75, 0.1, 0.9, 1/3}, with '
        'mirrored pairs differing in the fraction only - 1.25 against 1.75 -, mixed with symmetric pairs and one-way edges >= 1), '
        'all biadjacency matrices up to 2x3 and random ones x {Paris(weights, reorder), '
        'LouvainHierarchy(resolution, shuffle), LouvainIteration(depth, resolution, shuffle)}; random nested trees for '
        'get_dendrogram; random valid dendrograms for reorder_dendrogram / split_dendrogram. A case is non-trivial when the '
        'graph has at least 3 nodes and 2 edges (algorithms) or the tree / dendrogram has at least 3 leaves; distinct = '
        'distinct (function, input, options)')
ASSUMPTIONS = ['Louvain.fit_predict is a parameter of the Louvain tree builders (its recorded labels are replayed by the model)',
               'np.lexsort sorts stably by (height, larger child); np.unique returns the sorted distinct labels',
               'the model starts at the AggregateGraph: the pre-processing of Paris.fit is replayed by the harness - format checks and '
               "get_probs with the library's own helpers; the symmetry test (entry by entry on the values), A + A^T, the removal of "
               'explicit zeros and the unit diagonal with scipy operations written in the harness, so that a wrong is_symmetric / '
               'directed2undirected shows as a disagreement of the chain',
               'every estimator fit runs in a supervised worker process; a fit that does not return within 30 s (5 s / 1.5 s after '
               'repeated cases) is stopped and reported as `err DidNotReturn`, a failure of the property like an exception',
               'edge weights are non-negative, at least one is positive',
               'on this platform (x86-64, SSE2 doubles, no FMA contraction in the compiled kernel) the chain of Paris is compared bit for bit; '
               'elsewhere the comparison would need the margins of DESIGN 8',
               'Paris is compared on IEEE doubles / floats bit for bit (Lean Float, Float32 = C double, float)']


def _call(f):
    """Run the implementation; every exception (RecursionError, MemoryError … included, not only the five classes of
    the models) becomes the answer `err <class>`: on an admissible input that is a failure of the property."""
    try:
        return f()
    except Exception as e:                                         # noqa: BLE001 - deliberate: nothing may escape as a tool failure
        return 'err ' + type(e).__name__


def _bits(x):
    return str(struct.unpack('<Q', struct.pack('<d', float(x)))[0])


# ---------------------------------------------------------------------------------------------------
# the estimators run in a supervised worker process: a fit that does not return (Paris on neighbour lists that are
# not symmetric can walk its chain round a directed cycle for ever, inside compiled code that no signal handler
# interrupts) is a failure of the property like an exception, not a check that never ends
# ---------------------------------------------------------------------------------------------------
ATTRS = ('dendrogram_', 'dendrogram_row_', 'dendrogram_col_', 'dendrogram_full_')
_SUP = {'proc': None, 'conn': None, 'hangs': 0, 'skipped': 0}
HANG_LIMIT = 40


def _fit_job(kind, opts, a, force_bipartite, container, refit, via, capture):
    """(in the worker) build the estimator, fit, return (status, fitted attributes, captured tree / Louvain calls)"""
    from sknetwork.hierarchy import Paris, LouvainHierarchy, LouvainIteration
    alg = {'Paris': Paris, 'LouvainHierarchy': LouvainHierarchy, 'LouvainIteration': LouvainIteration}[kind](**opts)
    bip = force_bipartite or a.shape[0] != a.shape[1]
    rec = {}

    def f():
        if refit is not None:
            alg.fit(_gfrom(refit))
        x = _container(a, container)
        if capture:
            rec.update(_fit_capture(alg, x, force_bipartite))
            return 'ok'
        if via is None:
            alg.fit(x, force_bipartite=force_bipartite)
            return 'ok'
        # the other entry points of BaseHierarchy: what they return must be the fitted attributes
        got = getattr(alg, via)(x, force_bipartite=force_bipartite)
        same = (np.array_equal(got, alg.dendrogram_) and np.array_equal(alg.predict(), alg.dendrogram_)
                and np.array_equal(alg.transform(), alg.dendrogram_))
        if bip:
            same = same and np.array_equal(alg.predict(columns=True), alg.dendrogram_col_)
        return 'ok' if same else 'malformed-dendrogram'
    st = _call(f)
    attrs = {k: getattr(alg, k, None) for k in ATTRS}
    return st, attrs, rec


def _worker_loop(conn):
    while True:
        try:
            job = conn.recv()
        except EOFError:
            return
        try:
            conn.send(_fit_job(*job))
        except Exception as e:                                     # noqa: BLE001 - e.g. an attribute that does not pickle
            conn.send(('err ' + type(e).__name__, {}, {}))


def _sup_stop():
    p = _SUP['proc']
    if p is not None:
        try:
            p.kill()
            p.join(2)
        except Exception:                                          # noqa: BLE001
            pass
    _SUP['proc'] = _SUP['conn'] = None


def _sup_fit(kind, opts, a, force_bipartite=False, container=None, refit=None, via=None, capture=False):
    """-> (status, namespace with the fitted attributes, capture record), or None once HANG_LIMIT fits have not returned
    (the run has failed long before; the remaining fits are counted as skipped by the callers).
    Waiting time: 30 s for the first two fits that do not return, 5 s for the next four, then 1.5 s for inputs with at
    most 30 nodes (an ordinary fit of that size takes a few milliseconds)."""
    import multiprocessing as mp
    import types
    if _SUP['hangs'] >= HANG_LIMIT:
        _SUP['skipped'] += 1
        return None
    if _SUP['proc'] is None or not _SUP['proc'].is_alive():
        _sup_stop()
        ctxm = mp.get_context('fork')
        parent, child = ctxm.Pipe()
        proc = ctxm.Process(target=_worker_loop, args=(child,), daemon=True)
        proc.start()
        child.close()
        _SUP['proc'], _SUP['conn'] = proc, parent
    conn = _SUP['conn']
    small = a.shape[0] + a.shape[1] <= 30
    wait = 30.0 if _SUP['hangs'] < 2 else (5.0 if (_SUP['hangs'] < 6 or not small) else 1.5)
    try:
        conn.send((kind, opts or {}, a, force_bipartite, container, refit, via, capture))
        if conn.poll(wait):
            st, attrs, rec = conn.recv()
        else:
            _SUP['hangs'] += 1
            _sup_stop()
            st, attrs, rec = 'err DidNotReturn', {}, {}
    except (EOFError, OSError):
        _sup_stop()
        st, attrs, rec = 'err WorkerDied', {}, {}
    return st, types.SimpleNamespace(**{k: attrs.get(k) for k in ATTRS}), rec


def _tree_tok(t):
    """nested python lists / numpy ints -> '[[0],[1],[[2],[3]]]'"""
    if isinstance(t, (list, tuple, np.ndarray)):
        return '[' + ','.join(_tree_tok(x) for x in t) + ']'
    return str(int(t))


def _tree_leaves(t):
    if isinstance(t, (list, tuple, np.ndarray)):
        return [x for s in t for x in _tree_leaves(s)]
    return [int(t)]


def _rows_tok(rows):
    """rows of get_dendrogram (python lists) -> 'i,j,h,s;…' with integer heights"""
    if len(rows) == 0:
        return '-'
    return ';'.join('%d,%d,%d,%d' % (int(r[0]), int(r[1]), int(r[2]), int(r[3])) for r in rows)


def _gdesc(a):
    a = sparse.csr_matrix(a)
    if a.nnz and (a.data == 0).any():
        # stored zeros are part of the input: keep the stored entries
        c = a.tocoo()
        return {'shape': list(a.shape), 'coo': [[int(i), int(j), float(v)] for i, j, v in zip(c.row, c.col, c.data)]}
    return {'shape': list(a.shape), 'dense': a.toarray().tolist()}


def _gfrom(g):
    if 'coo' in g:
        t = g['coo']
        a = sparse.csr_matrix(([x[2] for x in t], ([x[0] for x in t], [x[1] for x in t])), shape=tuple(g['shape']), dtype=float)
        a.sort_indices()
        return a
    return sparse.csr_matrix(np.array(g['dense'], dtype=float).reshape(g['shape']))


CONTAINERS = ['bool', 'int64', 'float32', 'dense', 'unsorted', 'duplicates']


def _container_ok(a, container):
    """can the float64 CSR matrix `a` be handed over in this container without changing its values?"""
    d = a.data
    if container == 'bool':
        return bool((d == 1).all())
    if container == 'int64':
        return bool((d == np.round(d)).all() and (np.abs(d) < 2 ** 53).all())
    if container == 'float32':
        return bool((d.astype(np.float32).astype(float) == d).all())
    return True


def _container(a, container, rng=None):
    """the same graph in another container: dtype, dense array, CSR with unsorted / duplicated column indices"""
    a = sparse.csr_matrix(a)
    if container in (None, 'csr'):
        return a.copy()
    if container == 'bool':
        return a.astype(bool)
    if container == 'int64':
        return a.astype(np.int64)
    if container == 'float32':
        return a.astype(np.float32)
    if container == 'dense':
        return a.toarray()
    if container == 'unsorted':
        b = a.copy()
        for i in range(b.shape[0]):
            lo, hi = b.indptr[i], b.indptr[i + 1]
            b.indices[lo:hi] = b.indices[lo:hi][::-1].copy()
            b.data[lo:hi] = b.data[lo:hi][::-1].copy()
        b.has_sorted_indices = False
        return b
    if container == 'duplicates':
        # every stored entry split in two halves (scipy sums duplicates on conversion)
        c = a.tocoo()
        rows = np.concatenate([c.row, c.row])
        cols = np.concatenate([c.col, c.col])
        data = np.concatenate([c.data / 2, c.data / 2])
        order = np.lexsort((cols, rows))
        indptr = np.zeros(a.shape[0] + 1, dtype=int)
        for r in rows:
            indptr[r + 1] += 1
        indptr = np.cumsum(indptr)
        b = sparse.csr_matrix((data[order], cols[order].astype(np.int32), indptr.astype(np.int32)), shape=a.shape)
        b.has_canonical_format = False
        return b
    raise ValueError(container)


# ---------------------------------------------------------------------------------------------------
# pure functions: get_dendrogram, reorder_dendrogram, split_dendrogram
# ---------------------------------------------------------------------------------------------------
def case_get_dendrogram(tree, origin='random'):
    from sknetwork.hierarchy.postprocess import get_dendrogram
    tok = _tree_tok(tree)
    n = len(_tree_leaves(tree))

    def f():
        rows, _ = get_dendrogram(copy.deepcopy(tree))
        return 'ok ' + _rows_tok(rows)
    impl = _call(f)
    run = 'c07.get_dendrogram ' + tok
    spec = None
    top = len(tree) if isinstance(tree, list) else 1
    if impl.startswith('ok ') and top > 1:
        dt = impl[3:]
        spec = 'c07.spec_dendro %d %s 0' % (n, dt)
    c = Case(('get_dendrogram', tok), {'entry': 'get_dendrogram', 'origin': origin}, run, impl, spec, n >= 3,
             {'f': 'get_dendrogram', 'tree': json.loads(tok)})
    c.tol = top > 1
    return c


def case_reorder(d, n, mono):
    from sknetwork.hierarchy import reorder_dendrogram
    dt = dd.enc_dendro(d)

    def f():
        r = reorder_dendrogram(d.copy())
        rt = dd.enc_dendro(r)
        return 'malformed-dendrogram' if rt is None else 'ok ' + rt
    impl = _call(f)
    run = 'c07.reorder ' + dt
    spec = None
    if impl.startswith('ok ') and mono:
        spec = 'c07.spec_reorder %s %s' % (dt, impl[3:])
    c = Case(('reorder', dt), {'entry': 'reorder_dendrogram', 'mono': mono}, run, impl, spec, n >= 3,
             {'f': 'reorder_dendrogram', 'dendrogram': [[int(r[0]), int(r[1]), dd.enc_ht(r[2]), int(r[3])] for r in d]})
    c.tol = mono
    return c


def case_split(d, n1, n2):
    from sknetwork.hierarchy.postprocess import split_dendrogram
    dt = dd.enc_dendro(d)

    def f():
        r, c = split_dendrogram(d.copy(), (n1, n2))
        rt, ct = dd.enc_dendro(r), dd.enc_dendro(c)
        if rt is None or ct is None:
            return 'malformed-dendrogram'
        return 'ok %s %s' % (rt, ct)
    impl = _call(f)
    run = 'c07.split %s %d %d' % (dt, n1, n2)
    spec = None
    if impl.startswith('ok '):
        _, rt, ct = impl.split(' ')
        srt = bool(np.all(d[:-1, 2] <= d[1:, 2])) if len(d) > 1 else True
        spec = 'c07.spec_split %s %d %d %s %s %s' % (dt, n1, n2, rt, ct, enc_bool(srt))
    c = Case(('split', dt, n1, n2), {'entry': 'split_dendrogram'}, run, impl, spec, n1 + n2 >= 3,
             {'f': 'split_dendrogram', 'dendrogram': [[int(r[0]), int(r[1]), dd.enc_ht(r[2]), int(r[3])] for r in d],
              'shape': [n1, n2]})
    c.tol = True
    return c


# ---------------------------------------------------------------------------------------------------
# algorithms
# ---------------------------------------------------------------------------------------------------
def _out_cases(alg_name, opts, a, alg, impl_state, sorted_expected, key, sig, desc, bipartite, nontriv):
    """spec cases on the fitted attributes of `alg` (or on the exception)."""
    out = []
    if impl_state.startswith('err') or impl_state.startswith('malformed'):
        c = Case(key + ('fit',), sig, None, impl_state, None, nontriv, desc)
        c.tol = True
        return [c]
    if bipartite:
        n1, n2 = a.shape
        full = dd.enc_dendro(alg.dendrogram_full_)
        rt = dd.enc_dendro(alg.dendrogram_row_)
        ct = dd.enc_dendro(alg.dendrogram_col_)
        same = alg.dendrogram_ is alg.dendrogram_row_ or np.array_equal(alg.dendrogram_, alg.dendrogram_row_)
        if full is None or rt is None or ct is None or not same:
            c = Case(key + ('attrs',), sig, None, 'malformed-dendrogram', None, nontriv, desc)
            c.tol = True
            return [c]
        c = Case(key + ('full',), dict(sig, attr='dendrogram_full_'), None, 'ok ' + full,
                 'c07.spec_dendro %d %s %s' % (n1 + n2, full, enc_bool(sorted_expected)), nontriv, desc)
        c.tol = True
        out.append(c)
        c = Case(key + ('split',), dict(sig, attr='dendrogram_row_/col_'), 'c07.split %s %d %d' % (full, n1, n2),
                 'ok %s %s' % (rt, ct), 'c07.spec_split %s %d %d %s %s %s' % (full, n1, n2, rt, ct, enc_bool(sorted_expected)),
                 nontriv, desc)
        c.tol = True
        out.append(c)
    else:
        n = a.shape[0]
        dt = dd.enc_dendro(alg.dendrogram_)
        if dt is None:
            c = Case(key + ('attrs',), sig, None, 'malformed-dendrogram', None, nontriv, desc)
            c.tol = True
            return [c]
        c = Case(key + ('dendro',), dict(sig, attr='dendrogram_'), None, 'ok ' + dt,
                 'c07.spec_dendro %d %s %s' % (n, dt, enc_bool(sorted_expected)), nontriv, desc)
        c.tol = True
        out.append(c)
    return out


def paris_model_line(a, weights, reorder, force_bipartite):
    """The request line for the Lean model of Paris.fit: the pre-processing of fit replayed on the object the fit
    receives (format and get_probs by the library's helpers; the symmetry test, A + A^T and the removal of explicit zeros
    by scipy operations written here), then the stored entries as they are (unsorted, duplicated …) as bits of doubles."""
    from sknetwork.utils.format import get_adjacency
    from sknetwork.utils.check import get_probs
    adjacency, _ = get_adjacency(a, force_bipartite=force_bipartite)
    out_w = get_probs(weights, adjacency)
    in_w = get_probs(weights, adjacency.T)
    # whether the matrix is symmetric is decided HERE, entry by entry on the values, and the symmetrisation A + A^T is
    # taken here too (in float; integers when the dtype is not floating, as directed2undirected does): a wrong answer of
    # the library's is_symmetric / directed2undirected must not reach the model's input
    if (adjacency != adjacency.T).nnz != 0:
        sym = adjacency.astype(float if np.issubdtype(adjacency.dtype, np.floating) else int)
        adjacency = sparse.csr_matrix(sym + sym.T)
        adjacency.sort_indices()
    elif adjacency.nnz != adjacency.count_nonzero():
        # explicit zeros are dropped (F27): the stored entries are then the non-zero values, symmetric like them
        adjacency = adjacency.copy()
        adjacency.eliminate_zeros()
    null = (out_w + in_w) == 0
    if any(null):
        adjacency += sparse.diags(null.astype(int))
    data = adjacency.data.astype(float)
    indices, indptr = adjacency.indices, adjacency.indptr
    n = len(indptr) - 1
    rows = []
    for i in range(n):
        es = ['%d:%s' % (indices[p], _bits(data[p])) for p in range(indptr[i], indptr[i + 1])]
        rows.append(','.join(es) if es else '-')
    total = float(np.sum(data))
    return 'c07.paris %s %s %s %s %s %d' % (';'.join(rows), ','.join(_bits(x) for x in out_w), ','.join(_bits(x) for x in in_w),
                                         _bits(total), enc_bool(reorder), (n + 1) * (4 * n * n + 3))


def _enc_bits_dendro(d):
    d = np.asarray(d)
    if d.size == 0:
        return '-'
    return ';'.join('%d,%d,%s,%d' % (int(r[0]), int(r[1]), 'inf' if math.isinf(r[2]) else _bits(r[2]), int(r[3])) for r in d)


def cases_paris(a, weights, reorder, force_bipartite=False, gname='', container=None, refit=None, ctx=None, via=None):
    """`container`: hand the same graph over as another dtype / a dense array / a non-canonical CSR matrix.
    `refit`: a matrix fitted first on the same estimator object (the attributes of the second fit are checked)."""
    a = sparse.csr_matrix(a)
    bip = force_bipartite or a.shape[0] != a.shape[1]
    res = _sup_fit('Paris', {'weights': weights, 'reorder': reorder}, a, force_bipartite, container, refit, via)
    if res is None:
        if ctx is not None:
            ctx.count('skipped:after-%d-fits-that-did-not-return' % HANG_LIMIT)
        return []
    st, alg, _ = res
    key = ('paris', json.dumps(_gdesc(a)), weights, reorder, force_bipartite, container, json.dumps(refit), via)
    sig = {'entry': 'Paris', 'weights': weights, 'reorder': reorder, 'bipartite': bip}
    desc = {'f': 'Paris', 'graph': _gdesc(a), 'weights': weights, 'reorder': reorder, 'force_bipartite': force_bipartite}
    if container:
        sig['container'] = container
        desc['container'] = container
    if refit is not None:
        sig['refit'] = True
        desc['refit'] = refit
    if via is not None:
        sig['via'] = via
        desc['via'] = via
    nontriv = (a.shape[0] + (a.shape[1] if bip else 0)) >= 3 and a.nnz >= 2
    out = _out_cases('Paris', None, a, alg, st, reorder, key, sig, desc, bip, nontriv)
    if st == 'ok' and (a.data >= 0).all():
        # the chain itself, on the same doubles
        full = alg.dendrogram_full_ if bip else alg.dendrogram_
        try:
            # from the very object handed to fit (dtype, dense array, unsorted or duplicated CSR entries)
            line = paris_model_line(_container(a, container), weights, reorder, force_bipartite)
        except Exception as e:                                     # the pre-processing replayed by the harness failed
            line = None
            if ctx is not None:
                ctx.count('paris-model-line-skipped:' + type(e).__name__)
        if line is not None and dd.enc_dendro(full) is not None:
            c = Case(key + ('chain',), dict(sig, attr='chain'), line, 'ok ' + _enc_bits_dendro(full), None, nontriv, desc)
            c.tol = True
            out.append(c)
    return out


def _fit_capture(alg, a, force_bipartite):
    """fit once; capture the tree handed to get_dendrogram and every Louvain call (input size, nodes, labels)."""
    import sknetwork.hierarchy.louvain_hierarchy as mod
    rec = {'tree': None, 'calls': [], 'nodes': None}
    orig_gd = mod.get_dendrogram
    method = alg._clustering_method
    orig_fp = method.fit_predict

    def gd(tree, *args, **kw):
        if rec['tree'] is None:
            rec['tree'] = copy.deepcopy(tree)
        return orig_gd(tree, *args, **kw)

    def fp(adj, *args, **kw):
        labels = orig_fp(adj, *args, **kw)
        rec['calls'].append((None if rec['nodes'] is None else [int(x) for x in rec['nodes']], [int(x) for x in labels]))
        return labels
    mod.get_dendrogram = gd
    method.fit_predict = fp
    if hasattr(alg, '_recursive_louvain'):
        orig_rl = alg._recursive_louvain

        def rl(adjacency, depth, nodes=None):
            rec['nodes'] = np.arange(adjacency.shape[0]) if nodes is None else nodes
            return orig_rl(adjacency, depth, nodes)
        alg._recursive_louvain = rl
    try:
        alg.fit(a, force_bipartite=force_bipartite)
    finally:
        mod.get_dendrogram = orig_gd
        try:
            del method.fit_predict
        except AttributeError:
            pass
        if hasattr(alg, '_recursive_louvain'):
            try:
                del alg._recursive_louvain
            except AttributeError:
                pass
    return rec


def cases_louvain(kind, a, opts, force_bipartite=False, container=None, refit=None):
    from sknetwork.utils.format import get_adjacency
    a = sparse.csr_matrix(a)
    bip = force_bipartite or a.shape[0] != a.shape[1]
    res = _sup_fit(kind, opts, a, force_bipartite, container, refit, None, capture=True)
    if res is None:
        return []
    st, alg, rec = res
    okey = json.dumps(opts, sort_keys=True)
    key = (kind, json.dumps(_gdesc(a)), okey, force_bipartite, container, json.dumps(refit))
    sig = {'entry': kind, 'bipartite': bip, 'shuffle': bool(opts.get('shuffle_nodes'))}
    if 'depth' in opts:
        sig['depth'] = opts['depth']
    desc = {'f': kind, 'graph': _gdesc(a), 'opts': opts, 'force_bipartite': force_bipartite}
    if container:
        sig['container'] = container
        desc['container'] = container
    if refit is not None:
        sig['refit'] = True
        desc['refit'] = refit
    n_all = a.shape[0] + (a.shape[1] if bip else 0)
    nontriv = n_all >= 3 and a.nnz >= 2
    out = _out_cases(kind, opts, a, alg, st, True, key, sig, desc, bip, nontriv)
    if st != 'ok':
        return out
    adjacency, _ = get_adjacency(a, force_bipartite=force_bipartite)
    n = adjacency.shape[0]
    tree = rec.get('tree')
    if tree is None:
        # the capture of get_dendrogram did not fire: the two run lines below would vanish silently
        c = Case(key + ('tree-not-captured',), dict(sig, attr='tree'), None, 'err tree-not-captured', None, nontriv, desc)
        c.tol = True
        return out + [c]
    ttok = _tree_tok(tree)
    # the tree builder against the model, Louvain's answers replayed
    if kind == 'LouvainIteration':
        pat = sparse.csr_matrix(adjacency, copy=True)
        pat.data = (pat.data != 0).astype(float)
        mat = pat.toarray().astype(int)          # entries different from zero: the code tests `adjacency.count_nonzero()` (F28)
        orc = '|'.join('%s>%s' % (enc_list(nd), enc_list(lb)) for nd, lb in rec['calls'] if nd is not None) or '-'
        line = 'c07.louvain_iteration %d %s %d %s' % (n, ';'.join(','.join(str(int(x)) for x in r) for r in mat),
                                                     opts.get('depth', 3), orc)
    else:
        seq = ';'.join(enc_list(lb) for _, lb in rec['calls'])
        line = 'c07.louvain_hierarchy %d %s' % (n, seq)
    c = Case(key + ('tree',), dict(sig, attr='tree'), line, 'ok ' + ttok, None, nontriv, desc)
    c.tol = True
    out.append(c)
    # tree -> dendrogram_ (get_dendrogram, shift, reorder) against the model
    full = alg.dendrogram_full_ if bip else alg.dendrogram_
    ft = dd.enc_dendro(full)
    if ft is not None:
        c = Case(key + ('pipeline',), dict(sig, attr='pipeline'), 'c07.tree_pipeline ' + ttok, 'ok ' + ft, None, nontriv, desc)
        c.tol = True
        out.append(c)
    return out


# ---------------------------------------------------------------------------------------------------
# generators
# ---------------------------------------------------------------------------------------------------
def random_tree(rng, labels, depth):
    """nested lists over the given labels, as the Louvain builders produce them"""
    if len(labels) == 1:
        return [labels[0]]
    if depth == 0 or (len(labels) <= 3 and rng.random() < 0.5):
        return [[x] for x in labels]
    k = rng.randint(2, min(4, len(labels)))
    rng.shuffle(labels)
    cuts = sorted(rng.sample(range(1, len(labels)), k - 1))
    parts = [labels[i:j] for i, j in zip([0] + cuts, cuts + [len(labels)])]
    return [random_tree(rng, p, depth - 1) for p in parts]


LOUVAIN_H_OPTS = [{}, {'resolution': 0.5}, {'resolution': 2}, {'shuffle_nodes': True, 'random_state': 7}]
LOUVAIN_I_OPTS = [{}, {'depth': 1}, {'depth': 2, 'resolution': 2}, {'depth': -1}, {'depth': 0},
                  {'depth': 3, 'shuffle_nodes': True, 'random_state': 3}]
PARIS_OPTS = [('degree', True), ('uniform', True), ('degree', False), ('uniform', False)]


def cases_for_graph(ctx, a, rng, full, force_bipartite=False):
    out = []
    po = PARIS_OPTS if full else rng.sample(PARIS_OPTS, 2)
    for w, r in po:
        out += cases_paris(a, w, r, force_bipartite, ctx=ctx)
    ho = LOUVAIN_H_OPTS if full else [LOUVAIN_H_OPTS[0], rng.choice(LOUVAIN_H_OPTS[1:])]
    for o in ho:
        out += cases_louvain('LouvainHierarchy', a, o, force_bipartite)
    io = LOUVAIN_I_OPTS if full else [LOUVAIN_I_OPTS[0], rng.choice(LOUVAIN_I_OPTS[1:])]
    for o in io:
        out += cases_louvain('LouvainIteration', a, o, force_bipartite)
    return out


def near_tie_cases(ctx, rng, count):
    """Paris(weights='degree') on random unweighted graphs with 7-9 nodes: only the validity of the result is
    checked (one spec line per graph); every 20th graph also gets the full set of cases (chain run line)."""
    from sknetwork.hierarchy import Paris
    out = []
    for k in range(count):
        n = rng.choice([7, 8, 8, 8, 9])
        p = rng.choice([0.3, 0.5, 0.7])
        es = graphs.random_edges(rng, n, p, directed=False)
        if not es:
            continue
        a = graphs.csr_from_edges(n, es, [1.0] * len(es))
        reorder = rng.random() < 0.85
        ctx.count('graph:near-tie hunt n=%d' % n)
        if k % 20 == 0:
            out += cases_paris(a, 'degree', reorder)
            continue
        res = _sup_fit('Paris', {'weights': 'degree', 'reorder': reorder}, a)
        if res is None:
            ctx.count('skipped:after-%d-fits-that-did-not-return' % HANG_LIMIT)
            continue
        st, alg, _ = res
        sig = {'entry': 'Paris', 'weights': 'degree', 'reorder': reorder, 'bipartite': False}
        desc = {'f': 'Paris', 'graph': _gdesc(a), 'weights': 'degree', 'reorder': reorder, 'force_bipartite': False}
        key = ('paris-hunt', json.dumps(desc['graph']), reorder)
        out += _out_cases('Paris', None, a, alg, st, reorder, key, sig, desc, False, True)
    return out


def wide_range_cases(ctx, rng, count):
    """Paris on weighted graphs with a wide dynamic range: paths, stars, cycles and random graphs on 3-8 nodes whose
    edge weights are drawn from a palette of ordinary values, one or two of them multiplied by 10**k or 10**-k
    (products of node weights leave the float32 range from 1e20 on and the double range from 1e154 on: `den = 0`,
    similarity -inf, height inf). All four option pairs."""
    out = []
    exps = [20, 25, 30, 38.5, 45, 100, 150, 160, 200, 300]
    for c in range(count):
        n = rng.randint(3, 8)
        kind = rng.choice(['path', 'star', 'cycle', 'random'])
        if kind == 'path':
            und = [(i, i + 1) for i in range(n - 1)]
        elif kind == 'star':
            und = [(0, i) for i in range(1, n)]
        elif kind == 'cycle':
            und = [(i, (i + 1) % n) for i in range(n)] if n > 2 else [(0, 1)]
        else:
            und = [(i, j) for i in range(n) for j in range(i + 1, n) if rng.random() < 0.5]
        und = sorted(set((min(i, j), max(i, j)) for i, j in und if i != j))
        if not und:
            continue
        w = [float(rng.choice([1, 1, 2, 3, 0.5])) for _ in und]
        for _ in range(rng.choice([1, 1, 2])):
            k = rng.choice(exps) * rng.choice([1, 1, -1])
            w[rng.randrange(len(und))] *= 10.0 ** k
        if not (all(math.isfinite(x) and x > 0 for x in w) and math.isfinite(2 * sum(w))):
            # two large factors on the same edge overflow to inf (or two small ones underflow to 0): not a weighted graph
            ctx.count('skipped:non-finite-weight')
            continue
        es, ws = [], []
        for (i, j), x in zip(und, w):
            es += [(i, j), (j, i)]
            ws += [x, x]
        a = graphs.csr_from_edges(n, es, ws)
        if a.nnz == 0:
            continue
        ctx.count('graph:wide-range ' + kind)
        for wt, r in (PARIS_OPTS if c % 4 == 0 else rng.sample(PARIS_OPTS, 2)):
            out += cases_paris(a, wt, r, ctx=ctx)
    return out


WEIGHT_PALETTE = [0.1, 1.0 / 3, 1e-3, 7.0, float(2 ** 24 + 1), 1e20, 1.0, 2.0, 2.5]


def container_cases(ctx, rng, count):
    """the same graphs handed over as bool / int64 / float32 matrices, dense arrays, CSR matrices with unsorted or
    duplicated column indices; a second fit on an estimator already fitted on another (bipartite / square) input;
    stored zero entries"""
    out = []
    for c in range(count):
        n = rng.randint(3, 7)
        if rng.random() < 0.3:
            nr, nc = rng.randint(2, 4), rng.randint(2, 4)
            es = graphs.random_edges(rng, nr, 0.6, m=nc)
            if not es:
                continue
            unit = rng.random() < 0.5
            a = graphs.csr_from_edges(nr, es, [1.0 if unit else float(rng.choice([1, 2, 3, 0.5])) for _ in es], m=nc)
            fb = nr == nc
        else:
            es = graphs.random_edges(rng, n, 0.5, directed=rng.random() < 0.3)
            if not es:
                continue
            unit = rng.random() < 0.5
            a = graphs.csr_from_edges(n, es, graphs.sym_weights(rng, es, [1.0] if unit else [1.0, 2.0, 3.0, 0.5]))
            fb = False
        if a.nnz == 0:
            continue
        cont = rng.choice([k for k in CONTAINERS if _container_ok(a, k)])
        ctx.count('container:' + cont)
        w, r = rng.choice(PARIS_OPTS)
        out += cases_paris(a, w, r, fb, container=cont, ctx=ctx, via=rng.choice([None, 'fit_predict', 'fit_transform']))
        out += cases_louvain('LouvainHierarchy', a, rng.choice(LOUVAIN_H_OPTS), fb, container=cont)
        out += cases_louvain('LouvainIteration', a, rng.choice(LOUVAIN_I_OPTS), fb, container=cont)
        if c % 3 == 0:
            # refit: the estimator has been fitted on an input of the other kind before
            if a.shape[0] == a.shape[1] and not fb:
                oes = graphs.random_edges(rng, 2, 0.8, m=3) or [(0, 0)]
                other = graphs.csr_from_edges(2, oes, [1.0] * len(oes), m=3)
            else:
                oes = [(0, 1), (1, 0), (1, 2), (2, 1)]
                other = graphs.csr_from_edges(3, oes, [1.0] * 4)
            hist = rng.choice(['other-kind', 'same-kind-larger', 'same-kind-smaller'])
            if hist != 'other-kind':
                # the estimator has been fitted on an input of the SAME kind but of another size before
                big = hist == 'same-kind-larger'
                if a.shape[0] == a.shape[1] and not fb:
                    k = a.shape[0] + 2 if big else 2
                    oes = [(i, (i + 1) % k) for i in range(k)] + [((i + 1) % k, i) for i in range(k)]
                    other = graphs.csr_from_edges(k, oes, [1.0] * len(oes))
                else:
                    kr, kc = (a.shape[0] + 1, a.shape[1] + 2) if big else (1, 2)
                    oes = [(i, j) for i in range(kr) for j in range(kc) if (i + j) % 3 != 2 or j == 0]
                    other = graphs.csr_from_edges(kr, oes, [1.0] * len(oes), m=kc)
            ctx.count('refit:' + hist)
            out += cases_paris(a, w, r, fb, refit=_gdesc(other), ctx=ctx)
            out += cases_louvain('LouvainHierarchy', a, {}, fb, refit=_gdesc(other))
            out += cases_louvain('LouvainIteration', a, {}, fb, refit=_gdesc(other))
        if c % 5 == 0 and a.shape[0] == a.shape[1] and not fb:
            # a stored zero on a pair of nodes that is not an edge (symmetric)
            free = [(i, j) for i in range(a.shape[0]) for j in range(i + 1, a.shape[0]) if a[i, j] == 0 and a[j, i] == 0]
            if free:
                i, j = rng.choice(free)
                cz = a.tocoo()
                z = sparse.csr_matrix((np.concatenate([cz.data, [0.0, 0.0]]),
                                       (np.concatenate([cz.row, [i, j]]), np.concatenate([cz.col, [j, i]]))), shape=a.shape)
                z.sort_indices()
                ctx.count('stored-zero')
                for wz, rz in PARIS_OPTS[:2]:
                    out += cases_paris(z, wz, rz, ctx=ctx)
                out += cases_louvain('LouvainIteration', z, {}, False)
                out += cases_louvain('LouvainHierarchy', z, {}, False)
    return out


def _with_zeros(a, zs):
    """the matrix `a` with explicit zeros stored at the positions `zs` (which must not be stored already)"""
    cz = sparse.csr_matrix(a).tocoo()
    z = sparse.csr_matrix((np.concatenate([cz.data, [0.0] * len(zs)]),
                           (np.concatenate([cz.row, [i for i, _ in zs]]).astype(int),
                            np.concatenate([cz.col, [j for _, j in zs]]).astype(int))), shape=a.shape)
    z.sort_indices()
    return z


def stored_zero_cases(ctx, rng, count):
    """matrices that are symmetric in value and store explicit zeros: on one side of a pair of non-adjacent nodes only
    (is_symmetric compares values, so the stored pattern is not symmetric), on both sides, on the diagonal. All graphs of
    3 nodes x every ordered free pair, then sampled larger graphs with several such zeros."""
    out = []

    def emit(z, kind, opts):
        ctx.count('stored-zero:' + kind)
        for wz, rz in opts:
            out.extend(cases_paris(z, wz, rz, ctx=ctx))
        out.extend(cases_louvain('LouvainIteration', z, {}, False))
        out.extend(cases_louvain('LouvainHierarchy', z, {}, False))

    for es in graphs.all_undirected(3, loops=False):
        if not es:
            continue
        a = graphs.csr_from_edges(3, es, [1.0] * len(es))
        for i in range(3):
            for j in range(3):
                if a[i, j] == 0 and a[j, i] == 0:
                    emit(_with_zeros(a, [(i, j)]), 'diagonal' if i == j else 'one-sided', PARIS_OPTS)
    for _ in range(count):
        n = rng.randint(4, 7)
        es = graphs.random_edges(rng, n, rng.choice([0.3, 0.5]))
        if not es:
            continue
        a = graphs.csr_from_edges(n, es, graphs.sym_weights(rng, es, rng.choice([[1.0], [1.0, 2.0, 3.0, 0.5]])))
        free = [(i, j) for i in range(n) for j in range(i, n) if a[i, j] == 0 and a[j, i] == 0]
        if not free or a.nnz == 0:
            continue
        zs, kinds = [], set()
        for (i, j) in rng.sample(free, min(len(free), rng.randint(1, 3))):
            if i == j:
                zs.append((i, i))
                kinds.add('diagonal')
            else:
                side = rng.choice(['upper', 'lower', 'both'])
                zs += {'upper': [(i, j)], 'lower': [(j, i)], 'both': [(i, j), (j, i)]}[side]
                kinds.add('two-sided' if side == 'both' else 'one-sided')
        emit(_with_zeros(a, zs), '+'.join(sorted(kinds)), rng.sample(PARIS_OPTS, 2))
    return out


FRACTIONS = [0.25, 0.5, 0.75, 0.1, 0.9, 1.0 / 3]


def fractional_digraph_cases(ctx, rng, count):
    """DIRECTED graphs whose entries cannot be told from their mirror entries by the integer part: every weight in
    (0, 1) (a digraph scaled by 0.5 / 0.25, weights 0.25 / 0.75, DAGs), mirrored pairs that differ in the fractional part
    only (1.25 against 1.75, 2 against 2.5), mixed with pairs that are really symmetric and with one-way edges >= 1.
    Paris must symmetrise them (A + A^T) like any digraph; all digraphs of 3 nodes x 0.5, then sampled ones."""
    out = []

    def emit(a, kind, popts, louvain, container=None):
        if a.nnz == 0 or (a != a.T).nnz == 0:
            return
        if container and not _container_ok(a, container):
            container = None
        ctx.count('fractional-digraph:' + kind)
        for w, r in popts:
            out.extend(cases_paris(a, w, r, ctx=ctx, container=container))
        if louvain:
            out.extend(cases_louvain('LouvainIteration', a, {}, False))
            out.extend(cases_louvain('LouvainHierarchy', a, {}, False))

    dg = [es for es in graphs.all_digraphs(3) if es]
    for es in dg:
        a = graphs.csr_from_edges(3, es, [0.5] * len(es))
        emit(a, 'n=3 x 0.5', [PARIS_OPTS[0], PARIS_OPTS[3]] if ctx.quick else PARIS_OPTS, rng.random() < 0.25)
    for c in range(count):
        n = rng.randint(4, 8)
        kind = rng.choice(['scaled', 'below-one', 'dag', 'same-integer-part', 'mixed'])
        if kind == 'dag':
            perm = list(range(n))
            rng.shuffle(perm)
            es = [(perm[i], perm[j]) for i in range(n) for j in range(i + 1, n) if rng.random() < 0.45]
        else:
            es = graphs.random_edges(rng, n, rng.choice([0.25, 0.4, 0.6]), directed=True)
        if not es:
            continue
        present = set(es)
        if kind == 'scaled' or kind == 'dag':
            f = rng.choice([0.5, 0.25])
            ws = [f] * len(es)
        elif kind == 'below-one':
            ws = [rng.choice(FRACTIONS) for _ in es]
        elif kind == 'same-integer-part':
            # every entry k + fraction with the same k on both sides of a pair; one-way edges stay below 1
            base = {}
            ws = []
            for (i, j) in es:
                k = (min(i, j), max(i, j))
                if (j, i) in present:
                    base.setdefault(k, rng.choice([0, 1, 2]))
                    ws.append(base[k] + rng.choice([0.0, 0.25, 0.5, 0.75]) + (0.125 if base[k] == 0 else 0.0))
                else:
                    ws.append(rng.choice(FRACTIONS))
        else:
            # mixed: symmetric pairs, pairs differing in the fraction only, one-way edges of any size
            sym = {}
            ws = []
            for (i, j) in es:
                k = (min(i, j), max(i, j))
                if (j, i) in present:
                    if k not in sym:
                        sym[k] = (rng.random() < 0.5, float(rng.choice([1, 2, 3])))
                    same, b = sym[k]
                    ws.append(b + 0.5 if same else b + rng.choice([0.0, 0.25, 0.75]))
                else:
                    ws.append(float(rng.choice([0.5, 0.25, 1.0, 2.0, 3.5])))
        a = graphs.csr_from_edges(n, es, ws)
        emit(a, kind, rng.sample(PARIS_OPTS, 2), rng.random() < 0.3, container=('float32' if c % 7 == 0 else None))
    return out


class Sub0:
    def count(self, *a, **k):
        pass


def wide_cases(ctx):
    """more than 1 000 non-singleton clusters at one level of the tree: a tree with 1 100 pairs for get_dendrogram,
    and both Louvain fits on the perfect matching of 2 200 nodes (spec lines; the chain of calls that fails is in
    postprocess.get_dendrogram)"""
    out = []
    tree = [[[2 * i], [2 * i + 1]] for i in range(1100)]
    c = case_get_dendrogram(tree, 'wide')
    c.sig = dict(c.sig, origin='wide')
    out.append(c)
    ctx.count('tree:wide 1100 pairs')
    n = 2200
    es = []
    for i in range(n // 2):
        es += [(2 * i, 2 * i + 1), (2 * i + 1, 2 * i)]
    a = graphs.csr_from_edges(n, es, [1.0] * len(es))
    from sknetwork.hierarchy import LouvainHierarchy, LouvainIteration
    for kind, cls in (('LouvainHierarchy', LouvainHierarchy), ('LouvainIteration', LouvainIteration)):
        res = _sup_fit(kind, {}, a)
        if res is None:
            continue
        st, alg, _ = res
        sig = {'entry': kind, 'bipartite': False, 'shuffle': False, 'origin': 'wide'}
        desc = {'f': kind, 'wide_matching': n, 'opts': {}}
        out += _out_cases(kind, {}, a, alg, st, True, (kind, 'wide-matching', n), sig, desc, False, True)
        ctx.count('graph:wide matching n=%d' % n)
    return out


def corpus_cases(ctx):
    p = os.path.join(VERIF, 'corpus', 'C07.jsonl')
    out = []
    if os.path.exists(p):
        for ln in open(p):
            ln = ln.strip()
            if ln and not ln.startswith('#'):
                out += cases_from_desc(json.loads(ln))
                ctx.count('corpus')
    return out


def cases_from_desc(desc):
    f = desc.get('f')
    if f == 'get_dendrogram':
        return [case_get_dendrogram(desc['tree'], 'corpus')]
    if f in ('reorder_dendrogram', 'split_dendrogram'):
        d = np.array([[r[0], r[1], float('inf') if r[2] == 'inf' else float(Fraction(r[2])), r[3]] for r in desc['dendrogram']],
                     dtype=float).reshape(len(desc['dendrogram']), 4)
        n = len(d) + 1
        if f == 'reorder_dendrogram':
            return [case_reorder(d, n, dd.is_mono_paths(d, n))]
        return [case_split(d, desc['shape'][0], desc['shape'][1])]
    if f == 'Paris':
        return cases_paris(_gfrom(desc['graph']), desc['weights'], desc['reorder'], desc.get('force_bipartite', False),
                           container=desc.get('container'), refit=desc.get('refit'), via=desc.get('via'))
    if f in ('LouvainHierarchy', 'LouvainIteration') and 'wide_matching' in desc:
        return [c for c in wide_cases(Sub0()) if c.sig.get('entry') == f]
    if f in ('LouvainHierarchy', 'LouvainIteration'):
        return cases_louvain(f, _gfrom(desc['graph']), desc.get('opts', {}), desc.get('force_bipartite', False),
                             container=desc.get('container'), refit=desc.get('refit'))
    return []


def build_cases(ctx):
    rng = ctx.rng
    quick = ctx.quick
    cases = corpus_cases(ctx)
    # trees
    for _ in range(150 if quick else 2000):
        n = rng.randint(2, 9)
        labels = list(range(n))
        t = random_tree(rng, labels, rng.randint(1, 3))
        if len(t) > 1:
            cases.append(case_get_dendrogram(t))
            ctx.count('tree:n=%d' % n)
    # dendrograms for reorder / split
    for n in (2, 3, 4) + (() if quick else (5,)):
        for pairs in dd.all_merge_orders(n):
            for mode in ('mono_unsorted', 'ties', 'inf_tail', 'random'):
                d = dd.mk_dendro(pairs, dd.heights_for(rng, pairs, n, mode), n, rng)
                cases.append(case_reorder(d, n, dd.is_mono_paths(d, n)))
                for n1 in range(1, n):
                    if quick and n == 4 and rng.random() < 0.5:
                        continue
                    cases.append(case_split(d, n1, n - n1))
    for _ in range(80 if quick else 1500):
        n = rng.randint(5, 10)
        pairs = dd.random_merge_order(rng, n)
        mode = rng.choice(['mono_unsorted', 'ties', 'inf_tail', 'distinct', 'random'])
        d = dd.mk_dendro(pairs, dd.heights_for(rng, pairs, n, mode), n, rng)
        cases.append(case_reorder(d, n, dd.is_mono_paths(d, n)))
        n1 = rng.randint(1, n - 1)
        cases.append(case_split(d, n1, n - n1))
    # algorithms: exhaustive small undirected graphs
    for n in (2, 3, 4) + (() if quick else (5,)):
        gs = [es for es in graphs.all_undirected(n, loops=(n == 3)) if es]
        if n == 5:
            gs = rng.sample(gs, 300)
        for es in gs:
            a = graphs.csr_from_edges(n, es, [1.0] * len(es))
            if a.nnz == 0:
                continue
            cases += cases_for_graph(ctx, a, rng, full=(n <= 3) or not quick)
            ctx.count('graph:undirected n=%d' % n)
    dg = [es for es in graphs.all_digraphs(3) if es]
    for es in (rng.sample(dg, 12) if quick else dg):
        a = graphs.csr_from_edges(3, es, [float(rng.choice([1, 2])) for _ in es])
        cases += cases_for_graph(ctx, a, rng, full=False)
        ctx.count('graph:digraph n=3')
    for name, n, es, w in graphs.suite(rng, 42 if quick else 500, 3, 12, weights=[1, 1, 2, 3]):
        if not es:
            continue
        a = graphs.csr_from_edges(n, es, w)
        if a.nnz == 0:
            continue
        cases += cases_for_graph(ctx, a, rng, full=False)
        ctx.count('graph:' + name.rstrip('0123456789'))
    # non-integer weights, weights whose float32 image is inexact, large and small weights
    for name, n, es, w in graphs.suite(rng, 200 if quick else 1500, 3, 10, weights=WEIGHT_PALETTE):
        if not es:
            continue
        a = graphs.csr_from_edges(n, es, w)
        if a.nnz == 0:
            continue
        for wt, r in rng.sample(PARIS_OPTS, 2):
            cases += cases_paris(a, wt, r, ctx=ctx)
        if rng.random() < 0.25:
            cases += cases_louvain('LouvainHierarchy', a, {}, False)
            cases += cases_louvain('LouvainIteration', a, {}, False)
        ctx.count('graph:palette ' + name.rstrip('0123456789'))
    cases += container_cases(ctx, rng, 60 if quick else 800)
    cases += stored_zero_cases(ctx, rng, 25 if quick else 400)
    cases += fractional_digraph_cases(ctx, rng, 60 if quick else 1200)
    cases += wide_cases(ctx)
    # near-ties: unweighted graphs on 7-9 nodes make many merges of equal height; the float32 similarities of
    # Paris then order a parent and its child by rounding noise (spec lines only: validity of dendrogram_)
    cases += near_tie_cases(ctx, rng, 3000 if quick else 40000)
    # wide dynamic range of the weights: products of node weights under / overflow the float variables of Paris
    cases += wide_range_cases(ctx, rng, 120 if quick else 2500)
    # bipartite
    shapes = [(1, 2), (2, 1), (2, 2), (2, 3)] + ([] if quick else [(3, 2), (3, 3), (1, 3)])
    for nr, nc in shapes:
        allb = [es for es in graphs.all_bipartite(nr, nc) if es]
        if quick and len(allb) > 16:
            allb = rng.sample(allb, 16)
        for es in allb:
            b = graphs.csr_from_edges(nr, es, [1.0] * len(es), m=nc)
            cases += cases_for_graph(ctx, b, rng, full=False, force_bipartite=(nr == nc))
            ctx.count('graph:bipartite %dx%d' % (nr, nc))
    for _ in range(12 if quick else 200):
        nr, nc = rng.randint(2, 6), rng.randint(2, 6)
        es = graphs.random_edges(rng, nr, 0.4, m=nc)
        if not es:
            continue
        b = graphs.csr_from_edges(nr, es, [float(rng.choice([1, 2, 3])) for _ in es], m=nc)
        cases += cases_for_graph(ctx, b, rng, full=False, force_bipartite=(nr == nc))
        ctx.count('graph:bipartite random')
    return cases


def _same(c, model, impl, spec_ok):
    if model.startswith('err') and impl.startswith('err'):
        return model == impl
    return False


class _ClauseCtx:
    """a failure of the specification carries the failing clause in its signature (`clause`)"""

    def __init__(self, ctx):
        object.__setattr__(self, '_ctx', ctx)

    def __getattr__(self, name):
        return getattr(object.__getattribute__(self, '_ctx'), name)

    def __setattr__(self, name, value):
        setattr(object.__getattribute__(self, '_ctx'), name, value)

    def spec_fail(self, sig, case, detail):
        if 'raised-on-admissible-input' in detail:
            clause = 'raised ' + str(detail['raised-on-admissible-input'])
        else:
            clause = ' '.join(str(detail.get('spec_answer', '')).split(' ')[:2])
        object.__getattribute__(self, '_ctx').spec_fail(dict(sig, clause=clause), case, detail)


def evaluate(ctx, cases):
    ctx = _ClauseCtx(ctx)
    for c in cases:
        if c.tol and not str(c.impl).startswith('ok'):
            ctx.spec_fail(c.sig, c.desc, {'raised-on-admissible-input': c.impl})
    _evaluate(ctx, [c for c in cases if c.run or c.spec], same=_same)
    for c in cases:
        if not (c.run or c.spec):
            ctx.case(c.key, c.nontrivial)


def run(ctx):
    cases = build_cases(ctx)
    if _SUP['hangs']:
        ctx.count('fits that did not return', _SUP['hangs'])
        ctx.note('%d fit(s) did not return within the waiting time and were stopped (each is reported as `err DidNotReturn`); '
                 '%d later fit(s) were not run' % (_SUP['hangs'], _SUP['skipped']))
    evaluate(ctx, cases)


def _neighbourhood(desc, rng, limit=120):
    """inputs close to a pending case: the same graph with every option, with one (undirected) edge or one node
    removed, with unit weights — the shrinking space of the failing-input search"""
    out = []
    f = desc.get('f')
    if f in ('get_dendrogram', 'reorder_dendrogram', 'split_dendrogram'):
        return cases_from_desc(desc)
    if f not in ('Paris', 'LouvainHierarchy', 'LouvainIteration') or 'graph' not in desc:
        return out
    a = _gfrom(desc['graph'])
    fb = desc.get('force_bipartite', False)
    variants = [a]
    c = a.tocoo()
    square = a.shape[0] == a.shape[1] and not fb
    pairs = sorted(set((min(i, j), max(i, j)) if square else (i, j) for i, j in zip(c.row, c.col)))
    for (i, j) in pairs:
        b = a.tolil(copy=True)
        b[i, j] = 0
        if square:
            b[j, i] = 0
        b = sparse.csr_matrix(b)
        b.eliminate_zeros()
        if b.nnz:
            variants.append(b)
    if square and a.shape[0] > 2:
        for v in range(a.shape[0]):
            keep = [x for x in range(a.shape[0]) if x != v]
            b = sparse.csr_matrix(a[keep][:, keep])
            if b.nnz:
                variants.append(b)
    u = a.copy()
    u.data = np.ones(len(u.data))
    variants.append(u)
    if len(variants) > limit:
        variants = variants[:1] + rng.sample(variants[1:], limit - 1)
    for b in variants:
        for w, r in PARIS_OPTS:
            out += cases_paris(b, w, r, fb, container=desc.get('container'))
        if f != 'Paris':
            for o in ([desc.get('opts', {})] + (LOUVAIN_H_OPTS if f == 'LouvainHierarchy' else LOUVAIN_I_OPTS)):
                out += cases_louvain(f, b, o, fb, container=desc.get('container'))
    return out


def search(ctx, pending):
    """A failing input of the property itself (specification false on an implementation output). First the
    neighbourhood of every pending case (the same input under all options, with one edge / node removed, with unit
    weights), then the exhaustive small space: all undirected graphs n <= 4 (loops for n <= 3) x all options of the
    three algorithms, small bipartite inputs, random trees."""
    rng = ctx.rng
    cases = []
    seen = set()
    for kind, sig, obj in pending[:8]:
        desc = (obj or {}).get('case') if isinstance(obj, dict) else None
        if not isinstance(desc, dict):
            continue
        k = json.dumps(desc, sort_keys=True, default=str)
        if k in seen:
            continue
        seen.add(k)
        try:
            cases += _neighbourhood(desc, rng)
        except Exception as e:
            ctx.count('search-neighbourhood-failed:' + type(e).__name__)
    for n in (2, 3, 4):
        for es in graphs.all_undirected(n, loops=(n <= 3)):
            if es:
                cases += cases_for_graph(ctx, graphs.csr_from_edges(n, es, [1.0] * len(es)), rng, full=True)
    for nr, nc in [(1, 2), (2, 2), (2, 3)]:
        for es in graphs.all_bipartite(nr, nc):
            if es:
                cases += cases_for_graph(ctx, graphs.csr_from_edges(nr, es, [1.0] * len(es), m=nc), rng, full=True,
                                         force_bipartite=(nr == nc))
    for _ in range(500):
        n = rng.randint(2, 7)
        t = random_tree(rng, list(range(n)), rng.randint(1, 3))
        if len(t) > 1:
            cases.append(case_get_dendrogram(t))
    sub = Sub(ctx)
    evaluate(sub, cases)
    return sub.found()


def replay(ctx, payload):
    case = payload.get('case') or {}
    if not case and isinstance(payload.get('what_no_longer_checks'), dict):
        case = payload['what_no_longer_checks'].get('case') or {}
    cs = cases_from_desc(case)
    if not cs:
        from vlib.core import ToolFailure
        raise ToolFailure('replay: the payload does not describe a case this harness can rebuild: %r' % (sorted(payload.keys()),))
    evaluate(ctx, cs)
