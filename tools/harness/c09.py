"""C09 — spectral and SVD embeddings satisfy the equations that define them.

Correspondence.  Every case calls the real estimator (overlay build of /repo's working tree).  ARPACK and the other
external pieces are *captured*: `Spectral` runs with a recording subclass of `LanczosEig` (patched into
`sknetwork.embedding.spectral`), `GSVD`/`SVD`/`PCA` run with a custom `SVDSolver` passed through the public `solver=`
argument (an exact dense SVD that hands its triplets back in a scrambled order, or a recording wrapper of `LanczosSVD`),
`RandomProjection`'s Gaussian matrix is redrawn from the same seed, `LouvainEmbedding` runs with a recording subclass
of `Louvain`.  Then
  contract line -> the solver output satisfies its residual equations for the *model's* operator (hypothesis of the theorems)
  run line      -> the Lean model (SkNet/Model/Embedding.lean, Float) recomputes every public attribute from the captured
                   solver output; compared within TOL_RUN
  spec line     -> the Lean specification (SkNet/Spec/Embedding.lean: matrices written entry by entry from the documented
                   formulas) is evaluated on the implementation's public outputs only.
"""
import copy
import math
import struct
import warnings

import numpy as np
from scipy import sparse

from vlib import graphs
from vlib.cases import Case, Sub, evaluate as _evaluate
from vlib.core import enc_bool, enc_list, ToolFailure

# ---- named tolerances (DESIGN section 8) -------------------------------------------------------------------
TOL_RUN = 1e-9        # model (Float, from the captured solver output) vs implementation: |x-y| <= TOL_RUN*(1+|x|)
TOL_SPEC = 1e-8       # residual equations / closed forms evaluated on the public outputs (scaled inside the spec)
TOL_CONTRACT = 1e-9   # residual equations of the captured solver output
COND_MIN = 1e-3       # predict-reproduces-embedding is compared only if sigma_min > COND_MIN * sigma_max and every
#                       un-normalised embedding row has norm > COND_MIN (the hypothesis sigma != 0 of the theorem)
TOL_PREDICT = 1e-7    # predict(row i) vs embedding_row_[i] under that conditioning guard

SOLVER_EXCEPTION_BUDGET = {'quick': 3, 'thorough': 10}    # solver exceptions on inputs of the domain that are only counted
EVALUATION_FLOOR = {'quick': 3000, 'thorough': 15000}      # a run that evaluates less did not check the property

RULE = ('all undirected graphs n<=4 (loops n<=3; unit or random symmetric weights for n=4) x decomposition x regularisation x '
        'normalised for Spectral; all 0/1 biadjacency matrices up to 3x3 for GSVD/SVD/PCA; structured random weighted graphs '
        '(connected, disconnected, isolated nodes, self-loops, directed -> bipartite route) n<=12, larger graphs n in 24..40 '
        '(ARPACK with ncv < n), rectangular matrices, x the parameter grid (n_components incl. clamped, factor_row/col/singular, '
        'regularisation None/0/positive/negative, normalised) x three solver paths (exact dense SVD object with scrambled order, '
        'recording LanczosSVD object, the default solver="lanczos" by name); a quarter of the inputs in another container '
        '(csc/coo/lil/dense), dtype (float32/int64/bool) or storage (unsorted indices, duplicate entries); matrices with '
        'explicitly stored zeros (bridging components or one-sided) x regularisation incl. -1; the operators Laplacian / '
        'Regularizer / Normalizer on their own with negative, zero and positive factor; predict on rows of the fitted matrix '
        'incl. empty rows - a predicted row is compared (run and spec line) iff, decided from the input and the captured '
        'solver output only, sigma_min > 1e-3 sigma_max when the prediction is divided by a power of sigma (PCA, '
        'factor_singular != 0) and, when normalized, the un-normalised embedding of the row has norm > 1e-3 (normalize '
        'maps a numerically null row to an arbitrary unit vector); a GSVD input is in the domain iff no regularised '
        'weight is negative (decided from the input); RandomProjection x (random_walk, regularisation, n_iter, alpha); LouvainEmbedding x isolated_nodes; '
        'a degenerate stream (1 node, empty matrix, n_components <= 0 or too large, rank-deficient, stored zeros, isolated node). '
        'A case is non-trivial when the estimator did not raise and returned at least one component on a matrix with '
        'at least two stored entries; distinct = distinct (estimator, matrix, parameters, variant, check).')
ASSUMPTIONS = [
    'ARPACK (eigsh/svds) and LAPACK return eigenpairs / singular triplets of the operator they are given: checked on every '
    'captured output by contract lines (residual <= TOL_CONTRACT*scale; for eigsh also orthonormal vectors); a failing '
    'contract is counted and the public outputs are judged by the spec lines all the same',
    'extremality (which part of the spectrum) and the number of components are judged against a dense LAPACK oracle '
    '(numpy eigvalsh / svd of the documented matrix); when n > 20 (large graphs, block adjacency of directed 11/12-node '
    'graphs) and the spectrum is degenerate at the cut, only: every returned value is an eigenvalue below the '
    '(count+1)-th distinct one; not judged for the random walk on a graph with a node of regularised degree zero '
    '(D^-1 does not exist: scope)',
    'an exception of ARPACK / LAPACK passed on by fit on an input of the domain is counted only for the first %r per run '
    '(quick / thorough) and is a failing input beyond that; any other exception is a disagreeing run line; self-loops-only '
    'graphs with regularization=0 (zero Laplacian) are counted apart; a run with fewer than %r evaluations is a tool failure'
    % (SOLVER_EXCEPTION_BUDGET, EVALUATION_FLOOR),
    'no case is dropped because of what the implementation returned: the domain (negative regularised weights) and the '
    'conditioning masks of predict are decided from the input and the captured solver output',
    'np.linalg.qr / RandomState.normal are redrawn by the harness from the same seed; Louvain labels are captured',
    'scipy sparse products, np.argsort: the run line is skipped when two captured values are exactly equal (both sides sort '
    'the same floats, so exact equality is the only tie), the spec line alone judges then',
]

CAP = {}


# ---- number encoding ---------------------------------------------------------------------------------------
def enc_f(x):
    x = float(x)
    if x != x:
        return 'nan'
    if x in (float('inf'), float('-inf')):
        return 'inf' if x > 0 else '-inf'
    if x == 0:
        return '0'
    if x.is_integer() and abs(x) < 2 ** 53:
        return str(int(x))
    m, e = math.frexp(x)
    mi = int(m * (1 << 53))
    e -= 53
    while mi % 2 == 0:
        mi //= 2
        e += 1
    return '%d^%d' % (mi, e)


def enc_vec(v):
    v = np.asarray(v, dtype=float).ravel()
    return ','.join(enc_f(x) for x in v) if len(v) else '-'


def enc_mat(m):
    m = np.asarray(m, dtype=float)
    if m.ndim == 1:
        m = m.reshape(1, -1)
    return ';'.join(enc_vec(r) for r in m) if m.shape[0] else '_'


def enc_optf(x):
    return '_' if x is None else enc_f(x)


def dec_f(s):
    return struct.unpack('<d', struct.pack('<Q', int(s)))[0]


def dec_vec(s):
    return [] if s == '-' else [dec_f(x) for x in s.split(',')]


def dec_mat(s):
    if s == 'none':
        return None
    return [] if s == '_' else [dec_vec(r) for r in s.split(';')]


def bits(x):
    return str(struct.unpack('<Q', struct.pack('<d', float(x)))[0])


def out_vec(v):
    v = np.asarray(v, dtype=float).ravel()
    return ','.join(bits(x) for x in v) if len(v) else '-'


def out_mat(m):
    if m is None:
        return 'none'
    m = np.asarray(m, dtype=float)
    if m.ndim == 1:
        m = m.reshape(1, -1)
    return ';'.join(out_vec(r) for r in m) if m.shape[0] else '_'


def parse_answer(s):
    """'ok k=v k=v' -> dict; values: ints stay strings, vectors / matrices decoded."""
    toks = s.split(' ')
    d = {}
    for t in toks[1:]:
        k, _, v = t.partition('=')
        d[k] = v
    return d


INT_KEYS = {'bip', 'reg', 'k', 'lab', 'which'}
VEC_KEYS = {'ev', 'sv', 'wc', 'v', 'mean'}


def close(x, y, tol=TOL_RUN):
    if (x != x and y != y) or x == y:
        return True
    return abs(x - y) <= tol * (1 + abs(x))


def same_answer(model, impl, tol=TOL_RUN):
    if model.startswith('err') and impl.startswith('err'):
        # same place, same refusal: the class of the exception is the external solver's wording (svds raised ValueError for
        # k outside 0 < k < min(shape), eigsh on the Gram operator raises TypeError for the same k)
        return True
    if model.startswith('err') or impl.startswith('err'):
        return False
    if not (model.startswith('ok') and impl.startswith('ok')):
        return False
    a, b = parse_answer(model), parse_answer(impl)
    if set(a) != set(b):
        return False
    for k in a:
        if k in INT_KEYS:
            if a[k] != b[k]:
                return False
        elif k in VEC_KEYS:
            x, y = dec_vec(a[k]), dec_vec(b[k])
            if len(x) != len(y) or not all(close(p, q, tol) for p, q in zip(x, y)):
                return False
        else:
            x, y = dec_mat(a[k]), dec_mat(b[k])
            if (x is None) != (y is None):
                return False
            if x is None:
                continue
            if len(x) != len(y):
                return False
            for r, s in zip(x, y):
                if len(r) != len(s) or not all(close(p, q, tol) for p, q in zip(r, s)):
                    return False
    return True


def _same(c, model, impl, spec_ok):
    return same_answer(model, impl, c.tol or TOL_RUN)


def evaluate(ctx, cases):
    _evaluate(ctx, cases, same=_same)


ERRORS = (ValueError, IndexError, TypeError, KeyError, ZeroDivisionError)


def call(f):
    try:
        return f()
    except ERRORS as e:
        return 'err ' + type(e).__name__


class NonFiniteOperator(Exception):
    """Raised by the harness's own dense solver when the implementation hands it an operator with NaN / inf entries
    (on an input of the domain this is a failure of the implementation: it becomes `err NonFiniteOperator`)."""


SOLVER_ERRORS = ('ArpackNoConvergence', 'ArpackError', 'LinAlgError')


def run_est(ctx, f):
    """Run an estimator: `ok`, or `err <Class>` for *every* exception.  What an `err` of the external solver
    (ARPACK / LAPACK) means is decided by the caller from the input (`solver_failure`)."""
    try:
        return f()
    except ERRORS as e:
        return 'err ' + type(e).__name__
    except Exception as e:
        if type(e).__name__ not in SOLVER_ERRORS:
            ctx.count('unexpected-exception:' + type(e).__name__)
        return 'err ' + type(e).__name__


def solver_failure(ctx, status, key, sig, desc):
    """The estimator passed on an exception of ARPACK / LAPACK on an input of the domain.  The first few per run are
    counted only (`SOLVER_EXCEPTION_BUDGET`: ARPACK may legitimately fail to converge once in a while); beyond the budget
    "fit raises on a legitimate input" is a failure of the property, with the input as replay."""
    name = status.split(' ')[1]
    used = getattr(ctx, '_c09_solver_lost', 0)
    if used < SOLVER_EXCEPTION_BUDGET[ctx.tier]:
        ctx._c09_solver_lost = used + 1
        ctx.count('solver-exception:' + name)
        ctx.note('solver exception counted only: %s %s on %s' % (status, desc.get('params'), desc.get('matrix')))
        return None
    return Fit([], lambda ok: [Case(key + ('raised',), dict(sig, check='fit-raises-on-legitimate-input'), None, status,
                                    'c09.spec_raised ' + name, True, desc)])


def gsvd_in_domain(dense, reg):
    """A negative regularisation that makes a regularised row or column weight negative is outside the quantifier
    (powers of negative weights are NaN in the code and in the model alike).  Decided from the input alone."""
    if not reg or reg > 0:
        return True
    nr, ncol = dense.shape
    return bool(np.all(dense.sum(axis=1) + reg >= 0) and np.all(dense.sum(axis=0) + nr * reg / ncol >= 0))


# ---- input variants: the same matrix in another container / dtype / storage ---------------------------------------
def make_input(a, variant, seed=0):
    """`a`: canonical float64 CSR.  Returns what is handed to the estimator.  `variant` keys: format
    (csr|csc|coo|lil|dense), dtype (float64|float32|int64|bool), unsorted, dup (a stored entry split in two)."""
    if not variant:
        return a
    import random as _r
    rng = _r.Random(seed)
    m = a.copy()
    dt = variant.get('dtype', 'float64')
    if dt != 'float64':
        m = m.astype(dt)
    if variant.get('dup') and m.nnz and dt != 'bool':
        coo = sparse.coo_matrix(m)
        cand = [t for t in range(coo.nnz) if dt.startswith('float') or coo.data[t] >= 2]
        if cand:
            t = rng.choice(cand)
            first = coo.data[t] / 2 if dt.startswith('float') else coo.data[t] // 2
            data = np.concatenate([coo.data, [coo.data[t] - first]])
            data[t] = first
            rows = np.concatenate([coo.row, [coo.row[t]]])
            cols = np.concatenate([coo.col, [coo.col[t]]])
            order = np.lexsort((cols, rows))
            indptr = np.concatenate([[0], np.cumsum(np.bincount(rows, minlength=a.shape[0]))])
            m = sparse.csr_matrix((data[order], cols[order], indptr), shape=a.shape)
    if variant.get('unsorted'):
        m = graphs.unsorted_copy(sparse.csr_matrix(m), rng)
    fmt = variant.get('format', 'csr')
    if fmt == 'csc':
        m = sparse.csc_matrix(m)
    elif fmt == 'coo':
        m = sparse.coo_matrix(m)
    elif fmt == 'lil':
        m = sparse.lil_matrix(m)
    elif fmt == 'dense':
        m = np.asarray(sparse.csr_matrix(m).toarray())
    return m


def canonical(a_in):
    """What `check_format` makes of the input, and its dense denotation (duplicates summed)."""
    c = sparse.csr_matrix(a_in)
    return c, np.asarray(c.toarray(), dtype=float)


def pick_variant(rng, allow_dense=True):
    if rng.random() < 0.75:
        return None
    v = {}
    v['format'] = rng.choice(['csr', 'csc', 'coo', 'lil'] + (['dense'] if allow_dense else []))
    v['dtype'] = rng.choice(['float64', 'float32', 'int64', 'bool'])
    if v['format'] == 'csr':
        v['unsorted'] = rng.random() < 0.5
        v['dup'] = rng.random() < 0.4
    return v


def oracle_reg(adj, reg):
    """Documented rule, computed independently (scipy on the non-zero entries)."""
    if reg >= 0:
        return float(reg)
    g = sparse.csr_matrix(adj != 0)
    ncomp = sparse.csgraph.connected_components(g, directed=True, connection='strong', return_labels=False)
    return 0. if ncomp == 1 else float(-reg)


# ---- capturing the external pieces ----------------------------------------------------------------------------
_patched = False


def patch():
    """Install the recording subclasses (idempotent; the overlay's sknetwork is already imported)."""
    global _patched
    import sknetwork.embedding.spectral as sp_mod
    import sknetwork.embedding.louvain_embedding as le_mod
    import sknetwork.linalg.svd_solver as svd_mod
    from sknetwork.linalg import LanczosEig
    from sknetwork.clustering import Louvain
    if getattr(sp_mod.LanczosEig, '_c09_cap', False) and _patched:
        return

    class CapEig(LanczosEig):
        _c09_cap = True

        def fit(self, matrix, n_components=2):
            CAP['eig'] = None
            r = super().fit(matrix, n_components)
            CAP['eig'] = {'op': matrix, 'k': n_components, 'values': np.array(self.eigenvalues_, dtype=float),
                          'vectors': np.array(self.eigenvectors_, dtype=float), 'which': self.which}
            return r

    class CapLouvain(Louvain):
        _c09_cap = True

        def fit(self, *a, **k):
            CAP['louvain'] = None
            r = super().fit(*a, **k)
            CAP['louvain'] = {'labels': None if self.labels_ is None else np.array(self.labels_),
                              'row': None if getattr(self, 'labels_row_', None) is None else np.array(self.labels_row_),
                              'col': None if getattr(self, 'labels_col_', None) is None else np.array(self.labels_col_)}
            return r

    sp_mod.LanczosEig = CapEig
    le_mod.Louvain = CapLouvain
    # LanczosSVD: record the operator and k it is asked for (class-level wrapper: also the instances the estimators create
    # themselves on the default solver="lanczos" path), and the `which` it hands to ARPACK (svds in the first version of
    # the code, eigsh on the Gram operator since /repo bac4e07a)
    if not getattr(svd_mod.LanczosSVD.fit, '_c09_cap', False):
        orig_fit = svd_mod.LanczosSVD.fit

        def cap_fit(self, matrix, n_components, init_vector=None):
            CAP['lanczos_fit'] = {'matrix': matrix, 'k': n_components}
            return orig_fit(self, matrix, n_components, init_vector)
        cap_fit._c09_cap = True
        svd_mod.LanczosSVD.fit = cap_fit
    for fname in ('svds', 'eigsh'):
        orig = getattr(svd_mod, fname, None)
        if orig is None or getattr(orig, '_c09_cap', False):
            continue

        def make(orig, fname):
            def cap(*a, **k):
                out = orig(*a, **k)
                CAP['svds_call'] = {'which': k.get('which', 'LM'), 'function': fname}
                if fname == 'svds':
                    CAP['svds'] = tuple(np.array(x) for x in out)
                return out
            cap._c09_cap = True
            return cap
        setattr(svd_mod, fname, make(orig, fname))
    _patched = True


def make_solvers():
    from sknetwork.linalg import SVDSolver, LanczosSVD

    def dense_of(matrix):
        if sparse.issparse(matrix):
            return np.asarray(matrix.toarray(), dtype=float)
        return np.asarray(matrix.dot(np.eye(matrix.shape[1])), dtype=float)

    class DenseSolver(SVDSolver):
        """Exact dense SVD of the operator it is given; triplets handed back in the order `order` (a permutation
        chosen by the harness) so that the re-ordering of GSVD.fit is exercised."""

        def __init__(self, scramble=None):
            super().__init__()
            self.scramble = scramble
            self.matrix = None
            self.k = None

        def fit(self, matrix, n_components, init_vector=None):
            self.matrix, self.k = matrix, n_components
            dense = dense_of(matrix)
            if not np.all(np.isfinite(dense)):
                raise NonFiniteOperator('the operator handed to the solver has NaN / inf entries')
            if not (isinstance(n_components, (int, np.integer)) and 0 < n_components < min(dense.shape)):
                raise ValueError('`k` must be an integer satisfying `0 < k < min(A.shape)`.')
            u, s, vt = np.linalg.svd(dense, full_matrices=False)
            idx = list(range(n_components))
            if self.scramble is not None:
                self.scramble.shuffle(idx)
            self.singular_values_ = s[idx]
            self.singular_vectors_left_ = u[:, idx]
            self.singular_vectors_right_ = vt.T[:, idx]
            return self

    class CapLanczos(LanczosSVD):
        def __init__(self):
            super().__init__()
            self.matrix = None
            self.k = None
            self.raw = None

        def fit(self, matrix, n_components, init_vector=None):
            self.matrix, self.k = matrix, n_components
            CAP['svds'] = None
            np.random.seed(12345)
            r = super().fit(matrix, n_components, init_vector)
            self.raw = CAP.get('svds')      # only when the code still calls svds
            return r

    return DenseSolver, CapLanczos, dense_of


# ---- a fitted estimator with everything needed to emit its lines ------------------------------------------------
class Fit:
    """One call of an estimator: `contracts` (lines) are evaluated first, then `cases(ok)` builds the cases."""

    def __init__(self, contracts, builder):
        self.contracts = contracts
        self.builder = builder


def reuse_begin(reuse, make):
    """One estimator object fitted several times (`reuse` is the session of a refit sequence): returns the live estimator
    (created by `make()` on the first fit) and the descriptions of the matrices it was fitted on before."""
    if reuse is None:
        return make(), []
    if reuse.get('est') is None:
        reuse['est'] = make()
        reuse['history'] = []
    return reuse['est'], list(reuse['history'])


def reuse_end(reuse, live, a):
    """Record the fit and hand back a snapshot of the fitted state: the cases are built after the whole batch ran, when
    the live object has been refitted."""
    if reuse is not None:
        reuse['history'].append(mat_desc(a))
    return copy.copy(live)


def mat_desc(m):
    m = sparse.csr_matrix(m)
    return {'shape': list(m.shape), 'indptr': m.indptr.tolist(), 'indices': m.indices.tolist(),
            'data': [float(x) for x in m.data]}


def mat_from_desc(d):
    return sparse.csr_matrix((np.array(d['data'], dtype=float), np.array(d['indices'], dtype=int),
                              np.array(d['indptr'], dtype=int)), shape=tuple(d['shape']))


def block(b):
    b = np.asarray(b, dtype=float)
    nr, nc = b.shape
    out = np.zeros((nr + nc, nr + nc))
    out[:nr, nr:] = b
    out[nr:, :nr] = b.T
    return out


def has_ties(v):
    v = list(np.asarray(v, dtype=float).ravel())
    return len(set(v)) != len(v)


def spec_case(key, sig, line, desc, nontrivial=True):
    return Case(key, sig, None, 'spec', line, nontrivial, desc)


# ---------------------------------------------------------------- Spectral
def spectral_oracle(adj, reg, rw, nc):
    """Dense oracle (LAPACK) for the documented matrices: the eigenvalues of the regularised Laplacian `D_reg - A_reg` in
    increasing order, or of the transition matrix `D_reg^-1 A_reg` in decreasing order (computed through the similar
    symmetric matrix `I - D^-1/2 A_reg D^-1/2`), the first skipped, `min(n_components, n-2)` of them.
    Returns a dict; `defined` is False for the random walk on a graph with a node of (regularised) degree zero: `D^-1`
    does not exist there and the documentation does not say what the decomposition is (scope, see the status file)."""
    n = adj.shape[0]
    r = oracle_reg(adj, reg)
    areg = adj + r / n
    d = areg.sum(axis=1)
    lap = np.diag(d) - areg
    if rw:
        if np.any(d == 0):
            return {'defined': False}
        s = 1. / np.sqrt(d)
        lap = s[:, None] * lap * s[None, :]
    w = np.linalg.eigvalsh((lap + lap.T) / 2)
    count = max(0, min(nc, n - 2))
    eps = 1e-6 * (1 + np.abs(w).max())
    window = w[:count + 2]
    degenerate = bool(len(window) > 1 and np.min(np.diff(window)) < eps)
    distinct = [w[0]]
    for x in w[1:]:
        if x - distinct[-1] >= eps:
            distinct.append(x)
    bound = distinct[min(count, len(distinct) - 1)]      # the (count+1)-th distinct eigenvalue
    want = w[1:1 + count]
    return {'defined': True, 'want': (1 - want) if rw else want, 'degenerate': degenerate, 'spectrum': w, 'bound': bound,
            'count': count}


def fit_spectral(ctx, a, nc, dec, reg, normalized, fb=False, variant=None, reuse=None):
    from sknetwork.embedding import Spectral
    patch()
    a = sparse.csr_matrix(a)
    a_in = make_input(a, variant, seed=a.nnz + 7 * a.shape[0])
    a, dense = canonical(a_in)
    nr, ncol = a.shape
    rw = dec == 'rw'
    params = {'n_components': nc, 'decomposition': dec, 'regularization': reg, 'normalized': normalized,
              'force_bipartite': fb}
    est, history = reuse_begin(reuse, lambda: Spectral(nc, decomposition=dec, regularization=reg, normalized=normalized))
    desc = {'estimator': 'Spectral', 'matrix': mat_desc(a), 'params': params, 'variant': variant, 'history': history}
    sig0 = {'entry': 'Spectral.fit', 'decomposition': dec, 'normalized': normalized, 'refit': bool(history)}
    CAP['eig'] = None

    def f():
        with warnings.catch_warnings():
            warnings.simplefilter('ignore')
            np.random.seed(12345)
            est.fit(a_in, force_bipartite=fb)
        return 'ok'
    status = run_est(ctx, f)
    est = reuse_end(reuse, est, a)
    gkey = ('Spectral', a.shape, a.indptr.tobytes(), a.indices.tobytes(), a.data.tobytes(), nc, dec, reg, normalized, fb,
            repr(variant), repr(history))
    if status.startswith('err') and status.split(' ')[1] in SOLVER_ERRORS:
        blk = block(dense) if (fb or nr != ncol or not np.array_equal(dense, dense.T)) else dense
        if oracle_reg(blk, reg) == 0 and not np.any(blk - np.diag(np.diag(blk))):
            # only self-loops and no regularisation: the Laplacian is the zero operator, every vector is an eigenvector and
            # ARPACK refuses to start ("starting vector is zero"); stated in the status file, decided from the input
            ctx.count('zero-laplacian:' + status.split(' ')[1])
            return None
        return solver_failure(ctx, status, gkey, sig0, desc)
    cap = CAP.get('eig')
    head = 'c09.spectral %d %d %s %d %s %d %s %s %s' % (nr, ncol, enc_mat(dense), a.nnz, enc_bool(fb), nc,
                                                       enc_bool(rw), enc_f(reg), enc_bool(normalized))
    if status != 'ok' or cap is None:
        run = head + ' - _'
        return Fit([], lambda ok: [Case(gkey + ('run',), dict(sig0, check='run'), run, status, None, False, desc)])
    bip = bool(est.bipartite)
    adj = block(dense) if bip else dense
    n = adj.shape[0]
    reg_eff = float(cap['op'].regularization)
    contract = 'c09.contract_eig %d %s %s %s %s %s %s' % (n, enc_mat(adj), enc_f(reg_eff), enc_bool(rw),
                                                         enc_vec(cap['values']), enc_mat(cap['vectors']), enc_f(TOL_CONTRACT))
    x = np.array([ctx.rng.choice([-2, -1, 0, 1, 2, 3]) for _ in range(n)], dtype=float)
    mv = cap['op'].dot(x)
    # did the solver honour its contract on the operator it was actually given? (then a failing Lean contract means
    # that this operator is not the model's operator: the implementation's outputs are still judged by the spec lines)
    res = cap['op'].dot(cap['vectors']) - cap['vectors'] * cap['values'][None, :]
    solver_ok = bool(np.all(np.abs(res) <= TOL_CONTRACT * (1 + np.abs(cap['op'].weights).max() + abs(reg_eff))))

    def builder(ok):
        cases = []
        # the operator the solver saw is the model's operator
        cases.append(Case(gkey + ('lapmv',), dict(sig0, check='laplacian-operator', entry='Laplacian.dot'),
                          'c09.lapmv %d %s %s %s %s' % (n, enc_mat(adj), enc_f(reg_eff), enc_bool(rw), enc_vec(x)),
                          'ok v=' + out_vec(mv), None, a.nnz > 1, desc))
        # a failing contract is not excused: LanczosEig (tolerance, number of iterations, which) is part of the code, so
        # the public outputs are judged by the spec lines in every case; the counters say what happened
        if not ok:
            ctx.count('operator-mismatch:Laplacian' if solver_ok else 'contract-failed:eigsh')
        k_out = len(est.eigenvalues_)
        nontriv = a.nnz > 1 and k_out >= 1
        impl = 'ok which=%s bip=%s reg=%s k=%d ev=%s evec=%s emb=%s embcol=%s' % (
            cap['which'], enc_bool(bip), enc_bool(bool(est.regularized)), cap['k'], out_vec(est.eigenvalues_),
            out_mat(est.eigenvectors_), out_mat(est.embedding_), out_mat(est.embedding_col_ if bip else None))
        run = head + ' %s %s' % (enc_vec(cap['values']), enc_mat(cap['vectors']))
        if has_ties(cap['values']):
            ctx.count('tie-skipped')
            run = None
        spec = 'c09.spec_spectral %d %s %s %s %s %s %s' % (n, enc_mat(adj), enc_f(reg), enc_bool(rw),
                                                          enc_vec(est.eigenvalues_), enc_mat(est.eigenvectors_), enc_f(TOL_SPEC))
        cases.append(Case(gkey + ('run',), dict(sig0, check='eigen-equation'), run, impl, spec, nontriv, desc))
        # extremality and count: the documented part of the spectrum, from a dense eigendecomposition
        orc = spectral_oracle(adj, reg, rw, nc)
        if not orc['defined']:
            # random walk with a node of degree zero and no regularisation: D^-1 does not exist; outside the scope
            ctx.count('rw-zero-degree-unjudged')
        elif orc['degenerate'] and n > 20:
            # a Lanczos process started from one vector finds one copy of a multiple eigenvalue; with ncv = 20 < n (block
            # adjacency of a directed 11- or 12-node graph, larger graphs) ARPACK may miss the other copies: the multiset
            # is not judged there, but every returned value must be an eigenvalue below the (count+1)-th distinct one
            ctx.count('degenerate-spectrum-weaker-judgement')
            got_sym = (1 - np.asarray(est.eigenvalues_, dtype=float)) if rw else np.asarray(est.eigenvalues_, dtype=float)
            cases.append(spec_case(gkey + ('among',), dict(sig0, check='extremal-eigenvalues', degenerate=True),
                                   'c09.spec_among %s %s %s %s' % (enc_vec(orc['spectrum']), enc_vec(got_sym),
                                                                  enc_f(orc['bound']), enc_f(TOL_SPEC)), desc,
                                   nontriv and len(got_sym) == orc['count']))
            if len(got_sym) != orc['count']:
                cases.append(spec_case(gkey + ('count',), dict(sig0, check='extremal-eigenvalues', degenerate=True),
                                       'c09.spec_extreme %s %s %s' % (enc_vec(np.zeros(orc['count'])), enc_vec(np.zeros(len(got_sym))),
                                                                      enc_f(TOL_SPEC)), desc, nontriv))
        else:
            cases.append(spec_case(gkey + ('extreme',), dict(sig0, check='extremal-eigenvalues'),
                                   'c09.spec_extreme %s %s %s' % (enc_vec(orc['want']), enc_vec(est.eigenvalues_),
                                                                  enc_f(TOL_SPEC)), desc, nontriv))
        full = np.vstack([est.embedding_row_, est.embedding_col_]) if bip else est.embedding_
        if normalized:
            cases.append(spec_case(gkey + ('unit',), dict(sig0, check='unit-norm'),
                                   'c09.spec_unit %d %d %s %s' % (n, k_out, enc_mat(full), enc_f(TOL_SPEC)), desc, nontriv))
            cases.append(spec_case(gkey + ('norm',), dict(sig0, check='embedding-from-eigenvectors'),
                                   'c09.spec_normalized %d %d %s %s %s' % (n, k_out, enc_mat(est.eigenvectors_), enc_mat(full),
                                                                         enc_f(TOL_SPEC)), desc, nontriv))
        else:
            cases.append(spec_case(gkey + ('norm',), dict(sig0, check='embedding-from-eigenvectors'),
                                   'c09.spec_close %d %d %s %s %s' % (n, k_out, enc_mat(est.eigenvectors_), enc_mat(full),
                                                                    enc_f(TOL_SPEC)), desc, nontriv))
        return cases
    return Fit([contract], builder)


# ---------------------------------------------------------------- the operators on their own (any sign of the factor)
def fit_operators(ctx, a, reg):
    """`Laplacian(adj, reg, normalized)` and the multipliers of RandomProjection (`Regularizer`, `Normalizer`) applied to
    integer data, for positive, zero and negative `reg` (the estimators only pass `reg >= 0`)."""
    from sknetwork.linalg import Laplacian, Regularizer, Normalizer
    a = sparse.csr_matrix(a).astype(float)
    dense = a.toarray()
    n = a.shape[0]
    desc = {'estimator': 'operators', 'matrix': mat_desc(a), 'params': {'regularization': reg}}
    gkey = ('operators', a.shape, a.indptr.tobytes(), a.indices.tobytes(), a.data.tobytes(), reg)
    w = dense.sum(axis=1)
    x = np.array([ctx.rng.choice([-2, -1, 0, 1, 2, 3]) for _ in range(n)], dtype=float)
    m = np.array([[ctx.rng.choice([-1, 0, 1, 2]) for _ in range(2)] for _ in range(n)], dtype=float)
    out = []
    for nm in (False, True):
        if nm and not np.all(w + reg > 0):
            continue        # sqrt of a negative regularised degree: NaN on both sides, nothing to compare
        op = Laplacian(a, reg, nm)
        out.append(Case(gkey + ('lapmv', nm), {'entry': 'Laplacian.dot', 'check': 'laplacian-operator', 'normalized': nm},
                        'c09.lapmv %d %s %s %s %s' % (n, enc_mat(dense), enc_f(reg), enc_bool(nm), enc_vec(x)),
                        'ok v=' + out_vec(op.dot(x)), None, a.nnz > 1, desc))
    for rw in (False, True):
        op = Normalizer(a, reg) if rw else Regularizer(a, reg)
        with np.errstate(all='ignore'):
            prod = np.asarray(op.dot(m), dtype=float)
        if not np.all(np.isfinite(prod)):
            continue
        out.append(Case(gkey + ('rpmult', rw), {'entry': 'Normalizer.dot' if rw else 'Regularizer.dot', 'check': 'multiplier'},
                        'c09.rpmult %d 2 %s %s %s %s' % (n, enc_mat(dense), enc_f(reg), enc_bool(rw), enc_mat(m)),
                        'ok m=' + out_mat(prod), None, a.nnz > 1, desc))
    return Fit([], lambda ok: out)


# ---------------------------------------------------------------- GSVD / SVD / PCA
def fit_svd(ctx, kind, a, nc, reg=None, fr=0.5, fc=0.5, fs=0., normalized=True, solver='dense', predict_rows=(),
            variant=None, reuse=None):
    """solver: 'dense' (exact dense SVD object, scrambled order), 'lanczos' (recording LanczosSVD object),
    'string' (the default path: solver='lanczos' given by name, the estimator creates its own LanczosSVD)."""
    from sknetwork.embedding import GSVD, SVD, PCA
    patch()
    DenseSolver, CapLanczos, dense_of = make_solvers()
    a = sparse.csr_matrix(a)
    a_in = make_input(a, variant, seed=a.nnz + 7 * a.shape[0])
    a, dense = canonical(a_in)
    nr, ncol = a.shape
    if kind == 'SVD':
        fr, fc = 0., 0.
    if kind == 'PCA':
        fr, fc, fs, reg = 0., 0., 0., None
    params = {'n_components': nc, 'regularization': reg, 'factor_row': fr, 'factor_col': fc, 'factor_singular': fs,
              'normalized': normalized, 'solver': solver, 'predict_rows': list(predict_rows)}
    def make():
        if solver == 'dense':
            sol_ = DenseSolver(ctx.rng)
        elif solver == 'lanczos':
            sol_ = CapLanczos()
        else:
            sol_ = 'lanczos'
        if kind == 'GSVD':
            e_ = GSVD(nc, regularization=reg, factor_row=fr, factor_col=fc, factor_singular=fs, normalized=normalized,
                      solver=sol_)
        elif kind == 'SVD':
            e_ = SVD(nc, regularization=reg, factor_singular=fs, normalized=normalized, solver=sol_)
        else:
            e_ = PCA(nc, normalized=normalized, solver=sol_)
        e_._c09_sol = sol_
        return e_
    est, history = reuse_begin(reuse, make)
    sol = est._c09_sol
    desc = {'estimator': kind, 'matrix': mat_desc(a), 'params': params, 'variant': variant, 'history': history}
    sig0 = {'entry': kind + '.fit', 'normalized': normalized, 'refit': bool(history)}
    CAP['svds'] = None
    CAP['svds_call'] = None
    CAP['lanczos_fit'] = None

    def f():
        with warnings.catch_warnings():
            warnings.simplefilter('ignore')
            est.fit(a_in)
        return 'ok'
    if kind != 'PCA' and not gsvd_in_domain(dense, reg):
        ctx.count('outside-quantifier:negative-regularised-weight')
        return None
    status = run_est(ctx, f)
    est = reuse_end(reuse, est, a)
    gkey = (kind, a.shape, a.indptr.tobytes(), a.indices.tobytes(), a.data.tobytes(), nc, reg, fr, fc, fs, normalized, solver,
            repr(variant), repr(history))
    regtok = enc_optf(reg)
    if kind == 'PCA':
        head = 'c09.pca %d %d %s %d %d %s' % (nr, ncol, enc_mat(dense), a.nnz, nc, enc_bool(normalized))
    else:
        head = 'c09.gsvd %d %d %s %d %d %s %s %s %s %s' % (nr, ncol, enc_mat(dense), a.nnz, nc, regtok, enc_f(fr),
                                                          enc_f(fc), enc_f(fs), enc_bool(normalized))
    if status.startswith('err') and status.split(' ')[1] in SOLVER_ERRORS:
        if (kind == 'PCA' and np.all(dense == dense[0])) or not np.any(dense):
            # all rows equal (PCA) or only stored zeros: the operator is the zero operator, no direction is defined and ARPACK refuses
            # to start; decided from the input, stated in the status file
            ctx.count('zero-operator:' + status.split(' ')[1])
            return None
        return solver_failure(ctx, status, gkey, sig0, desc)
    if status != 'ok':
        run = head + ' - _ _'
        return Fit([], lambda ok: [Case(gkey + ('run',), dict(sig0, check='run'), run, status, None, False, desc)])
    if solver == 'string':
        sol = est.solver          # the LanczosSVD the estimator created for itself
        call_ = CAP.get('lanczos_fit') or {}
        sol_matrix, sol_k, raw = call_.get('matrix'), call_.get('k'), CAP.get('svds')
    else:
        sol_matrix, sol_k, raw = sol.matrix, sol.k, getattr(sol, 'raw', None)
    which = (CAP.get('svds_call') or {}).get('which', 'LM')
    sv_c, u_c, v_c = (np.array(sol.singular_values_, dtype=float), np.array(sol.singular_vectors_left_, dtype=float),
                      np.array(sol.singular_vectors_right_, dtype=float))
    if kind == 'PCA':
        contract = 'c09.contract_pca %d %d %s %s %s %s %s' % (nr, ncol, enc_mat(dense), enc_vec(sv_c), enc_mat(u_c),
                                                             enc_mat(v_c), enc_f(TOL_CONTRACT))
    else:
        contract = 'c09.contract_svd %d %d %s %s %s %s %s %s %s %s' % (nr, ncol, enc_mat(dense), regtok, enc_f(fr), enc_f(fc),
                                                                      enc_vec(sv_c), enc_mat(u_c), enc_mat(v_c),
                                                                      enc_f(TOL_CONTRACT))
    op_dense = dense_of(sol_matrix)
    scale = 1 + np.abs(op_dense).max()
    solver_ok = bool(np.all(np.abs(op_dense.dot(v_c) - u_c * sv_c[None, :]) <= TOL_CONTRACT * scale) and
                     np.all(np.abs(op_dense.T.dot(u_c) - v_c * sv_c[None, :]) <= TOL_CONTRACT * scale))

    def builder(ok):
        cases = []
        if kind == 'PCA':
            oprun = 'c09.pca_op %d %d %s' % (nr, ncol, enc_mat(dense))
        else:
            oprun = 'c09.gsvd_op %d %d %s %s %s %s' % (nr, ncol, enc_mat(dense), regtok, enc_f(fr), enc_f(fc))
        cases.append(Case(gkey + ('op',), dict(sig0, check='operator-given-to-solver'), oprun, 'ok m=' + out_mat(op_dense),
                          None, a.nnz > 1, desc))
        if solver != 'dense' and raw is not None:
            u0, s0, vt0 = raw
            if not has_ties(s0):
                cases.append(Case(gkey + ('svdpost',), {'entry': 'LanczosSVD.fit', 'check': 'order'},
                                  'c09.svdpost %d %d %s %s %s' % (nr, ncol, enc_mat(u0), enc_vec(s0), enc_mat(vt0)),
                                  'ok which=%s sv=%s left=%s right=%s' % (which, out_vec(sv_c), out_mat(u_c), out_mat(v_c)),
                                  None, True, desc))
        elif solver != 'dense':
            # the pre-sort triple is not observable any more (eigsh on the Gram operator + QR + dense SVD): the part of the
            # spectrum asked from ARPACK is still compared
            cases.append(Case(gkey + ('which',), {'entry': 'LanczosSVD.fit', 'check': 'which'}, 'c09.svdwhich',
                              'ok which=%s' % which, None, True, desc))
        if not ok:
            ctx.count(('operator-mismatch:' + kind) if solver_ok else ('contract-failed:' + solver))
        k_out = len(est.singular_values_)
        nontriv = a.nnz > 1 and k_out >= 1
        run = head + ' %s %s %s' % (enc_vec(sv_c), enc_mat(u_c), enc_mat(v_c))
        if kind == 'PCA':
            impl = 'ok sv=%s left=%s right=%s er=%s ec=%s mean=%s' % (
                out_vec(est.singular_values_), out_mat(est.singular_vectors_left_), out_mat(est.singular_vectors_right_),
                out_mat(est.embedding_row_), out_mat(est.embedding_col_), out_vec(getattr(est, 'means_col_', None)
                                                                                  if getattr(est, 'means_col_', None) is not None else []))
            spec = 'c09.spec_pca %d %d %s %s %s %s %s %s %s %s' % (
                nr, ncol, enc_mat(dense), enc_bool(normalized), enc_vec(est.singular_values_),
                enc_mat(est.singular_vectors_left_), enc_mat(est.singular_vectors_right_), enc_mat(est.embedding_row_),
                enc_mat(est.embedding_col_), enc_f(TOL_SPEC))
        else:
            impl = 'ok k=%d sv=%s left=%s right=%s er=%s ec=%s wc=%s' % (
                sol_k, out_vec(est.singular_values_), out_mat(est.singular_vectors_left_),
                out_mat(est.singular_vectors_right_), out_mat(est.embedding_row_), out_mat(est.embedding_col_),
                out_vec(est.weights_col_))
            spec = 'c09.spec_gsvd %d %d %s %s %s %s %s %s %s %s %s %s %s %s' % (
                nr, ncol, enc_mat(dense), regtok, enc_f(fr), enc_f(fc), enc_f(fs), enc_bool(normalized),
                enc_vec(est.singular_values_), enc_mat(est.singular_vectors_left_), enc_mat(est.singular_vectors_right_),
                enc_mat(est.embedding_row_), enc_mat(est.embedding_col_), enc_f(TOL_SPEC))
            if has_ties(sv_c):
                ctx.count('tie-skipped')
                run = None
        # no skip keyed on the implementation's output: on an input of the domain a NaN / inf in the public attributes is
        # a disagreement with the model and a failing spec line
        cases.append(Case(gkey + ('run',), dict(sig0, check='singular-triplets-and-embedding'), run, impl, spec, nontriv, desc))
        # extremality and count: the largest singular values of the operator (dense LAPACK oracle), as many as documented
        sv_all = np.linalg.svd(op_dense, compute_uv=False)
        count = nc if kind == 'PCA' else min(nc, min(nr, ncol) - 1)
        cases.append(spec_case(gkey + ('extreme',), dict(sig0, check='extremal-singular-values'),
                               'c09.spec_extreme %s %s %s' % (enc_vec(sv_all[:count]),
                                                              enc_vec(np.sort(np.asarray(est.singular_values_, dtype=float))[::-1]),
                                                              enc_f(TOL_SPEC)), desc, nontriv))
        cases.append(spec_case(gkey + ('nonneg',), dict(sig0, check='singular-values-nonnegative'),
                               'c09.spec_nonneg %s %s' % (enc_vec(est.singular_values_), enc_f(TOL_SPEC)), desc, nontriv))
        svp = np.asarray(est.singular_values_, dtype=float)
        if k_out >= 1 and svp.min() > COND_MIN * max(svp.max(), 1e-300):
            # unit, mutually orthogonal singular vectors (for sigma ~ 0 the vectors are not determined)
            cases.append(spec_case(gkey + ('orth-left',), dict(sig0, check='orthonormal-vectors', side='left'),
                                   'c09.spec_orthonormal %d %d %s %s' % (nr, k_out, enc_mat(est.singular_vectors_left_),
                                                                        enc_f(TOL_SPEC)), desc, nontriv))
            cases.append(spec_case(gkey + ('orth-right',), dict(sig0, check='orthonormal-vectors', side='right'),
                                   'c09.spec_orthonormal %d %d %s %s' % (ncol, k_out, enc_mat(est.singular_vectors_right_),
                                                                        enc_f(TOL_SPEC)), desc, nontriv))
        if normalized:
            cases.append(spec_case(gkey + ('unit-row',), dict(sig0, check='unit-norm', side='row'),
                                   'c09.spec_unit %d %d %s %s' % (nr, k_out, enc_mat(est.embedding_row_), enc_f(TOL_SPEC)),
                                   desc, nontriv))
            cases.append(spec_case(gkey + ('unit-col',), dict(sig0, check='unit-norm', side='col'),
                                   'c09.spec_unit %d %d %s %s' % (ncol, k_out, enc_mat(est.embedding_col_), enc_f(TOL_SPEC)),
                                   desc, nontriv))
        # predict
        if predict_rows:
            cases.extend(predict_cases(ctx, kind, est, a, dense, reg, fr, fc, fs, normalized, predict_rows, gkey, desc, k_out,
                                       sv_c, u_c))
        return cases
    return Fit([contract], builder)


def predict_cases(ctx, kind, est, a, dense, reg, fr, fc, fs, normalized, rows, gkey, desc, k_out, sv_c, u_c):
    """predict on rows of the fitted matrix.  Which rows are compared is decided from the input and the captured solver
    output only (never from the implementation's answer):
      * when the prediction is divided by a power of sigma (PCA, factor_singular != 0) the rows are compared only if
        sigma_min > COND_MIN * sigma_max (the hypothesis sigma > 0 of the theorem, numerically);
      * when `normalized`, a row is compared only if its un-normalised embedding `D1^-a1 u_i S^(1-a)` (from the
        captured triplets and the input weights) has norm > COND_MIN: normalize turns a numerically null row
        (1e-17 rounding noise) into an arbitrary unit vector, on both sides.
    The rows that are compared go to the run line (model on the same sub-batch) and to the spec line."""
    nr, ncol = a.shape
    sigp = {'entry': kind + '.predict', 'normalized': normalized}
    cases = []
    sv = np.asarray(sv_c, dtype=float)
    div = kind == 'PCA' or fs != 0
    sigma_ok = len(sv) >= 1 and np.all(np.isfinite(sv)) and sv.min() > COND_MIN * max(sv.max(), 1e-300)
    er = np.asarray(u_c, dtype=float)
    if kind != 'PCA':
        wr = dense.sum(axis=1) + (reg or 0.)
        with np.errstate(all='ignore'):
            d = np.power(wr, fr)
            d = np.where(d == 0, 0., 1. / np.where(d == 0, 1., d))
            er = (er * d[:, None]) * np.power(sv, 1 - fs)[None, :]
    raw_norm = np.linalg.norm(er, axis=1) if er.size else np.zeros(nr)
    for rows_i in rows:
        if rows_i == 'wronglen':
            # a vector of the wrong length is refused (ValueError) by the code and by the model
            x = np.ones((1, ncol + 1))
            run = predict_line(kind, est, reg, fr, fc, fs, normalized, ncol, x)
            p = call(lambda: est.predict(x) is None or 'ok')
            cases.append(Case(gkey + ('predict', 'wronglen'), dict(sigp, check='run'), run, p, None, False,
                              dict(desc, predict='wronglen')))
            continue
        idx = list(rows_i) if isinstance(rows_i, (list, tuple)) else [rows_i]
        x = dense[idx, :]
        single = not isinstance(rows_i, (list, tuple))
        arg = np.array(x[0]) if single else sparse.csr_matrix(x)

        def f():
            with warnings.catch_warnings():
                warnings.simplefilter('ignore')
                p = est.predict(arg)
            p = np.asarray(p, dtype=float)
            if p.ndim == 1:
                p = p.reshape(1, -1)
            return p
        try:
            p = call(f)
        except Exception as e:
            p = 'err ' + type(e).__name__
        xnnz = int(np.count_nonzero(x))
        pdesc = dict(desc, predict=idx)
        key = gkey + ('predict', tuple(idx), single)
        if isinstance(p, str):
            # every row of the fitted matrix (also an empty one: an isolated node) must be predictable
            cases.append(Case(key, dict(sigp, check='predict-reproduces-embedding', empty_row=bool(xnnz == 0)),
                              predict_line(kind, est, reg, fr, fc, fs, normalized, ncol, x), p,
                              'c09.spec_raised ' + p.split(' ')[1], True, pdesc))
            continue
        good = list(range(len(idx)))
        if div and not sigma_ok:
            good = []
        elif normalized:
            good = [t for t in good if raw_norm[idx[t]] > COND_MIN]
        if len(good) < len(idx):
            ctx.count('predict-rows-masked', len(idx) - len(good))
        if not good or p.shape[0] != len(idx):
            if p.shape[0] != len(idx):
                cases.append(Case(key, dict(sigp, check='predict-reproduces-embedding'), None, 'shape',
                                  'c09.spec_raised wrong-number-of-rows', True, pdesc))
            continue
        xg, pg = x[good, :], p[good, :]
        run = predict_line(kind, est, reg, fr, fc, fs, normalized, ncol, xg)
        impl = 'ok e=' + out_mat(pg)
        spec = 'c09.spec_close %d %d %s %s %s' % (len(good), k_out, enc_mat(pg),
                                                 enc_mat(np.asarray(est.embedding_row_)[[idx[t] for t in good]]),
                                                 enc_f(TOL_PREDICT))
        cases.append(Case(key, dict(sigp, check='predict-reproduces-embedding'), run, impl, spec, k_out >= 1, pdesc,
                          tol=TOL_PREDICT))
    return cases


def predict_line(kind, est, reg, fr, fc, fs, normalized, ncol, x):
    if kind == 'PCA':
        mc = getattr(est, 'means_col_', None)
        return 'c09.pca_predict %d %s %s %s %s %d %d %s' % (
            ncol, enc_bool(normalized), enc_vec(est.singular_values_), enc_mat(est.singular_vectors_right_),
            enc_vec(mc if mc is not None else []), x.shape[0], x.shape[1], enc_mat(x))
    return 'c09.predict %d %s %s %s %s %s %s %s %s %d %d %s' % (
        ncol, enc_optf(reg), enc_f(fr), enc_f(fc), enc_f(fs), enc_bool(normalized), enc_vec(est.singular_values_),
        enc_mat(est.singular_vectors_right_), enc_vec(est.weights_col_), x.shape[0], x.shape[1], enc_mat(x))


# ---------------------------------------------------------------- RandomProjection
def fit_rp(ctx, a, nc, alpha, n_iter, rw, reg, normalized, seed, fb=False, variant=None, reuse=None):
    from sknetwork.embedding import RandomProjection
    patch()
    a = sparse.csr_matrix(a)
    a_in = make_input(a, variant, seed=a.nnz + 7 * a.shape[0])
    a, dense = canonical(a_in)
    nr, ncol = a.shape
    params = {'n_components': nc, 'alpha': alpha, 'n_iter': n_iter, 'random_walk': rw, 'regularization': reg,
              'normalized': normalized, 'random_state': seed, 'force_bipartite': fb}
    est, history = reuse_begin(reuse, lambda: RandomProjection(nc, alpha=alpha, n_iter=n_iter, random_walk=rw, regularization=reg,
                                                               normalized=normalized, random_state=seed))
    desc = {'estimator': 'RandomProjection', 'matrix': mat_desc(a), 'params': params, 'variant': variant, 'history': history}
    sig0 = {'entry': 'RandomProjection.fit', 'random_walk': rw, 'normalized': normalized, 'refit': bool(history)}

    def f():
        with warnings.catch_warnings():
            warnings.simplefilter('ignore')
            est.fit(a_in, force_bipartite=fb)
        return 'ok'
    status = run_est(ctx, f)
    est = reuse_end(reuse, est, a)
    bip = fb or nr != ncol
    n = nr + ncol if bip else nr
    g = np.linalg.qr(np.random.RandomState(seed).normal(size=(n, nc)))[0]
    gkey = ('RP', a.shape, a.indptr.tobytes(), a.indices.tobytes(), a.data.tobytes(), nc, alpha, n_iter, rw, reg, normalized,
            seed, fb, repr(variant), repr(history))
    run = 'c09.rp %d %d %s %d %s %s %d %s %s %s %s' % (nr, ncol, enc_mat(dense), a.nnz, enc_bool(fb), enc_f(alpha), n_iter,
                                                      enc_bool(rw), enc_f(reg), enc_bool(normalized), enc_mat(g))
    if status != 'ok':
        return Fit([], lambda ok: [Case(gkey + ('run',), dict(sig0, check='run'), run, status, None, False, desc)])

    def builder(ok):
        adj = block(dense) if bip else dense
        full = np.vstack([est.embedding_row_, est.embedding_col_]) if bip else est.embedding_
        impl = 'ok bip=%s reg=%s emb=%s embcol=%s' % (enc_bool(bool(est.bipartite)), enc_bool(bool(est.regularized)),
                                                      out_mat(est.embedding_), out_mat(est.embedding_col_ if bip else None))
        spec = 'c09.spec_rp %d %s %s %d %s %s %s %s %s %s' % (n, enc_mat(adj), enc_f(alpha), n_iter, enc_bool(rw), enc_f(reg),
                                                             enc_bool(normalized), enc_mat(g), enc_mat(full), enc_f(TOL_SPEC))
        cases = [Case(gkey + ('run',), dict(sig0, check='closed-form'), run, impl, spec, a.nnz > 1, desc)]
        if normalized:
            cases.append(spec_case(gkey + ('unit',), dict(sig0, check='unit-norm'),
                                   'c09.spec_unit %d %d %s %s' % (n, full.shape[1], enc_mat(full), enc_f(TOL_SPEC)), desc,
                                   a.nnz > 1))
        return cases
    return Fit([], builder)


# ---------------------------------------------------------------- LouvainEmbedding
def fit_louvain(ctx, a, which, fb=False, reuse=None):
    from sknetwork.embedding import LouvainEmbedding
    patch()
    a = sparse.csr_matrix(a)
    dense = a.toarray().astype(float)
    nr, ncol = a.shape
    est, history = reuse_begin(reuse, lambda: LouvainEmbedding(isolated_nodes=which))
    desc = {'estimator': 'LouvainEmbedding', 'matrix': mat_desc(a), 'params': {'isolated_nodes': which, 'force_bipartite': fb},
            'history': history}
    sig0 = {'entry': 'LouvainEmbedding.fit', 'isolated_nodes': which, 'refit': bool(history)}
    CAP['louvain'] = None

    def f():
        with warnings.catch_warnings():
            warnings.simplefilter('ignore')
            est.fit(a, force_bipartite=fb)
        return 'ok'
    status = run_est(ctx, f)
    est = reuse_end(reuse, est, a)
    cap = CAP.get('louvain')
    gkey = ('LE', a.shape, a.indptr.tobytes(), a.indices.tobytes(), a.data.tobytes(), which, fb, repr(history))
    if cap is None:
        return Fit([], lambda ok: [])          # Louvain itself refused the input: nothing of C09 ran
    sq = not (fb or nr != ncol)        # `louvain.bipartite` is false: Louvain worked on the matrix as an adjacency
    ln = cap['labels'] if sq and cap['labels'] is not None else []
    lr = cap['row'] if not sq and cap['row'] is not None else []
    lc = cap['col'] if not sq and cap['col'] is not None else []
    run = 'c09.louvain %d %d %s %s %s %s %s %s' % (nr, ncol, enc_mat(dense), enc_bool(fb), enc_list(ln), enc_list(lr),
                                                  enc_list(lc), which)
    if status != 'ok':
        return Fit([], lambda ok: [Case(gkey + ('run',), dict(sig0, check='run'), run, status, None, False, desc)])

    def builder(ok):
        impl = 'ok lab=%s emb=%s embcol=%s' % (enc_list(est.labels_), out_mat(est.embedding_),
                                               out_mat(getattr(est, 'embedding_col_', None)))
        spec = 'c09.spec_louvain %d %d %s %s %s %s' % (nr, ncol, enc_mat(dense), enc_list(est.labels_), enc_mat(est.embedding_),
                                                      enc_f(TOL_SPEC))
        cases = [Case(gkey + ('run',), dict(sig0, check='closed-form'), run, impl, spec, a.nnz > 1, desc)]
        if not sq:
            # the column block: closed form for the row labels re-indexed as documented (rank among the column labels
            # carried by more than one column, -1 otherwise), computed here independently of the code and of the model
            vals, counts = np.unique(np.asarray(lc, dtype=int), return_counts=True)
            keep = [int(v) for v, c in zip(vals, counts) if c > 1]
            labrow = [keep.index(int(l)) if int(l) in keep else -1 for l in lr]
            ec = getattr(est, 'embedding_col_', None)
            if ec is None:
                cases.append(Case(gkey + ('col',), dict(sig0, check='closed-form', side='col'), None, 'none',
                                  'c09.spec_raised embedding_col_-is-None', True, desc))
            else:
                cases.append(spec_case(gkey + ('col',), dict(sig0, check='closed-form', side='col'),
                                       'c09.spec_louvain %d %d %s %s %s %s' % (ncol, nr, enc_mat(dense.T), enc_list(labrow),
                                                                              enc_mat(ec), enc_f(TOL_SPEC)), desc, a.nnz > 1))
        return cases
    return Fit([], builder)


# ---- running a batch of fits ------------------------------------------------------------------------------------
def run_fits(ctx, fits):
    fits = [f for f in fits if f is not None]
    lines, owner = [], []
    for i, f in enumerate(fits):
        for ln in f.contracts:
            lines.append(ln)
            owner.append(i)
    answers = ctx.lean(lines) if lines else []
    ok = [True] * len(fits)
    for i, ans in zip(owner, answers):
        if ans == 'bad-args' or ans.startswith('unknown-cmd'):
            raise ToolFailure('driver rejected contract line -> %r' % ans)
        ctx.count('contract:' + ('holds' if ans == 'holds' else 'fails'))
        if ans != 'holds':
            ok[i] = False
            if len([n for n in getattr(ctx, 'notes', []) if n.startswith('contract')]) < 5:
                ctx.note('contract failed: ' + ans)
    cases = []
    for f, o in zip(fits, ok):
        cases.extend(f.builder(o))
    evaluate(ctx, cases)
    return cases


# ---- generators -------------------------------------------------------------------------------------------------
def _mk(n, es, w=None, m=None):
    m = n if m is None else m
    if not es:
        return sparse.csr_matrix((n, m), dtype=float)
    w = [1.0] * len(es) if w is None else w
    return sparse.csr_matrix((np.asarray(w, dtype=float), ([e[0] for e in es], [e[1] for e in es])), shape=(n, m))


WEIGHTS = [1, 1, 2, 3, 0.5, 5]


def sym_weighted(rng, n, es):
    return _mk(n, es, graphs.sym_weights(rng, es, WEIGHTS))


def random_rect(rng, nr, nc, p):
    es = [(i, j) for i in range(nr) for j in range(nc) if rng.random() < p]
    if not es:
        es = [(rng.randrange(nr), rng.randrange(nc))]
    return _mk(nr, es, [rng.choice(WEIGHTS) for _ in es], m=nc)


def rank_of(a):
    return int(np.linalg.matrix_rank(np.asarray(a.toarray(), dtype=float)))


def with_stored_zeros(rng, a, symmetric=True, count=2):
    """The same matrix with a few explicitly stored zeros on absent positions (a stored zero is not an edge)."""
    a = sparse.csr_matrix(a).astype(float)
    n, m = a.shape
    d = a.toarray()
    absent = [(i, j) for i in range(n) for j in range(m) if d[i, j] == 0 and (i != j or n != m)]
    if not absent:
        return a
    extra = []
    for (i, j) in rng.sample(absent, min(count, len(absent))):
        extra.append((i, j))
        if symmetric and n == m:
            extra.append((j, i))
    coo = a.tocoo()
    rows = np.concatenate([coo.row, [e[0] for e in extra]]).astype(int)
    cols = np.concatenate([coo.col, [e[1] for e in extra]]).astype(int)
    data = np.concatenate([coo.data, np.zeros(len(extra))])
    keys = {}
    for r, c, v in zip(rows, cols, data):
        keys[(int(r), int(c))] = keys.get((int(r), int(c)), 0.) + float(v)
    ks = sorted(keys)
    indptr = np.concatenate([[0], np.cumsum(np.bincount([k[0] for k in ks], minlength=n))])
    return sparse.csr_matrix((np.array([keys[k] for k in ks]), np.array([k[1] for k in ks], dtype=int), indptr), shape=(n, m))


def build_fits(ctx):
    rng = ctx.rng
    quick = ctx.quick
    fits = []

    def add(f, tag):
        if f is not None:
            fits.append(f)
            ctx.count('fit:' + tag)

    def weighted_graph(kind, n, es):
        return sym_weighted(rng, n, es) if kind in graphs.UNDIRECTED_KINDS else _mk(n, es, [rng.choice(WEIGHTS) for _ in es])

    # ---- Spectral: exhaustive small undirected graphs (n = 4: unit or random symmetric weights)
    for n in (2, 3, 4):
        gs = list(graphs.all_undirected(n, loops=(n <= 3)))
        for es in gs:
            if not es:
                continue
            a = sym_weighted(rng, n, es) if (n == 4 and rng.random() < 0.5) else _mk(n, es)
            for dec in ('rw', 'laplacian'):
                for reg in (-1, 0, 1):
                    nm = rng.random() < 0.5 if quick else None
                    for normalized in ([nm] if quick else [True, False]):
                        add(fit_spectral(ctx, a, 2, dec, reg, normalized), 'spectral-exhaustive')
    if not quick:
        g5 = list(graphs.all_undirected(5))
        for es in rng.sample(g5, 300):
            if es:
                a = sym_weighted(rng, 5, es)
                add(fit_spectral(ctx, a, rng.choice([1, 2, 3]), rng.choice(['rw', 'laplacian']), rng.choice([-1, 0, 0.5]),
                                 rng.random() < 0.5), 'spectral-n5')
    # ---- Spectral: structured random graphs (weighted), directed ones take the bipartite route; other containers / dtypes
    for name, n, es, _ in graphs.suite(rng, 110 if quick else 1000, 3, 12):
        if not es:
            continue
        kind = name.rstrip('0123456789')
        a = weighted_graph(kind, n, es)
        nc = rng.choice([1, 2, 3, n + 3])
        dec = rng.choice(['rw', 'laplacian'])
        reg = rng.choice([-1, -0.5, 0, 0.25, 2])
        fb = rng.random() < 0.1
        add(fit_spectral(ctx, a, nc, dec, reg, rng.random() < 0.6, fb, variant=pick_variant(rng)), 'spectral-' + kind)
    # ---- Spectral: larger graphs (ARPACK works in a Krylov space smaller than n: ncv = 20 < n)
    for name, n, es, _ in graphs.suite(rng, 10 if quick else 60, 24, 40,
                                       kinds=['blocks', 'grid', 'cycle', 'random_undirected', 'two_components']):
        if not es:
            continue
        kind = name.rstrip('0123456789')
        a = weighted_graph(kind, n, es)
        add(fit_spectral(ctx, a, rng.choice([1, 2, 3]), rng.choice(['rw', 'laplacian']), rng.choice([-1, 0.5]),
                         rng.random() < 0.5), 'spectral-large-' + kind)
    # ---- Spectral: rectangular biadjacency matrices
    for _ in range(25 if quick else 250):
        b = random_rect(rng, rng.randint(2, 6), rng.randint(2, 6), rng.choice([0.3, 0.5, 0.8]))
        add(fit_spectral(ctx, b, rng.choice([1, 2, 3]), rng.choice(['rw', 'laplacian']), rng.choice([-1, 0, 0.5]),
                         rng.random() < 0.6, variant=pick_variant(rng)), 'spectral-rect')
    # ---- stored zeros (not edges): bridging two components, or on one side only; the automatic regularisation must see
    #      the graph of the non-zero entries
    bridge = sparse.csr_matrix((np.array([1., 1., 0., 0., 1., 1.]),
                                (np.array([0, 1, 1, 2, 2, 3]), np.array([1, 0, 2, 1, 3, 2]))), shape=(4, 4))
    zero_stream = [bridge]
    for name, n, es, _ in graphs.suite(rng, 12 if quick else 120, 4, 9, kinds=['two_components', 'isolated', 'path', 'blocks']):
        if es:
            zero_stream.append(with_stored_zeros(rng, sym_weighted(rng, n, es), symmetric=rng.random() < 0.7,
                                                 count=rng.choice([1, 2, 4])))
    for a in zero_stream:
        for reg in ((-1, 0, 0.5) if a is bridge else (rng.choice([-1, -0.5]), rng.choice([0, 0.5]))):
            add(fit_spectral(ctx, a, rng.choice([1, 2]), rng.choice(['rw', 'laplacian']), reg, rng.random() < 0.5),
                'spectral-stored-zeros')
            add(fit_rp(ctx, a, 2, 0.5, 2, rng.random() < 0.5, reg, rng.random() < 0.5, rng.randrange(1000)),
                'rp-stored-zeros')
    # ---- the operators on their own, with positive, zero and negative regularisation
    for name, n, es, _ in graphs.suite(rng, 25 if quick else 250, 2, 9):
        if not es:
            continue
        kind = name.rstrip('0123456789')
        add(fit_operators(ctx, weighted_graph(kind, n, es), rng.choice([-2, -0.5, -0.25, 0, 0.7, 3])), 'operators-' + kind)

    # ---- GSVD / SVD / PCA
    def svd_variants(a, tag, count, solvers=('dense', 'dense', 'dense', 'dense', 'lanczos', 'lanczos', 'string')):
        nr, ncol = a.shape
        rk = rank_of(a)
        for _ in range(count):
            kind = rng.choice(['GSVD', 'GSVD', 'SVD', 'PCA'])
            kmax = min(nr, ncol) - 1
            if rng.random() < 0.8 and rk >= 1 and kmax >= 1:
                nc = rng.randint(1, max(1, min(kmax, rk - (1 if kind == 'PCA' else 0)) or 1))
            else:
                nc = rng.choice([1, 2, 3, kmax + 2])
            reg = rng.choice([None, None, 0, 0.5, 2, -0.25])
            fr, fc = rng.choice([(0.5, 0.5), (0.5, 0.5), (1., 0.), (0., 1.), (0.25, 0.75), (1., 1.)])
            fs = rng.choice([0., 0., 0.5, 1., 0.3])
            normalized = rng.random() < 0.6
            solver = rng.choice(solvers)
            rows = []
            if rng.random() < 0.7:
                allrows = list(range(nr))
                empty = [i for i in allrows if a[i].nnz == 0]
                rows.append(rng.choice(empty) if (empty and rng.random() < 0.5) else rng.choice(allrows))
                if nr > 1 and rng.random() < 0.5:
                    rows.append(sorted(rng.sample(allrows, min(nr, 3))))
            add(fit_svd(ctx, kind, a, nc, reg, fr, fc, fs, normalized, solver, rows, variant=pick_variant(rng)),
                tag + '-' + kind)

    shapes = [(2, 2), (2, 3), (3, 2), (3, 3)]
    for nr, ncol in shapes:
        allb = [es for es in graphs.all_bipartite(nr, ncol) if es]
        if len(allb) > (40 if quick else 600):
            allb = rng.sample(allb, 40 if quick else 600)
        for es in allb:
            svd_variants(_mk(nr, es, m=ncol), 'svd-exhaustive', 1)
    for name, n, es, _ in graphs.suite(rng, 60 if quick else 600, 3, 12):
        if not es:
            continue
        kind = name.rstrip('0123456789')
        svd_variants(weighted_graph(kind, n, es), 'svd-' + kind, 2)
    for _ in range(40 if quick else 400):
        b = random_rect(rng, rng.randint(2, 8), rng.randint(2, 8), rng.choice([0.3, 0.6, 0.9]))
        svd_variants(b, 'svd-rect', 2)
    # larger matrices through ARPACK only (Krylov space smaller than the matrix)
    for _ in range(8 if quick else 50):
        b = random_rect(rng, rng.randint(24, 36), rng.randint(24, 36), rng.choice([0.15, 0.3]))
        svd_variants(b, 'svd-large', 1, solvers=('lanczos', 'string'))

    # ---- RandomProjection
    for name, n, es, _ in graphs.suite(rng, 40 if quick else 400, 2, 10):
        if not es:
            continue
        kind = name.rstrip('0123456789')
        a = weighted_graph(kind, n, es)
        add(fit_rp(ctx, a, rng.choice([1, 2, 3, n + 2]), rng.choice([0.5, 0.25, 1., 2.]), rng.choice([0, 1, 3, 4]),
                   rng.random() < 0.5, rng.choice([-1, 0, 0.5, 1.5]), rng.random() < 0.6, rng.randrange(1000),
                   rng.random() < 0.15, variant=pick_variant(rng)), 'rp-' + kind)
    for _ in range(10 if quick else 100):
        b = random_rect(rng, rng.randint(2, 5), rng.randint(2, 5), 0.5)
        add(fit_rp(ctx, b, 2, 0.5, rng.choice([1, 3]), rng.random() < 0.5, rng.choice([-1, 0, 0.5]), rng.random() < 0.5,
                   rng.randrange(1000)), 'rp-rect')

    # ---- LouvainEmbedding
    for name, n, es, _ in graphs.suite(rng, 30 if quick else 300, 3, 12, directed_ok=False):
        if not es:
            continue
        a = sym_weighted(rng, n, es)
        add(fit_louvain(ctx, a, rng.choice(['remove', 'merge', 'keep']), rng.random() < 0.25), 'louvain-sq')
    for _ in range(20 if quick else 200):
        b = random_rect(rng, rng.randint(2, 7), rng.randint(2, 7), rng.choice([0.3, 0.5]))
        if b.shape[0] != b.shape[1]:
            add(fit_louvain(ctx, b, rng.choice(['remove', 'merge', 'keep'])), 'louvain-rect')

    # ---- degenerate stream
    one = _mk(1, [(0, 0)])
    empty = sparse.csr_matrix((3, 3), dtype=float)
    path3 = _mk(3, [(0, 1), (1, 0), (1, 2), (2, 1)])
    iso = _mk(4, [(0, 1), (1, 0)])
    zero_explicit = sparse.csr_matrix((np.array([1., 1., 0.]), (np.array([0, 1, 2]), np.array([1, 0, 0]))), shape=(3, 3))
    tri_iso = sparse.csr_matrix(np.array([[0., 1, 1, 0], [1, 0, 2, 0], [1, 2, 0, 0], [0, 0, 0, 0]]))
    for a in (one, empty, path3, iso, zero_explicit):
        for nc in (0, -1, 1, 7):
            add(fit_spectral(ctx, a, nc, 'rw', -1, True), 'degenerate-spectral')
            add(fit_spectral(ctx, a, nc, 'laplacian', 0, False), 'degenerate-spectral')
            add(fit_svd(ctx, 'GSVD', a, nc, None, 0.5, 0.5, 0., True, 'dense', []), 'degenerate-svd')
            add(fit_svd(ctx, 'PCA', a, nc, None, 0., 0., 0., False, 'dense', []), 'degenerate-svd')
    add(fit_svd(ctx, 'GSVD', iso, 2, None, 0.5, 0.5, 0.5, True, 'dense', [0, [0, 1]]), 'degenerate-svd')
    add(fit_svd(ctx, 'GSVD', iso, 1, 0.5, 0.5, 0.5, 0., True, 'dense', [0, 3]), 'degenerate-svd')
    # predict on an isolated node of the fitted graph (empty row)
    add(fit_svd(ctx, 'GSVD', tri_iso, 2, 0.5, 0.5, 0.5, 0., False, 'dense', [3, [0, 3]]), 'degenerate-svd')
    add(fit_svd(ctx, 'GSVD', tri_iso, 2, None, 0.5, 0.5, 0., True, 'dense', [3]), 'degenerate-svd')
    add(fit_svd(ctx, 'PCA', tri_iso, 1, None, 0., 0., 0., False, 'dense', [3]), 'degenerate-svd')
    add(fit_svd(ctx, 'SVD', tri_iso, 2, 2, 0., 0., 0.5, True, 'string', [3, 1, 'wronglen']), 'degenerate-svd')
    add(fit_svd(ctx, 'PCA', tri_iso, 2, None, 0., 0., 0., True, 'dense', ['wronglen', 0]), 'degenerate-svd')
    add(fit_rp(ctx, iso, 2, 0.5, 3, True, 0, True, 1), 'degenerate-rp')
    add(fit_rp(ctx, empty, 2, 0.5, 3, False, -1, True, 1), 'degenerate-rp')
    add(fit_louvain(ctx, iso, 'remove'), 'degenerate-louvain')
    return fits


def refit_sequence(ctx, e, p, mats, variant_last=None):
    """One estimator object (constructor parameters `p`) fitted on `mats` one after the other; every fit is judged like a
    fit of a fresh estimator (the model and the specification are evaluated with the constructor's parameters)."""
    reuse = {}
    out = []
    for t, a in enumerate(mats):
        var = variant_last if t == len(mats) - 1 else None
        if e == 'Spectral':
            out.append(fit_spectral(ctx, a, p['n_components'], p['decomposition'], p['regularization'], p['normalized'],
                                    p.get('force_bipartite', False), variant=var, reuse=reuse))
        elif e in ('GSVD', 'SVD', 'PCA'):
            rows = p.get('predict_rows') or []
            rows = [r for r in rows if r == 'wronglen' or max(r if isinstance(r, list) else [r]) < a.shape[0]]
            out.append(fit_svd(ctx, e, a, p['n_components'], p['regularization'], p['factor_row'], p['factor_col'],
                               p['factor_singular'], p['normalized'], p.get('solver', 'dense'), rows, variant=var, reuse=reuse))
        elif e == 'RandomProjection':
            out.append(fit_rp(ctx, a, p['n_components'], p['alpha'], p['n_iter'], p['random_walk'], p['regularization'],
                              p['normalized'], p['random_state'], p.get('force_bipartite', False), variant=var, reuse=reuse))
        elif e == 'LouvainEmbedding':
            out.append(fit_louvain(ctx, a, p['isolated_nodes'], p.get('force_bipartite', False), reuse=reuse))
        else:
            raise ToolFailure('unknown estimator in a refit sequence: %r' % e)
    return out


def refit_fits(ctx):
    """The refit stream: the same estimator object on two or three graphs of different connectivity, size and shape
    (connected / disconnected / isolated nodes / rectangular), mostly with the automatic regularisation (-1)."""
    rng = ctx.rng
    quick = ctx.quick
    out = []

    def graph(kind):
        while True:
            if kind == 'rect':
                return random_rect(rng, rng.randint(2, 6), rng.randint(3, 7), 0.5)
            n = rng.randint(4, 10)
            es = graphs.structured(rng, kind, n)
            if es:
                return sym_weighted(rng, n, es)

    connected = ['path', 'cycle', 'star', 'clique', 'grid']
    disconnected = ['two_components', 'isolated']

    def sequence(allow_rect=True):
        kinds = [rng.choice(connected), rng.choice(disconnected)]
        if rng.random() < 0.5:
            kinds.reverse()
        if rng.random() < 0.5:
            kinds.append(rng.choice(connected + disconnected + (['rect'] if allow_rect else [])))
        elif allow_rect and rng.random() < 0.3:
            kinds.insert(rng.randrange(2), 'rect')
        return [graph(k) for k in kinds]

    for _ in range(14 if quick else 120):
        p = {'n_components': rng.choice([1, 2]), 'decomposition': rng.choice(['rw', 'laplacian']),
             'regularization': rng.choice([-1, -1, -0.5, 0.5]), 'normalized': rng.random() < 0.5}
        fs_ = refit_sequence(ctx, 'Spectral', p, sequence())
        out += fs_
        ctx.count('fit:refit-spectral', len([f for f in fs_ if f is not None]))
    for _ in range(14 if quick else 120):
        p = {'n_components': 2, 'alpha': rng.choice([0.5, 1.]), 'n_iter': rng.choice([1, 3]), 'random_walk': rng.random() < 0.5,
             'regularization': rng.choice([-1, -1, -0.5, 0.5]), 'normalized': rng.random() < 0.5,
             'random_state': rng.randrange(1000)}
        fs_ = refit_sequence(ctx, 'RandomProjection', p, sequence())
        out += fs_
        ctx.count('fit:refit-rp', len([f for f in fs_ if f is not None]))
    for _ in range(14 if quick else 120):
        kind = rng.choice(['GSVD', 'GSVD', 'SVD', 'PCA'])
        fr, fc = rng.choice([(0.5, 0.5), (1., 0.), (0.25, 0.75)])
        p = {'n_components': rng.choice([1, 2]), 'regularization': rng.choice([None, 0.5, 2]), 'factor_row': fr, 'factor_col': fc,
             'factor_singular': rng.choice([0., 0.5]), 'normalized': rng.random() < 0.5,
             'solver': rng.choice(['dense', 'lanczos', 'string']), 'predict_rows': [0, [0, 1]]}
        fs_ = refit_sequence(ctx, kind, p, sequence())
        out += fs_
        ctx.count('fit:refit-' + kind, len([f for f in fs_ if f is not None]))
    for _ in range(8 if quick else 60):
        p = {'isolated_nodes': rng.choice(['remove', 'merge', 'keep'])}
        fs_ = refit_sequence(ctx, 'LouvainEmbedding', p, sequence())
        out += fs_
        ctx.count('fit:refit-louvain', len([f for f in fs_ if f is not None]))
    return out


def corpus_fits(ctx):
    import json
    import os
    from vlib.core import VERIF
    p = os.path.join(VERIF, 'corpus', 'C09.jsonl')
    out = []
    if os.path.exists(p):
        for ln in open(p):
            ln = ln.strip()
            if ln and not ln.startswith('#'):
                out.extend(fits_of_desc(ctx, json.loads(ln)))
                ctx.count('corpus')
    return out


def fits_of_desc(ctx, d):
    a = mat_from_desc(d['matrix'])
    p = d.get('params', {})
    e = d['estimator']
    # `matrix` is the canonical form of what was handed in; the container / dtype variant is replayed on top of it
    # (a replayed `dup` splits again an entry of the already summed matrix: same denotation)
    var = d.get('variant')
    if d.get('history'):
        # a fit of an estimator that had been fitted before: the whole sequence is replayed on one object
        pp = dict(p)
        if d.get('predict') is not None and 'predict_rows' not in pp:
            pp['predict_rows'] = [d['predict']]
        return refit_sequence(ctx, e, pp, [mat_from_desc(h) for h in d['history']] + [a], variant_last=var)
    if e == 'operators':
        return [fit_operators(ctx, a, p['regularization'])]
    if e == 'Spectral':
        return [fit_spectral(ctx, a, p['n_components'], p['decomposition'], p['regularization'], p['normalized'],
                             p.get('force_bipartite', False), variant=var)]
    if e in ('GSVD', 'SVD', 'PCA'):
        rows = p.get('predict_rows') or ([d['predict'][0]] if d.get('predict') else [])
        rows = [tuple(r) if isinstance(r, list) else r for r in rows]
        rows = [list(r) if isinstance(r, tuple) else r for r in rows]
        return [fit_svd(ctx, e, a, p['n_components'], p['regularization'], p['factor_row'], p['factor_col'],
                        p['factor_singular'], p['normalized'], p.get('solver', 'dense'), rows, variant=var)]
    if e == 'RandomProjection':
        return [fit_rp(ctx, a, p['n_components'], p['alpha'], p['n_iter'], p['random_walk'], p['regularization'],
                       p['normalized'], p['random_state'], p.get('force_bipartite', False), variant=var)]
    if e == 'LouvainEmbedding':
        return [fit_louvain(ctx, a, p['isolated_nodes'], p.get('force_bipartite', False))]
    raise ToolFailure('unknown estimator in case description: %r' % e)


def run(ctx):
    patch()
    run_fits(ctx, corpus_fits(ctx) + build_fits(ctx) + refit_fits(ctx))
    ctx.extra['solver_exceptions_counted_only'] = getattr(ctx, '_c09_solver_lost', 0)
    if ctx.evaluations < EVALUATION_FLOOR[ctx.tier]:
        raise ToolFailure('only %d evaluations (floor %d): the run does not check the property'
                          % (ctx.evaluations, EVALUATION_FLOOR[ctx.tier]))
    ctx.extra['tolerances'] = {'TOL_RUN': TOL_RUN, 'TOL_SPEC': TOL_SPEC, 'TOL_CONTRACT': TOL_CONTRACT,
                               'COND_MIN': COND_MIN, 'TOL_PREDICT': TOL_PREDICT}


# ---- failing-input search ---------------------------------------------------------------------------------------
def search(ctx, pending):
    """Spec lines of the implementation over the exhaustive small space and the parameter grid."""
    rng = ctx.rng
    sub = Sub(ctx)
    sub.notes = []
    sub.extra = {}
    fits = []
    for n in (2, 3, 4):
        for es in graphs.all_undirected(n, loops=(n <= 3)):
            if not es:
                continue
            a = _mk(n, es)
            for dec in ('rw', 'laplacian'):
                for reg in (-1, 0, 1):
                    for normalized in (True, False):
                        fits.append(fit_spectral(sub, a, 2, dec, reg, normalized))
            for kind in ('GSVD', 'SVD', 'PCA'):
                for normalized in (True, False):
                    for reg in (None, 0.5):
                        nz = [i for i in range(n) if a[i].nnz > 0]
                        fits.append(fit_svd(sub, kind, a, 1, reg, 0.5, 0.5, rng.choice([0., 0.5]), normalized, 'dense', nz[:1]))
            for rw in (False, True):
                fits.append(fit_rp(sub, a, 2, 0.5, 3, rw, -1, True, 1))
            fits.append(fit_louvain(sub, a, 'remove'))
    for nr, ncol in [(2, 3), (3, 2)]:
        for es in graphs.all_bipartite(nr, ncol):
            if es:
                b = _mk(nr, es, m=ncol)
                fits.append(fit_svd(sub, 'GSVD', b, 1, None, 0.5, 0.5, 0., True, 'dense', []))
                fits.append(fit_spectral(sub, b, 1, 'rw', -1, True))
    run_fits(sub, fits)
    return sub.found()


def replay(ctx, payload):
    patch()
    case = payload.get('case') or (payload.get('what_no_longer_checks') or {}).get('case') or {}
    if 'estimator' in case:
        run_fits(ctx, fits_of_desc(ctx, case))
    else:
        # nothing recorded to re-run: the generators, with the seed of the recorded run
        import random
        ctx.seed = payload.get('seed', ctx.seed)
        ctx.rng = random.Random(ctx.seed * 1000003 + 9)
        run_fits(ctx, build_fits(ctx) + refit_fits(ctx))
