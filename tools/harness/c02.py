"""C02 — renumbering the nodes only renumbers the results.

 (1) Weisfeiler-Lehman: `run` lines execute the Lean model of the kernel (SkNet/Model/WL.lean) with the very
     `powers` array numpy computed (IEEE bit patterns), summed in CSR order -> colours compared exactly;
     `spec` lines evaluate the colour-refinement specification (SkNet/Spec/WL.lean, no hashes, no sorting) on
     the implementation's colours: they must group the nodes exactly as the stable refinement does.
 (2) the statement itself on the implementation: f(P A P^T) = P f(A) for every order-independent algorithm of
     the property (scores, distances, DAGs, cores, WL colours, diffusion values, probability rows permuted;
     counts, spectra, singular values, modularity, Dasgupta cost, TSD unchanged), are_isomorphic(G, P G) = True.
"""
import itertools
import struct
import warnings

import numpy as np
from scipy import sparse

from vlib import graphs
from vlib.cases import Case, Sub, call, evaluate
from vlib.core import enc_list

RULE = ('WL: all directed graphs n<=3, all undirected graphs n<=5 (quick: n<=4 + sample of n=5; thorough: + n=6 sample), '
        'structured random graphs n<=12, x max_iter in {-1,1,2}; relation: the same graphs x all n! permutations for n<=4 '
        '(quick: 3 random permutations) and random permutations beyond x 30 algorithm variants; a case is non-trivial when '
        'the graph has an edge and the permutation is not the identity; distinct = distinct (entry, graph, permutation)')
ASSUMPTIONS = ['the float hash of WL (sum of (-pi/3.15)^colour, epsilon 1e-10) is collision-free on the generated graphs: '
               'checked by the spec line (partition = exact refinement), not proved',
               'float64 outputs compared within 1e-9, float32 solvers within 2e-5; eigen/singular values within 1e-7',
               'deterministic configurations only (no shuffling, fixed budgets); Propagation (index order dependent) is excluded']


def _bits(x):
    return struct.unpack('<Q', struct.pack('<d', float(x)))[0]


def _g(a):
    return '%d %s %s' % (a.shape[0], enc_list(a.indptr), enc_list(a.indices))


def twin_graphs(ctx, count):
    """two disjoint copies of a dense irregular graph, renumbered: refinement-equivalent nodes with different
    neighbour sets of mixed colours and high degree — where the float hash sums in different orders"""
    rng = ctx.rng
    out = []
    for _ in range(count):
        m = rng.randint(14, 26)
        es = graphs.random_edges(rng, m, rng.choice([0.5, 0.65]), directed=False)
        es2 = es + [(i + m, j + m) for (i, j) in es]
        a = graphs.csr_from_edges(2 * m, es2)
        perm = list(range(2 * m))
        rng.shuffle(perm)
        out.append(graphs.permute_csr(a, perm))
    return out


def wl_twin_cases(ctx, mats):
    from sknetwork.topology import color_weisfeiler_lehman, are_isomorphic
    cases = []
    rng = ctx.rng
    for a in mats:
        n = a.shape[0]
        pw = (-np.pi / 3.15) ** np.arange(n, dtype=np.double)
        pwt = enc_list([_bits(x) for x in pw])
        gdesc = {'n': n, 'indptr': a.indptr.tolist(), 'indices': a.indices.tolist()}
        impl = call(lambda: 'ok ' + enc_list(color_weisfeiler_lehman(a)))
        run = 'c02.wl %s %s -1' % (_g(a), pwt)
        spec = 'c02.spec_stable %s %s' % (_g(a), impl[3:]) if impl.startswith('ok') else None
        cases.append(Case(('wl-twin', _g(a)), {'entry': 'color_weisfeiler_lehman', 'max_iter': -1, 'family': 'twins'}, run, impl, spec, True,
                          {'f': 'color_weisfeiler_lehman', 'graph': gdesc, 'max_iter': -1}))
        # the statement on the implementation: a renumbered copy gets the renumbered colours and passes the test
        perm = list(range(n))
        rng.shuffle(perm)
        b = graphs.permute_csr(a, perm)
        try:
            ok1 = np.array_equal(np.asarray(color_weisfeiler_lehman(b)), _perm_vec(np.asarray(color_weisfeiler_lehman(a)), perm))
            iso = are_isomorphic(a, b)
            why = None if (ok1 and iso is True or (ok1 and bool(iso))) else ('colours of the renumbered graph are not the renumbered colours' if not ok1 else 'are_isomorphic(G, PG) = %r' % iso)
        except Exception as e:  # noqa
            why = 'raises ' + type(e).__name__ + ': ' + str(e)[:80]
        ctx.case(('wl-twin-relabel', _g(a), tuple(perm)), True, None)
        ctx.count('relation:WL-twins')
        if why:
            ctx.spec_fail({'entry': 'color_weisfeiler_lehman', 'relation': 'relabel', 'family': 'twins'},
                          {'f': 'color_weisfeiler_lehman', 'graph': gdesc, 'perm': perm}, {'why': why})
    return cases


def wl_cases(ctx, mats):
    from sknetwork.topology import color_weisfeiler_lehman
    cases = []
    for a in mats:
        n = a.shape[0]
        if n == 0:
            continue
        pw = (-np.pi / 3.15) ** np.arange(n, dtype=np.double)
        pwt = enc_list([_bits(x) for x in pw])
        gdesc = {'n': n, 'indptr': a.indptr.tolist(), 'indices': a.indices.tolist()}
        for mi in (-1, 1, 2):
            impl = call(lambda: 'ok ' + enc_list(color_weisfeiler_lehman(a, max_iter=mi)))
            run = 'c02.wl %s %s %d' % (_g(a), pwt, mi)
            spec = None
            if impl.startswith('ok'):
                k = n if mi < 0 else min(mi, n)
                spec = 'c02.spec_groups %s %d %s %s' % (_g(a), k, impl[3:], '1' if mi < 0 else '0')
            cases.append(Case(('wl', _g(a), mi), {'entry': 'color_weisfeiler_lehman', 'max_iter': mi}, run, impl, spec,
                              a.nnz > 0, {'f': 'color_weisfeiler_lehman', 'graph': gdesc, 'max_iter': mi}))
    return cases


# ------------------------------------------------------------------------------------------------
# the relation on the implementation
# ------------------------------------------------------------------------------------------------
def _perm_vec(y, perm):
    """what the output for P A P^T must be if y is the output for A (new node perm[i] = old node i)"""
    y = np.asarray(y)
    out = np.empty_like(y)
    out[np.asarray(perm)] = y
    return out


def _algos():
    """name -> (kind, function(adjacency, aux) -> output, tolerance, needs)  kind: 'vec' | 'inv' | 'mat' | 'rows'"""
    from sknetwork.ranking import PageRank, Katz, Closeness, Betweenness, HITS
    from sknetwork.path import get_distances, get_shortest_path
    from sknetwork.topology import (get_core_decomposition, count_triangles, count_cliques, color_weisfeiler_lehman,
                                    get_clustering_coefficient)
    from sknetwork.regression import Diffusion, Dirichlet
    from sknetwork.classification import DiffusionClassifier, PageRankClassifier, NNClassifier
    from sknetwork.clustering import get_modularity
    from sknetwork.embedding import Spectral, SVD
    A = {}
    for solver, tol in (('piteration', 1e-9), ('RH', 1e-9), ('diteration', 2e-5), ('lanczos', 5e-6), ('bicgstab', 5e-6)):
        A['PageRank(%s)' % solver] = ('vec', (lambda a, x, s=solver: PageRank(solver=s, n_iter=60, tol=1e-12).fit_predict(a)), tol, 'any')
        A['PageRank(%s,seeds)' % solver] = ('vec', (lambda a, x, s=solver: PageRank(solver=s, n_iter=60, tol=1e-12).fit_predict(a, weights=x['weights'])), tol, 'any')
    A['Katz'] = ('vec', lambda a, x: Katz().fit_predict(a), 1e-9, 'any')
    A['HITS(hubs)'] = ('vec', lambda a, x: HITS().fit(a).scores_row_, 1e-6, 'simple-top-singular')
    A['Closeness'] = ('vec', lambda a, x: Closeness().fit_predict(a), 1e-9, 'connected')
    A['Betweenness'] = ('vec', lambda a, x: Betweenness().fit_predict(a), 2e-5, 'undirected')   # float32 kernel
    A['get_distances'] = ('vec', lambda a, x: get_distances(a, source=x['sources']), 0, 'any')
    A['get_shortest_path'] = ('mat', lambda a, x: get_shortest_path(a, source=x['sources']), 0, 'any')
    A['core'] = ('vec', lambda a, x: get_core_decomposition(a), 0, 'undirected')
    A['WL'] = ('vec', lambda a, x: color_weisfeiler_lehman(a), 0, 'any')
    A['Diffusion'] = ('vec', lambda a, x: Diffusion(n_iter=5).fit_predict(a, values=x['values']), 1e-9, 'any')
    A['Dirichlet'] = ('vec', lambda a, x: Dirichlet(n_iter=8).fit_predict(a, values=x['values']), 1e-9, 'any')
    A['DiffusionClassifier(probs)'] = ('rows', lambda a, x: DiffusionClassifier().fit(a, labels=x['labels']).probs_.toarray(), 1e-9, 'any')
    def _dc_labels(a, x):
        # arg-max labels, except where the two best probabilities are within 1e-6 (a tie decided by rounding)
        clf = DiffusionClassifier().fit(a, labels=x['labels'])
        p = np.sort(clf.probs_.toarray(), axis=1)
        margin = p[:, -1] - (p[:, -2] if p.shape[1] > 1 else 0)
        return np.where(margin > 1e-6, clf.labels_, -2)
    A['DiffusionClassifier(labels)'] = ('vec', _dc_labels, 0, 'any')
    A['PageRankClassifier(probs)'] = ('rows', lambda a, x: PageRankClassifier().fit(a, labels=x['labels']).probs_.toarray(), 1e-7, 'any')
    A['triangles'] = ('inv', lambda a, x: count_triangles(a), 0, 'undirected')
    A['cliques3'] = ('inv', lambda a, x: count_cliques(a, 3), 0, 'undirected')
    A['cliques4'] = ('inv', lambda a, x: count_cliques(a, 4), 0, 'undirected')
    A['cliques5'] = ('inv', lambda a, x: count_cliques(a, 5), 0, 'undirected')
    A['clustering_coefficient'] = ('inv', lambda a, x: get_clustering_coefficient(a), 1e-12, 'undirected')
    A['modularity'] = ('inv', lambda a, x: get_modularity(a, x['partition']), 1e-12, 'any')
    A['modularity(res=2,uniform)'] = ('inv', lambda a, x: get_modularity(a, x['partition'], weights='uniform', resolution=2), 1e-12, 'any')
    A['spectrum'] = ('inv', lambda a, x: np.sort(Spectral(n_components=min(2, a.shape[0] - 2)).fit(a).eigenvalues_), 1e-7, 'spectral')
    A['singular_values'] = ('inv', lambda a, x: np.sort(SVD(n_components=min(2, a.shape[0] - 2)).fit(a).singular_values_), 1e-7, 'spectral')
    return A


def _hier_algos():
    from sknetwork.hierarchy import dasgupta_cost, tree_sampling_divergence, Paris
    return {
        'dasgupta_cost': lambda a, d: dasgupta_cost(a, d),
        'dasgupta_cost(weights=uniform)': lambda a, d: dasgupta_cost(a, d, weights='uniform'),
        'tree_sampling_divergence': lambda a, d: tree_sampling_divergence(a, d),
    }


def _relabel_dendrogram(d, perm):
    """leaf i of the dendrogram becomes leaf perm[i]; internal ids unchanged"""
    d = np.array(d, dtype=float)
    n = d.shape[0] + 1
    for t in range(d.shape[0]):
        for c in (0, 1):
            v = int(d[t, c])
            if v < n:
                d[t, c] = perm[v]
    return d


def _aux(rng, n):
    k = rng.randint(1, min(3, n))
    srcs = sorted(rng.sample(range(n), k))
    w = np.array([rng.choice([0.0, 1.0, 2.0]) for _ in range(n)])
    if w.sum() == 0:
        w[rng.randrange(n)] = 1.0
    vals = {int(i): float(rng.choice([0, 1, 3])) for i in rng.sample(range(n), min(n, 2))}
    labs = {}
    pick = rng.sample(range(n), min(n, 3))
    for t, i in enumerate(pick):
        labs[int(i)] = t % 2
    part = np.array([rng.randrange(3) for _ in range(n)])
    return {'sources': srcs, 'weights': w, 'values': vals, 'labels': labs, 'partition': part}


def _perm_aux(aux, perm):
    p = list(perm)
    return {'sources': sorted(p[s] for s in aux['sources']),
            'weights': _perm_vec(aux['weights'], p),
            'values': {int(p[k]): v for k, v in aux['values'].items()},
            'labels': {int(p[k]): v for k, v in aux['labels'].items()},
            'partition': _perm_vec(aux['partition'], p)}


def _suitable(needs, a, undirected, connected):
    n = a.shape[0]
    if needs == 'undirected':
        return undirected
    if needs == 'connected':
        return undirected and connected
    if needs == 'spectral':
        return undirected and connected and n >= 4
    if needs == 'simple-top-singular':
        # the leading singular vectors are defined only when the top singular value is simple
        if n < 3 or not (undirected and connected):
            return False      # on several components the leading pair lives on one of them and ARPACK's choice is numerical
        sv = np.linalg.svd(a.toarray(), compute_uv=False)
        return sv[0] > 0 and (sv[0] - sv[1]) > 1e-2 * sv[0]
    return True


def relation_cases(ctx, items, perms_per, sub=None):
    tgt = sub or ctx
    rng = ctx.rng
    algos = _algos()
    hier = _hier_algos()
    from sknetwork.topology import are_isomorphic, is_connected
    from sknetwork.hierarchy import Paris
    for a in items:
        n = a.shape[0]
        if n < 2 or a.nnz == 0:
            continue
        undirected = (abs(a - a.T).nnz == 0)
        try:
            connected = bool(is_connected(a))
        except Exception:  # noqa
            connected = False
        allp = list(itertools.permutations(range(n))) if n <= 4 else None
        if allp is not None and perms_per >= len(allp):
            perms = allp
        else:
            perms = []
            for _ in range(perms_per):
                p = list(range(n))
                rng.shuffle(p)
                perms.append(tuple(p))
        aux = _aux(rng, n)
        base = {}
        with warnings.catch_warnings():
            warnings.simplefilter('ignore')
            for name, (kind, f, tol, needs) in algos.items():
                if _suitable(needs, a, undirected, connected):
                    try:
                        base[name] = f(a, aux)
                    except Exception as e:  # noqa
                        base[name] = ('EXC', type(e).__name__)
            dend = None
            if undirected:
                try:
                    dend = Paris().fit_predict(a)
                    for name, f in hier.items():
                        base[name] = f(a, dend)
                except Exception as e:  # noqa
                    dend = None
        gdesc = {'n': n, 'dense': a.toarray().tolist()}
        for perm in perms:
            if list(perm) == list(range(n)):
                continue
            b = graphs.permute_csr(a, perm)
            aux_p = _perm_aux(aux, perm)
            with warnings.catch_warnings():
                warnings.simplefilter('ignore')
                for name, (kind, f, tol, needs) in algos.items():
                    if name not in base:
                        continue
                    sig = {'entry': name, 'relation': 'relabel'}
                    desc = {'entry': name, 'graph': gdesc, 'perm': list(perm), 'aux': {k: (v.tolist() if hasattr(v, 'tolist') else v) for k, v in aux.items()}}
                    key = (name, n, tuple(a.toarray().ravel().tolist()), perm)
                    try:
                        out = f(b, aux_p)
                    except Exception as e:  # noqa
                        out = ('EXC', type(e).__name__)
                    y = base[name]
                    tgt.count('relation:' + name)
                    if isinstance(y, tuple) or isinstance(out, tuple):
                        ok = isinstance(y, tuple) and isinstance(out, tuple) and y == out
                        tgt.case(key, False, None)
                        if not ok:
                            tgt.spec_fail(sig, desc, {'why': 'one numbering raises, the other does not', 'base': repr(y)[:80], 'relabelled': repr(out)[:80]})
                        continue
                    if kind == 'vec':
                        want = _perm_vec(y, perm)
                        ok = np.allclose(np.asarray(out, dtype=float), np.asarray(want, dtype=float), atol=tol, rtol=tol, equal_nan=True)
                    elif kind == 'rows':
                        want = _perm_vec(np.asarray(y), perm)
                        ok = np.asarray(out).shape == want.shape and np.allclose(out, want, atol=tol)
                    elif kind == 'mat':
                        want = graphs.permute_csr(sparse.csr_matrix(y).astype(float), perm)
                        ok = abs(sparse.csr_matrix(out).astype(float) - want).nnz == 0
                    else:
                        ok = np.allclose(np.asarray(out, dtype=float), np.asarray(y, dtype=float), atol=tol, rtol=tol, equal_nan=True)
                    tgt.case(key, True, {'entry': name, 'graph': gdesc['dense'], 'perm': list(perm), 'holds': bool(ok)})
                    if not ok:
                        tgt.spec_fail(sig, desc, {'why': 'output for the renumbered graph is not the renumbered output',
                                                  'base': np.asarray(y, dtype=float).tolist() if kind != 'mat' else None,
                                                  'relabelled': np.asarray(out, dtype=float).tolist() if kind != 'mat' else None})
                if dend is not None:
                    dp = _relabel_dendrogram(dend, perm)
                    for name, f in hier.items():
                        key = (name, n, tuple(a.toarray().ravel().tolist()), perm)
                        try:
                            out = f(b, dp)
                            ok = np.allclose(out, base[name], atol=1e-9)
                        except Exception as e:  # noqa
                            out, ok = repr(e), False
                        tgt.case(key, True, None)
                        tgt.count('relation:' + name)
                        if not ok:
                            tgt.spec_fail({'entry': name, 'relation': 'relabel'},
                                          {'entry': name, 'graph': gdesc, 'perm': list(perm), 'dendrogram': np.asarray(dend).tolist()},
                                          {'why': 'metric changed under renumbering', 'base': float(base[name]), 'relabelled': repr(out)[:60]})
                # the WL test never separates a graph from its renumbered copy
                key = ('iso', n, tuple(a.toarray().ravel().tolist()), perm)
                try:
                    iso = bool(are_isomorphic(a, b))
                except Exception as e:  # noqa
                    iso = repr(e)
                tgt.case(key, True, None)
                tgt.count('relation:are_isomorphic')
                if iso is not True:
                    tgt.spec_fail({'entry': 'are_isomorphic', 'relation': 'relabel'}, {'entry': 'are_isomorphic', 'graph': gdesc, 'perm': list(perm)},
                                  {'why': 'are_isomorphic(G, relabelled G) is not True', 'got': iso})


def _wl_mats(ctx, quick):
    rng = ctx.rng
    mats = []
    for n in (1, 2, 3):
        for es in graphs.all_digraphs(n):
            mats.append(graphs.csr_from_edges(n, es))
    for n in ((4,) if quick else (4, 5)):
        for es in graphs.all_undirected(n):
            mats.append(graphs.csr_from_edges(n, es))
    g5 = list(graphs.all_undirected(5)) if quick else list(graphs.all_undirected(6))
    for es in rng.sample(g5, 120 if quick else 1500):
        mats.append(graphs.csr_from_edges(5 if quick else 6, es))
    for name, n, es, w in graphs.suite(rng, 30 if quick else 300, 4, 12):
        a = graphs.csr_from_edges(n, es)
        if rng.random() < 0.5:
            a = graphs.unsorted_copy(a, rng)
        mats.append(a)
    return mats


def _rel_mats(ctx, quick):
    rng = ctx.rng
    mats = []
    und4 = [es for es in graphs.all_undirected(4) if es]
    for es in (rng.sample(und4, 10) if quick else und4):
        mats.append(graphs.csr_from_edges(4, es))
    dig3 = [es for es in graphs.all_digraphs(3) if es]
    for es in (rng.sample(dig3, 6) if quick else dig3):
        mats.append(graphs.csr_from_edges(3, es))
    for name, n, es, w in graphs.suite(rng, 14 if quick else 150, 4, 10, weights=[1, 1, 2, 3]):
        mats.append(graphs.csr_from_edges(n, es, w))
    # dense irregular graphs: deep clique recursion levels, many triangles, rich core structure
    for _ in range(6 if quick else 60):
        n = rng.randint(8, 14)
        es = graphs.random_edges(rng, n, rng.choice([0.5, 0.6, 0.7]), directed=False)
        mats.append(graphs.csr_from_edges(n, es))
    return mats


def run(ctx):
    quick = ctx.quick
    evaluate(ctx, wl_cases(ctx, _wl_mats(ctx, quick)))
    evaluate(ctx, wl_twin_cases(ctx, twin_graphs(ctx, 6 if quick else 60)))
    relation_cases(ctx, _rel_mats(ctx, quick), perms_per=2 if quick else 24)


def search(ctx, pending):
    sub = Sub(ctx)
    evaluate(sub, wl_cases(ctx, _wl_mats(ctx, True)))
    relation_cases(ctx, _rel_mats(ctx, True), perms_per=3, sub=sub)
    return sub.found()


def replay(ctx, payload):
    case = payload.get('case') or {}
    if case.get('f') == 'color_weisfeiler_lehman':
        g = case['graph']
        a = sparse.csr_matrix((np.ones(len(g['indices'])), np.array(g['indices']), np.array(g['indptr'])), shape=(g['n'], g['n']))
        if g['n'] > 14:
            evaluate(ctx, wl_twin_cases(ctx, [a]))
        else:
            evaluate(ctx, wl_cases(ctx, [a]))
    elif 'graph' in case and 'dense' in case['graph']:
        a = sparse.csr_matrix(np.array(case['graph']['dense'], dtype=float))
        relation_cases(ctx, [a], perms_per=24)
    else:
        run(ctx)
