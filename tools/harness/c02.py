"""C02 — renumbering the nodes only renumbers the results.

 (1) Weisfeiler-Lehman: `run` lines execute the Lean model of the kernel (SkNet/Model/WL.lean) with the very
     `powers` array numpy computed (IEEE bit patterns), summed in CSR order -> colours compared exactly;
     `spec` lines evaluate the colour-refinement specification (SkNet/Spec/WL.lean, no hashes, no sorting) on
     the implementation's colours: they must group the nodes exactly as the stable refinement does.
 (2) the statement itself on the implementation: f(P A P^T) = P f(A) for every order-independent algorithm of
     the property (scores, distances, DAGs, cores, WL colours, diffusion values, probability rows permuted;
     counts, spectra, singular values, modularity, Dasgupta cost, TSD unchanged), are_isomorphic(G, P G) = True.
"""
import itertools
import struct
import warnings

import numpy as np
from scipy import sparse

from vlib import graphs
from vlib.cases import Case, Sub, call, evaluate
from vlib.core import enc_list

RULE = ('WL run + spec lines: all directed graphs n<=3, all undirected graphs n=4 (thorough: + n=5), a sample of n=5 (thorough: '
        'n=6), structured random graphs n<=12 (half with unsorted indices), matrices with duplicate column indices and stored '
        'zeros, the empty matrix, x max_iter in {-1,0,1,2,n+3}; "twin" graphs (two disjoint renumbered copies of a dense '
        '14-26 node graph); the hash-collision family (the 63-node witness of corpus/C02.jsonl, renumbered copies, copies '
        'with an extra disjoint cycle); are_isomorphic run lines: (G, pi G) and non-isomorphic pairs with equal n and nnz x '
        'max_iter. Relation f(P A P^T) = P f(A) on the implementation: sampled small graphs (quick: 10 undirected n=4, 6 '
        'digraphs n=3; thorough: all of them), structured weighted graphs n<=10, dense irregular graphs n<=14, x the '
        'algorithm table (evidence: relation:<entry> counts) x all n! permutations for n<=4 in the thorough tier, 2 random '
        'permutations in the quick tier; a bipartite stream: random rectangular B with independent row and column '
        'permutations. A relation case is non-trivial when the graph has an edge, the permutation is not the identity and '
        'neither numbering raises; distinct = distinct (entry, graph, permutation)')
ASSUMPTIONS = ['the float hash of WL (sum of (-pi/3.15)^colour, epsilon 1e-10) is NOT collision-free (theorem '
               'wl_float_hash_collision, known finding F-C02-wl-hash-collision); outside the collision family the spec line '
               '(partition = exact refinement) is checked on every generated graph',
               'float64 outputs compared within 1e-9, float32 solvers within 2e-5; eigen/singular values within 1e-7',
               'deterministic configurations only (no shuffling, fixed budgets); Propagation (index order dependent) is excluded',
               'PageRank(solver=push) is in the table and fails the relation (worklist order; known finding F-C02-push-order); the '
               'iterative solvers bicgstab / lanczos are compared like the others (5e-6): get_pagerank now tests the true residual',
               'core numbers, triangles, clique counts, the clustering coefficient, Betweenness, Closeness are run on directed graphs '
               'too (count_cliques symmetrises since /repo c45a6484: before, its value on a digraph depended on the numbering); '
               'Dasgupta cost / TSD on the undirected graphs Paris accepts',
               'a numbering on which both calls raise the same exception class is counted (relation-exc:<entry>) and is not an '
               'evaluation of the relation; an entry without any non-trivial evaluation in a run is a tool failure']


def _bits(x):
    return struct.unpack('<Q', struct.pack('<d', float(x)))[0]


def _g(a):
    return '%d %s %s' % (a.shape[0], enc_list(a.indptr), enc_list(a.indices))


def twin_graphs(ctx, count):
    """two disjoint copies of a dense irregular graph, renumbered: refinement-equivalent nodes with different
    neighbour sets of mixed colours and high degree — where the float hash sums in different orders"""
    rng = ctx.rng
    out = []
    for _ in range(count):
        m = rng.randint(14, 26)
        es = graphs.random_edges(rng, m, rng.choice([0.5, 0.65]), directed=False)
        es2 = es + [(i + m, j + m) for (i, j) in es]
        a = graphs.csr_from_edges(2 * m, es2)
        perm = list(range(2 * m))
        rng.shuffle(perm)
        out.append(graphs.permute_csr(a, perm))
    return out


def wl_twin_cases(ctx, mats, perm_fixed=None):
    from sknetwork.topology import color_weisfeiler_lehman, are_isomorphic
    cases = []
    rng = ctx.rng
    for a in mats:
        n = a.shape[0]
        pw = (-np.pi / 3.15) ** np.arange(n, dtype=np.double)
        pwt = enc_list([_bits(x) for x in pw])
        gdesc = {'n': n, 'indptr': a.indptr.tolist(), 'indices': a.indices.tolist()}
        impl = call(lambda: 'ok ' + enc_list(color_weisfeiler_lehman(a)))
        run = 'c02.wl %s %s -1' % (_g(a), pwt)
        spec = 'c02.spec_stable %s %s' % (_g(a), impl[3:]) if impl.startswith('ok') else None
        cases.append(Case(('wl-twin', _g(a)), {'entry': 'color_weisfeiler_lehman', 'max_iter': -1, 'family': 'twins'}, run, impl, spec, True,
                          {'f': 'color_weisfeiler_lehman', 'graph': gdesc, 'max_iter': -1}))
        # the statement on the implementation: a renumbered copy gets the renumbered colours and passes the test
        perm = list(perm_fixed) if perm_fixed is not None else list(range(n))
        if perm_fixed is None:
            rng.shuffle(perm)
        b = graphs.permute_csr(a, perm)
        try:
            ok1 = np.array_equal(np.asarray(color_weisfeiler_lehman(b)), _perm_vec(np.asarray(color_weisfeiler_lehman(a)), perm))
            iso = are_isomorphic(a, b)
            why = None if (ok1 and iso is True or (ok1 and bool(iso))) else ('colours of the renumbered graph are not the renumbered colours' if not ok1 else 'are_isomorphic(G, PG) = %r' % iso)
        except Exception as e:  # noqa
            why = 'raises ' + type(e).__name__ + ': ' + str(e)[:80]
        ctx.case(('wl-twin-relabel', _g(a), tuple(perm)), True, None)
        ctx.count('relation:WL-twins')
        if why:
            ctx.spec_fail({'entry': 'color_weisfeiler_lehman', 'relation': 'relabel', 'family': 'twins'},
                          {'f': 'color_weisfeiler_lehman', 'graph': gdesc, 'perm': perm}, {'why': why})
    return cases


def wl_cases(ctx, mats, family=None, max_iters=None):
    from sknetwork.topology import color_weisfeiler_lehman
    cases = []
    for a in mats:
        n = a.shape[0]
        pw = (-np.pi / 3.15) ** np.arange(n, dtype=np.double)
        pwt = enc_list([_bits(x) for x in pw])
        gdesc = {'n': n, 'indptr': a.indptr.tolist(), 'indices': a.indices.tolist()}
        for mi in (max_iters or (-1, 0, 1, 2, n + 3)):
            impl = call(lambda: 'ok ' + enc_list(color_weisfeiler_lehman(a, max_iter=mi)))
            run = 'c02.wl %s %s %d' % (_g(a), pwt, mi)
            spec = None
            if impl.startswith('ok'):
                k = n if (mi < 0 or mi > n) else mi
                if n > 14:
                    spec = 'c02.spec_stable %s %s' % (_g(a), impl[3:]) if k == n else None
                else:
                    spec = 'c02.spec_groups %s %d %s %s' % (_g(a), k, impl[3:], '1' if k == n else '0')
            sig = {'entry': 'color_weisfeiler_lehman', 'max_iter': mi}
            if family:
                sig['family'] = family
            cases.append(Case(('wl', _g(a), mi), sig, run, impl, spec, a.nnz > 0,
                              {'f': 'color_weisfeiler_lehman', 'graph': gdesc, 'max_iter': mi, 'family': family}))
    return cases


def _csr_of(g):
    return sparse.csr_matrix((np.ones(len(g['indices'])), np.array(g['indices'], dtype=np.int32),
                              np.array(g['indptr'], dtype=np.int32)), shape=(g['n'], g['n']))


def corpus_entries():
    import json
    import os
    path = os.path.join(os.path.dirname(os.path.dirname(os.path.dirname(os.path.abspath(__file__)))), 'corpus', 'C02.jsonl')
    out = []
    if os.path.exists(path):
        for ln in open(path):
            ln = ln.strip()
            if ln and not ln.startswith('#'):
                out.append(json.loads(ln))
    return out


def collision_graphs(ctx, count):
    """The hash-collision family: the recorded witness (two neighbour-colour multisets whose float hashes differ by
    2.7e-13 < epsilon), renumbered copies (summation order), copies with an extra disjoint component (other n; when the
    component shifts the degree ranks the copy need not collide: each copy is judged on its own)."""
    from vlib.core import ToolFailure
    rng = ctx.rng
    out = []
    witnesses = [e for e in corpus_entries() if e.get('family') == 'hash-collision']
    if not witnesses:
        raise ToolFailure('corpus/C02.jsonl has no hash-collision witness: the known finding would be replayed on nothing')
    for e in witnesses:
        a = _csr_of(e['graph'])
        out.append(a)
        n = a.shape[0]
        for _ in range(count):
            b = a
            if rng.random() < 0.5:
                m = rng.randint(3, 6)
                es = [(n + i, n + (i + 1) % m) for i in range(m)]
                es += [(j, i) for i, j in es]
                coo = a.tocoo()
                rows = list(coo.row) + [x for x, _ in es]
                cols = list(coo.col) + [y for _, y in es]
                b = sparse.csr_matrix((np.ones(len(rows)), (rows, cols)), shape=(n + m, n + m))
            perm = list(range(b.shape[0]))
            rng.shuffle(perm)
            out.append(graphs.permute_csr(b, perm))
    return out


def _exact_classes(a):
    """colour refinement in Python (independent of the kernel and of the Lean model): class ids of the stable partition"""
    n = a.shape[0]
    col = [0] * n
    while True:
        keys = [(col[i], tuple(sorted(col[j] for j in a.indices[a.indptr[i]:a.indptr[i + 1]]))) for i in range(n)]
        ks = {k: t for t, k in enumerate(sorted(set(keys)))}
        new = [ks[k] for k in keys]
        if new == col:
            return col
        col = new


def _blocks(labels):
    d = {}
    for i, c in enumerate(labels):
        d.setdefault(int(c), []).append(i)
    return sorted(tuple(v) for v in d.values())


def collision_cases(ctx, mats):
    """On the collision family: (1) the model / code tie must hold like anywhere else (plain signature); (2) the colours must
    group the nodes as refinement does — where they do not, the failure carries the known signature only if it is exactly
    the recorded one (the partition of the code is the exact one with a single pair of classes merged); (3) the renumbering
    clauses (colours of P G, are_isomorphic(G, P G)) must hold on the family too."""
    from sknetwork.topology import color_weisfeiler_lehman, are_isomorphic
    rng = ctx.rng
    cases = []
    for a in mats:
        n = a.shape[0]
        pw = (-np.pi / 3.15) ** np.arange(n, dtype=np.double)
        pwt = enc_list([_bits(x) for x in pw])
        gdesc = {'n': n, 'indptr': a.indptr.tolist(), 'indices': a.indices.tolist()}
        impl = call(lambda: 'ok ' + enc_list(color_weisfeiler_lehman(a)))
        cases.append(Case(('wl-coll-run', _g(a)), {'entry': 'color_weisfeiler_lehman', 'max_iter': -1}, 'c02.wl %s %s -1' % (_g(a), pwt),
                          impl, None, True, {'f': 'color_weisfeiler_lehman', 'graph': gdesc, 'max_iter': -1, 'family': 'hash-collision'}))
        if impl.startswith('ok'):
            lab = [int(x) for x in impl[3:].split(',')]
            exact = _exact_classes(a)
            bi, be = _blocks(lab), _blocks(exact)
            if bi == be:
                ctx.count('collision-family:no-collision')
                sig = {'entry': 'color_weisfeiler_lehman', 'max_iter': -1}
            else:
                coarser = all(any(set(x) <= set(y) for y in bi) for x in be)
                one_pair = coarser and len(be) - len(bi) == 1
                ctx.count('collision-family:' + ('one-pair-merged' if one_pair else 'other-difference'))
                sig = ({'entry': 'color_weisfeiler_lehman', 'family': 'hash-collision', 'merge': 'one-pair'} if one_pair
                       else {'entry': 'color_weisfeiler_lehman', 'max_iter': -1})
            cases.append(Case(('wl-coll-spec', _g(a)), sig, None, impl, 'c02.spec_stable %s %s' % (_g(a), impl[3:]), True,
                              {'f': 'color_weisfeiler_lehman', 'graph': gdesc, 'max_iter': -1, 'family': 'hash-collision'}))
        perm = list(range(n))
        rng.shuffle(perm)
        b = graphs.permute_csr(a, perm)
        try:
            ok1 = np.array_equal(np.asarray(color_weisfeiler_lehman(b)), _perm_vec(np.asarray(color_weisfeiler_lehman(a)), perm))
            iso = are_isomorphic(a, b)
            why = None if (ok1 and bool(iso)) else ('colours of the renumbered graph are not the renumbered colours' if not ok1
                                                    else 'are_isomorphic(G, PG) = %r' % iso)
        except Exception as e:  # noqa
            why = 'raises ' + type(e).__name__ + ': ' + str(e)[:80]
        ctx.case(('wl-coll-relabel', _g(a), tuple(perm)), True, None)
        ctx.count('relation:WL-collision-family')
        if why:
            ctx.spec_fail({'entry': 'color_weisfeiler_lehman', 'relation': 'relabel'},
                          {'f': 'color_weisfeiler_lehman', 'graph': gdesc, 'perm': perm}, {'why': why})
    return cases


def witness_tie(ctx):
    """The literals of the Lean witness (Model/WLWitness.lean) are the corpus graph and numpy's powers, bit for bit."""
    ans = ctx.lean(['c02.witness'])[0].split(' ')
    e = [x for x in corpus_entries() if x.get('family') == 'hash-collision'][0]['graph']
    n = int(ans[0])
    pw = (-np.pi / 3.15) ** np.arange(n, dtype=np.double)
    want = [str(e['n']), enc_list(e['indptr']), enc_list(e['indices']), enc_list([_bits(x) for x in pw])]
    ctx.case(('witness-tie',), True, None)
    if ans != want:
        which = [k for k, (x, y) in zip(('n', 'indptr', 'indices', 'powers'), zip(ans, want)) if x != y]
        ctx.broken('wl_float_hash_collision:witness-tie', 'the literals of Model/WLWitness.lean differ from the corpus graph / numpy powers in: %s' % which,
                   {'entry': 'color_weisfeiler_lehman', 'tie': 'witness-literals'})


def decay_case(ctx):
    """Second mechanism of the float hash (thorough tier): powers[c] < 1e-10 for c >= ~8 615, so two colours above that hash
    alike. A spider (root, a leaf, legs of L and L+1 nodes) has all n = 2L+3 nodes pairwise separable by refinement (they
    differ in their distance profile); the code merges some of them once n exceeds ~8 800."""
    from sknetwork.topology import color_weisfeiler_lehman
    L = 4600
    es = [(0, 1)]
    prev = 0
    k = 2
    for length in (L, L + 1):
        prev = 0
        for _ in range(length):
            es.append((prev, k))
            prev = k
            k += 1
    n = k
    es = es + [(j, i) for i, j in es]
    a = sparse.csr_matrix((np.ones(len(es)), tuple(zip(*es))), shape=(n, n))
    lab = np.asarray(color_weisfeiler_lehman(a))
    ctx.case(('wl-decay', n), True, None)
    ctx.count('decay-family:classes=%d-of-%d' % (len(set(lab.tolist())), n))
    if len(set(lab.tolist())) != n:
        ctx.spec_fail({'entry': 'color_weisfeiler_lehman', 'family': 'hash-decay', 'colours_over_8600': True},
                      {'f': 'color_weisfeiler_lehman', 'spider_legs': [L, L + 1], 'n': n},
                      {'why': 'all %d nodes of the spider are pairwise separable by refinement, the code gives %d classes' % (n, len(set(lab.tolist())))})


def _relabel_raw(a, perm):
    """the renumbered matrix with its stored structure kept (duplicates, stored zeros, order inside the rows)"""
    n = a.shape[0]
    inv = [0] * n
    for i, p in enumerate(perm):
        inv[p] = i
    indptr, indices, data = [0], [], []
    for r in range(n):
        i = inv[r]
        for k in range(a.indptr[i], a.indptr[i + 1]):
            indices.append(perm[a.indices[k]])
            data.append(a.data[k])
        indptr.append(len(indices))
    return sparse.csr_matrix((np.array(data, dtype=float), np.array(indices, dtype=np.int32), np.array(indptr, dtype=np.int32)), shape=(n, n))


def iso_cases_pair(ctx, a, b, mi):
    from sknetwork.topology import are_isomorphic
    n = a.shape[0]
    pw = (-np.pi / 3.15) ** np.arange(n, dtype=np.double)
    impl = call(lambda: 'ok %d' % int(bool(are_isomorphic(a, b, max_iter=mi))))
    run_line = 'c02.iso %s %s %s %d' % (_g(a), _g(b), enc_list([_bits(x) for x in pw]), mi)
    return [Case(('iso', _g(a), _g(b), mi), {'entry': 'are_isomorphic', 'max_iter': mi}, run_line, impl, None, True,
                 {'f': 'are_isomorphic', 'graph': {'n': n, 'indptr': a.indptr.tolist(), 'indices': a.indices.tolist()},
                  'graph2': {'n': b.shape[0], 'indptr': b.indptr.tolist(), 'indices': b.indices.tolist()}, 'max_iter': mi})]


def iso_cases(ctx, mats, quick):
    """are_isomorphic run lines: a graph against a renumbered copy of itself and against other graphs with the same
    number of nodes and stored entries, for several max_iter."""
    from sknetwork.topology import are_isomorphic
    rng = ctx.rng
    cases = []
    by_key = {}
    for a in mats:
        by_key.setdefault((a.shape[0], a.nnz), []).append(a)
    pairs = []
    for (n, nnz), group in by_key.items():
        for a in group:
            perm = list(range(n))
            rng.shuffle(perm)
            pairs.append((a, _relabel_raw(a, perm), 'relabelled'))
        for i in range(len(group)):
            for j in range(i + 1, len(group)):
                pairs.append((group[i], group[j], 'other'))
    if quick and len(pairs) > 260:
        rel = [p for p in pairs if p[2] == 'relabelled']
        oth = [p for p in pairs if p[2] == 'other']
        pairs = rng.sample(rel, min(len(rel), 80)) + rng.sample(oth, min(len(oth), 180))
    for a, b, kind in pairs:
        n = a.shape[0]
        pw = (-np.pi / 3.15) ** np.arange(n, dtype=np.double)
        pwt = enc_list([_bits(x) for x in pw])
        mis = (-1, 0, 1, 2, n + 3) if not quick else (-1, rng.choice([0, 1, 2, n + 3]))
        for mi in mis:
            impl = call(lambda: 'ok %d' % int(bool(are_isomorphic(a, b, max_iter=mi))))
            run = 'c02.iso %s %s %s %d' % (_g(a), _g(b), pwt, mi)
            cases.append(Case(('iso', _g(a), _g(b), mi), {'entry': 'are_isomorphic', 'pair': kind, 'max_iter': mi}, run, impl, None,
                              a.nnz > 0, {'f': 'are_isomorphic', 'graph': {'n': n, 'indptr': a.indptr.tolist(), 'indices': a.indices.tolist()},
                                          'graph2': {'n': b.shape[0], 'indptr': b.indptr.tolist(), 'indices': b.indices.tolist()},
                                          'max_iter': mi}))
            ctx.count('iso:%s:%s' % (kind, impl))
            # a matrix without stored entries is refused (ValueError 'The input matrix is empty'): a refusal, not a verdict
            if kind == 'relabelled' and impl != 'ok 1' and not (a.nnz == 0 and impl == 'err ValueError'):
                ctx.spec_fail({'entry': 'are_isomorphic', 'relation': 'relabel'},
                              {'f': 'are_isomorphic', 'graph': {'n': n, 'indptr': a.indptr.tolist(), 'indices': a.indices.tolist()},
                               'graph2': {'n': n, 'indptr': b.indptr.tolist(), 'indices': b.indices.tolist()}, 'max_iter': mi},
                              {'why': 'are_isomorphic(G, relabelled G) = %s' % impl})
    return cases


# ------------------------------------------------------------------------------------------------
# the relation on the implementation
# ------------------------------------------------------------------------------------------------
def _perm_vec(y, perm):
    """what the output for P A P^T must be if y is the output for A (new node perm[i] = old node i)"""
    y = np.asarray(y)
    out = np.empty_like(y)
    out[np.asarray(perm)] = y
    return out


def _algos():
    """name -> (kind, function(adjacency, aux) -> output, tolerance, needs)  kind: 'vec' | 'inv' | 'mat' | 'rows'"""
    from sknetwork.ranking import PageRank, Katz, Closeness, Betweenness, HITS
    from sknetwork.path import get_distances, get_shortest_path
    from sknetwork.topology import (get_core_decomposition, count_triangles, count_cliques, color_weisfeiler_lehman,
                                    get_clustering_coefficient)
    from sknetwork.regression import Diffusion, Dirichlet
    from sknetwork.classification import DiffusionClassifier, PageRankClassifier, NNClassifier
    from sknetwork.clustering import get_modularity
    from sknetwork.embedding import Spectral, SVD
    A = {}
    for solver, tol in (('piteration', 1e-9), ('RH', 1e-9), ('diteration', 2e-5), ('lanczos', 5e-6), ('bicgstab', 5e-6)):
        A['PageRank(%s)' % solver] = ('vec', (lambda a, x, s=solver: PageRank(solver=s, n_iter=60, tol=1e-12).fit_predict(a)), tol, 'any')
        A['PageRank(%s,seeds)' % solver] = ('vec', (lambda a, x, s=solver: PageRank(solver=s, n_iter=60, tol=1e-12).fit_predict(a, weights=x['weights'])), tol, 'any')
    # the sixth solver: its worklist order depends on the numbering (known finding F-C02-push-order)
    A['PageRank(push)'] = ('vec', lambda a, x: PageRank(solver='push').fit_predict(a), 2e-5, 'any')
    A['Katz'] = ('vec', lambda a, x: Katz().fit_predict(a), 1e-9, 'any')
    # a second column of options (non-default configurations of the same algorithms)
    A['Katz(path_length=2,damping=.3)'] = ('vec', lambda a, x: Katz(damping_factor=0.3, path_length=2).fit_predict(a), 1e-9, 'any')
    A['HITS(authorities)'] = ('vec', lambda a, x: HITS().fit(a).scores_col_, 1e-6, 'simple-top-singular')
    A['Betweenness(normalized)'] = ('vec', lambda a, x: Betweenness(normalized=True).fit_predict(a), 2e-5, 'weakly-connected')
    A['get_distances(transpose)'] = ('vec', lambda a, x: get_distances(a, source=x['sources'], transpose=True), 0, 'any')
    A['Diffusion(init=.5)'] = ('vec', lambda a, x: Diffusion(n_iter=4).fit_predict(a, values=x['values'], init=0.5), 1e-9, 'any')
    A['DiffusionClassifier(centering=False,probs)'] = ('rows', lambda a, x: DiffusionClassifier(centering=False).fit(a, labels=x['labels']).probs_.toarray(), 1e-9, 'any')
    A['DiffusionClassifier(n_iter=3,scale=2,probs)'] = ('rows', lambda a, x: DiffusionClassifier(n_iter=3, scale=2).fit(a, labels=x['labels']).probs_.toarray(), 1e-9, 'any')
    A['spectrum(laplacian)'] = ('inv', lambda a, x: np.sort(Spectral(n_components=min(2, a.shape[0] - 2), decomposition='laplacian').fit(a).eigenvalues_), 1e-7, 'spectral')
    A['spectrum(regularization=.1)'] = ('inv', lambda a, x: np.sort(Spectral(n_components=min(2, a.shape[0] - 2), regularization=0.1).fit(a).eigenvalues_), 1e-7, 'spectral')
    A['HITS(hubs)'] = ('vec', lambda a, x: HITS().fit(a).scores_row_, 1e-6, 'simple-top-singular')
    A['Closeness'] = ('vec', lambda a, x: Closeness().fit_predict(a), 1e-9, 'weakly-connected')
    A['Betweenness'] = ('vec', lambda a, x: Betweenness().fit_predict(a), 2e-5, 'weakly-connected')   # float32 kernel
    A['get_distances'] = ('vec', lambda a, x: get_distances(a, source=x['sources']), 0, 'any')
    A['get_shortest_path'] = ('mat', lambda a, x: get_shortest_path(a, source=x['sources']), 0, 'any')
    A['core'] = ('vec', lambda a, x: get_core_decomposition(a), 0, 'any')
    A['WL'] = ('vec', lambda a, x: color_weisfeiler_lehman(a), 0, 'any')
    A['Diffusion'] = ('vec', lambda a, x: Diffusion(n_iter=5).fit_predict(a, values=x['values']), 1e-9, 'any')
    A['Dirichlet'] = ('vec', lambda a, x: Dirichlet(n_iter=8).fit_predict(a, values=x['values']), 1e-9, 'any')
    A['DiffusionClassifier(probs)'] = ('rows', lambda a, x: DiffusionClassifier().fit(a, labels=x['labels']).probs_.toarray(), 1e-9, 'any')
    def _dc_labels(a, x):
        # arg-max labels, except where the two best probabilities are within 1e-6 (a tie decided by rounding)
        clf = DiffusionClassifier().fit(a, labels=x['labels'])
        p = np.sort(clf.probs_.toarray(), axis=1)
        margin = p[:, -1] - (p[:, -2] if p.shape[1] > 1 else 0)
        return np.where(margin > 1e-6, clf.labels_, -2)
    A['DiffusionClassifier(labels)'] = ('vec', _dc_labels, 0, 'any')
    A['PageRankClassifier(probs)'] = ('rows', lambda a, x: PageRankClassifier().fit(a, labels=x['labels']).probs_.toarray(), 1e-7, 'any')
    A['triangles'] = ('inv', lambda a, x: count_triangles(a), 0, 'any')
    A['cliques3'] = ('inv', lambda a, x: count_cliques(a, 3), 0, 'any')
    A['cliques4'] = ('inv', lambda a, x: count_cliques(a, 4), 0, 'any')
    A['cliques5'] = ('inv', lambda a, x: count_cliques(a, 5), 0, 'any')
    A['clustering_coefficient'] = ('inv', lambda a, x: get_clustering_coefficient(a), 1e-12, 'any')
    A['modularity'] = ('inv', lambda a, x: get_modularity(a, x['partition']), 1e-12, 'any')
    A['modularity(res=2,uniform)'] = ('inv', lambda a, x: get_modularity(a, x['partition'], weights='uniform', resolution=2), 1e-12, 'any')
    A['spectrum'] = ('inv', lambda a, x: np.sort(Spectral(n_components=min(2, a.shape[0] - 2)).fit(a).eigenvalues_), 1e-7, 'spectral')
    A['singular_values'] = ('inv', lambda a, x: np.sort(SVD(n_components=min(2, a.shape[0] - 2)).fit(a).singular_values_), 1e-7, 'spectral')
    return A


def _hier_algos():
    from sknetwork.hierarchy import dasgupta_cost, tree_sampling_divergence, Paris
    return {
        'dasgupta_cost': lambda a, d: dasgupta_cost(a, d),
        'dasgupta_cost(weights=uniform)': lambda a, d: dasgupta_cost(a, d, weights='uniform'),
        'tree_sampling_divergence': lambda a, d: tree_sampling_divergence(a, d),
    }


def _relabel_dendrogram(d, perm):
    """leaf i of the dendrogram becomes leaf perm[i]; internal ids unchanged"""
    d = np.array(d, dtype=float)
    n = d.shape[0] + 1
    for t in range(d.shape[0]):
        for c in (0, 1):
            v = int(d[t, c])
            if v < n:
                d[t, c] = perm[v]
    return d


def _aux(rng, n):
    k = rng.randint(1, min(3, n))
    srcs = sorted(rng.sample(range(n), k))
    w = np.array([rng.choice([0.0, 1.0, 2.0]) for _ in range(n)])
    if w.sum() == 0:
        w[rng.randrange(n)] = 1.0
    vals = {int(i): float(rng.choice([0, 1, 3])) for i in rng.sample(range(n), min(n, 2))}
    labs = {}
    pick = rng.sample(range(n), min(n, 3))
    for t, i in enumerate(pick):
        labs[int(i)] = t % 2
    part = np.array([rng.randrange(3) for _ in range(n)])
    return {'sources': srcs, 'weights': w, 'values': vals, 'labels': labs, 'partition': part}


def _perm_aux(aux, perm):
    p = list(perm)
    return {'sources': sorted(p[s] for s in aux['sources']),
            'weights': _perm_vec(aux['weights'], p),
            'values': {int(p[k]): v for k, v in aux['values'].items()},
            'labels': {int(p[k]): v for k, v in aux['labels'].items()},
            'partition': _perm_vec(aux['partition'], p)}


def _suitable(needs, a, undirected, connected):
    n = a.shape[0]
    if needs == 'undirected':
        return undirected
    if needs == 'connected':
        return undirected and connected
    if needs == 'weakly-connected':
        return connected
    if needs == 'spectral':
        return undirected and connected and n >= 4
    if needs == 'simple-top-singular':
        # the leading singular vectors are defined only when the top singular value is simple
        if n < 3 or not (undirected and connected):
            return False      # on several components the leading pair lives on one of them and ARPACK's choice is numerical
        sv = np.linalg.svd(a.toarray(), compute_uv=False)
        return sv[0] > 0 and (sv[0] - sv[1]) > 1e-2 * sv[0]
    return True


def relation_cases(ctx, items, perms_per, sub=None, fixed=None):
    """`fixed` = (perm, aux) re-runs one recorded case exactly (replay)."""
    tgt = sub or ctx
    rng = ctx.rng
    algos = _algos()
    hier = _hier_algos()
    from sknetwork.topology import are_isomorphic, is_connected
    from sknetwork.hierarchy import Paris
    for a in items:
        n = a.shape[0]
        if n < 2 or a.nnz == 0:
            continue
        undirected = (abs(a - a.T).nnz == 0)
        try:
            connected = bool(is_connected(a))
        except Exception:  # noqa
            connected = False
        allp = list(itertools.permutations(range(n))) if n <= 4 else None
        if allp is not None and perms_per >= len(allp):
            perms = allp
        else:
            perms = []
            for _ in range(perms_per):
                p = list(range(n))
                rng.shuffle(p)
                perms.append(tuple(p))
        aux = _aux(rng, n)
        if fixed is not None:
            perms = [tuple(fixed[0])]
            aux = fixed[1]
        base = {}
        ref = {}
        with warnings.catch_warnings():
            warnings.simplefilter('ignore')
            for name, (kind, f, tol, needs) in algos.items():
                if _suitable(needs, a, undirected, connected):
                    try:
                        base[name] = f(a, aux)
                    except Exception as e:  # noqa
                        base[name] = ('EXC', type(e).__name__)
            dend = None
            if undirected:
                try:
                    dend = Paris().fit_predict(a)
                    for name, f in hier.items():
                        base[name] = f(a, dend)
                except Exception as e:  # noqa
                    dend = None
                    tgt.count('hierarchy-base-raises:' + type(e).__name__)
        gdesc = {'n': n, 'dense': a.toarray().tolist()}
        stor = []
        for pi, perm in enumerate(perms):
            # the renumbered matrix in canonical storage, or as scipy's own indexing A[q][:, q] returns it (column indices
            # not sorted inside the rows): a replay tries both
            stor += [(perm, s_) for s_ in (('sorted', 'as-indexed') if fixed is not None else
                                           (('as-indexed',) if pi % 2 == 1 else ('sorted',)))]
        for perm, storage in stor:
            if list(perm) == list(range(n)):
                continue
            if storage == 'sorted':
                b = graphs.permute_csr(a, perm)
            else:
                q = np.argsort(np.asarray(perm))
                b = sparse.csr_matrix(a)[q][:, q]
                tgt.count('relation-storage:as-indexed' + ('' if b.has_sorted_indices else ':unsorted'))
            aux_p = _perm_aux(aux, perm)
            with warnings.catch_warnings():
                warnings.simplefilter('ignore')
                for name, (kind, f, tol, needs) in algos.items():
                    if name not in base:
                        continue
                    sig = {'entry': name, 'relation': 'relabel'}
                    desc = {'entry': name, 'graph': gdesc, 'perm': list(perm), 'storage': storage,
                            'aux': {k: (v.tolist() if hasattr(v, 'tolist') else v) for k, v in aux.items()}}
                    key = (name, n, tuple(a.toarray().ravel().tolist()), perm, storage)
                    try:
                        out = f(b, aux_p)
                    except Exception as e:  # noqa
                        out = ('EXC', type(e).__name__)
                    y = base[name]
                    tgt.count('relation:' + name)
                    if isinstance(y, tuple) or isinstance(out, tuple):
                        ok = isinstance(y, tuple) and isinstance(out, tuple) and y == out
                        tgt.case(key, False, None)
                        if ok:
                            tgt.count('relation-exc:' + name)
                        if not ok:
                            tgt.spec_fail(sig, desc, {'why': 'one numbering raises, the other does not', 'base': repr(y)[:80], 'relabelled': repr(out)[:80]})
                        continue
                    if kind == 'vec':
                        want = _perm_vec(y, perm)
                        ok = np.allclose(np.asarray(out, dtype=float), np.asarray(want, dtype=float), atol=tol, rtol=tol, equal_nan=True)
                    elif kind == 'rows':
                        want = _perm_vec(np.asarray(y), perm)
                        ok = np.asarray(out).shape == want.shape and np.allclose(out, want, atol=tol)
                    elif kind == 'mat':
                        want = graphs.permute_csr(sparse.csr_matrix(y).astype(float), perm)
                        ok = abs(sparse.csr_matrix(out).astype(float) - want).nnz == 0
                    else:
                        ok = np.allclose(np.asarray(out, dtype=float), np.asarray(y, dtype=float), atol=tol, rtol=tol, equal_nan=True)
                    tgt.case(key, True, {'entry': name, 'graph': gdesc['dense'], 'perm': list(perm), 'holds': bool(ok)})
                    tgt.count('relation-evaluated:' + name)
                    if not ok:
                        tgt.spec_fail(sig, desc, {'why': 'output for the renumbered graph is not the renumbered output',
                                                  'base': np.asarray(y, dtype=float).tolist() if kind != 'mat' else None,
                                                  'relabelled': np.asarray(out, dtype=float).tolist() if kind != 'mat' else None})
                if dend is not None:
                    dp = _relabel_dendrogram(dend, perm)
                    for name, f in hier.items():
                        key = (name, n, tuple(a.toarray().ravel().tolist()), perm)
                        try:
                            out = f(b, dp)
                            ok = np.allclose(out, base[name], atol=1e-9)
                        except Exception as e:  # noqa
                            out, ok = repr(e), False
                        tgt.case(key, True, None)
                        tgt.count('relation:' + name)
                        tgt.count('relation-evaluated:' + name)
                        if not ok:
                            tgt.spec_fail({'entry': name, 'relation': 'relabel'},
                                          {'entry': name, 'graph': gdesc, 'perm': list(perm), 'dendrogram': np.asarray(dend).tolist()},
                                          {'why': 'metric changed under renumbering', 'base': float(base[name]), 'relabelled': repr(out)[:60]})
                # the WL test never separates a graph from its renumbered copy
                key = ('iso', n, tuple(a.toarray().ravel().tolist()), perm)
                try:
                    iso = bool(are_isomorphic(a, b))
                except Exception as e:  # noqa
                    iso = repr(e)
                tgt.case(key, True, None)
                tgt.count('relation:are_isomorphic')
                if iso is not True:
                    tgt.spec_fail({'entry': 'are_isomorphic', 'relation': 'relabel'}, {'entry': 'are_isomorphic', 'graph': gdesc, 'perm': list(perm)},
                                  {'why': 'are_isomorphic(G, relabelled G) is not True', 'got': iso})


def _perm_rows(y, perm):
    y = np.asarray(y)
    out = np.empty_like(y)
    out[np.asarray(perm)] = y
    return out


def _bip_algos():
    """name -> function(B, aux) -> dict of outputs; keys ending in _row / _col are permuted by the row / column
    renumbering, keys starting with inv are unchanged."""
    from sknetwork.ranking import PageRank, Katz, HITS
    from sknetwork.regression import Diffusion, Dirichlet
    from sknetwork.classification import DiffusionClassifier, PageRankClassifier
    from sknetwork.clustering import get_modularity
    from sknetwork.embedding import SVD

    def rc(est, **kw):
        return lambda b, x: (lambda e: {'scores_row': e.scores_row_, 'scores_col': e.scores_col_})(est().fit(b, **{k: x[v] for k, v in kw.items()}))

    def vals(est):
        def f(b, x):
            e = est().fit(b, values_row=x['values_row'], values_col=x['values_col'])
            return {'values_row': e.values_row_, 'values_col': e.values_col_}
        return f

    def probs(est):
        def f(b, x):
            e = est().fit(b, labels_row=x['labels_row'], labels_col=x['labels_col'])
            return {'probs_row': e.probs_row_.toarray(), 'probs_col': e.probs_col_.toarray()}
        return f
    A = {}
    A['bip:PageRank'] = (rc(lambda: PageRank(solver='piteration', n_iter=60, tol=1e-12)), 1e-9)
    A['bip:PageRank(seeds)'] = (rc(lambda: PageRank(solver='piteration', n_iter=60, tol=1e-12), weights_row='weights_row', weights_col='weights_col'), 1e-9)
    A['bip:PageRank(RH)'] = (rc(lambda: PageRank(solver='RH', n_iter=60, tol=1e-12)), 1e-9)
    A['bip:Katz'] = (rc(lambda: Katz()), 1e-9)
    A['bip:Diffusion'] = (vals(lambda: Diffusion(n_iter=5)), 1e-9)
    A['bip:Dirichlet'] = (vals(lambda: Dirichlet(n_iter=8)), 1e-9)
    A['bip:DiffusionClassifier'] = (probs(lambda: DiffusionClassifier()), 1e-9)
    A['bip:PageRankClassifier'] = (probs(lambda: PageRankClassifier()), 1e-7)
    A['bip:HITS'] = (lambda b, x: (lambda e: {'scores_row': e.scores_row_, 'scores_col': e.scores_col_})(HITS().fit(b)), 1e-6)
    from sknetwork.path import get_distances

    def dist(b, x):
        r, c = get_distances(b, source_row=x['src_row'], source_col=x['src_col'])
        return {'dist_row': r, 'dist_col': c}
    A['bip:get_distances'] = (dist, 0)

    def dist_t(b, x):
        # the transposed bigraph: its rows are the columns of B (sources given accordingly), answers read back per side of B
        r, c = get_distances(b, source_row=x['src_col'] or None, source_col=x['src_row'], transpose=True)
        return {'distT_col': r, 'distT_row': c}
    A['bip:get_distances(transpose)'] = (dist_t, 0)

    def dist_src(b, x):
        r, c = get_distances(b, source=x['src_row'], force_bipartite=True)
        return {'dist_row': r, 'dist_col': c}
    A['bip:get_distances(source alias)'] = (dist_src, 0)
    from sknetwork.path import get_shortest_path

    def sp(b, x):
        p = get_shortest_path(b, source_row=x['src_row'], source_col=x['src_col'] or None).toarray()
        nr = b.shape[0]
        return {'inv': int(p.sum()), 'rc_row': p[:nr, nr:].sum(axis=1), 'rc_col': p[:nr, nr:].sum(axis=0),
                'cr_row': p[nr:, :nr].sum(axis=0), 'cr_col': p[nr:, :nr].sum(axis=1)}
    A['bip:get_shortest_path'] = (sp, 0)
    A['bip:modularity'] = (lambda b, x: {'inv': get_modularity(b, x['part_row'], x['part_col'])}, 1e-12)
    A['bip:singular_values'] = (lambda b, x: {'inv': np.sort(SVD(n_components=min(2, min(b.shape) - 1)).fit(b).singular_values_)}, 1e-7)
    return A


def _bip_aux(rng, nr, nc):
    def w(n):
        v = np.array([rng.choice([0.0, 1.0, 2.0]) for _ in range(n)])
        if v.sum() == 0:
            v[rng.randrange(n)] = 1.0
        return v
    return {'src_row': sorted(rng.sample(range(nr), rng.randint(0, min(nr, 2)))) or [0], 'src_col': sorted(rng.sample(range(nc), rng.randint(0, 1))),
            'weights_row': w(nr), 'weights_col': w(nc),
            'values_row': {int(i): float(rng.choice([0, 1, 3])) for i in rng.sample(range(nr), min(nr, 2))},
            'values_col': {int(i): float(rng.choice([0, 2])) for i in rng.sample(range(nc), 1)},
            'labels_row': {int(i): t % 2 for t, i in enumerate(rng.sample(range(nr), min(nr, 2)))},
            'labels_col': {int(i): 1 for i in rng.sample(range(nc), 1)},
            'part_row': np.array([rng.randrange(2) for _ in range(nr)]), 'part_col': np.array([rng.randrange(2) for _ in range(nc)])}


def _bip_perm_aux(x, pr, pc):
    pr, pc = list(pr), list(pc)
    return {'src_row': sorted(pr[i] for i in x['src_row']), 'src_col': sorted(pc[i] for i in x['src_col']),
            'weights_row': _perm_vec(x['weights_row'], pr), 'weights_col': _perm_vec(x['weights_col'], pc),
            'values_row': {int(pr[k]): v for k, v in x['values_row'].items()},
            'values_col': {int(pc[k]): v for k, v in x['values_col'].items()},
            'labels_row': {int(pr[k]): v for k, v in x['labels_row'].items()},
            'labels_col': {int(pc[k]): v for k, v in x['labels_col'].items()},
            'part_row': _perm_vec(x['part_row'], pr), 'part_col': _perm_vec(x['part_col'], pc)}


def bipartite_relation_cases(ctx, count, sub=None, fixed=None):
    """f(P_r B P_c^T): row outputs renumbered by P_r, column outputs by P_c, invariants unchanged."""
    tgt = sub or ctx
    rng = ctx.rng
    algos = _bip_algos()
    items = []
    if fixed is not None:
        items = [fixed]
    else:
        for _ in range(count):
            nr, nc = rng.randint(2, 6), rng.randint(2, 6)
            if nr == nc:
                nc += 1
            dense = np.array([[rng.choice([0, 0, 1, 1, 2]) for _ in range(nc)] for _ in range(nr)], dtype=float)
            if dense.sum() == 0:
                dense[0, 0] = 1
            pr, pc = list(range(nr)), list(range(nc))
            rng.shuffle(pr)
            rng.shuffle(pc)
            items.append((dense.tolist(), pr, pc, None))
    for dense, pr, pc, aux in items:
        b = sparse.csr_matrix(np.array(dense, dtype=float))
        nr, nc = b.shape
        aux = aux or _bip_aux(rng, nr, nc)
        bp = sparse.csr_matrix(_perm_rows(_perm_rows(b.toarray(), pr).T, pc).T)
        aux_p = _bip_perm_aux(aux, pr, pc)
        jaux = {k: (v.tolist() if hasattr(v, 'tolist') else v) for k, v in aux.items()}
        with warnings.catch_warnings():
            warnings.simplefilter('ignore')
            for name, (f, tol) in algos.items():
                if name == 'bip:HITS':
                    sv = np.linalg.svd(b.toarray(), compute_uv=False)
                    from sknetwork.topology import is_connected as _ic
                    if not (sv[0] > 0 and (len(sv) < 2 or sv[0] - sv[1] > 1e-2 * sv[0]) and bool(_ic(b))):
                        continue
                sig = {'entry': name, 'relation': 'relabel-bipartite'}
                desc = {'entry': name, 'biadjacency': dense, 'perm_row': list(pr), 'perm_col': list(pc), 'aux': jaux}
                key = (name, tuple(map(tuple, dense)), tuple(pr), tuple(pc))
                try:
                    y = f(b, aux)
                except Exception as e:  # noqa
                    y = ('EXC', type(e).__name__)
                try:
                    out = f(bp, aux_p)
                except Exception as e:  # noqa
                    out = ('EXC', type(e).__name__)
                tgt.count('relation:' + name)
                if isinstance(y, tuple) or isinstance(out, tuple):
                    tgt.case(key, False, None)
                    if y == out:
                        tgt.count('relation-exc:' + name)
                    else:
                        tgt.spec_fail(sig, desc, {'why': 'one numbering raises, the other does not', 'base': repr(y)[:80], 'relabelled': repr(out)[:80]})
                    continue
                bad = None
                for k, v in y.items():
                    side = pr if k.endswith('_row') else (pc if k.endswith('_col') else None)
                    got = np.asarray(out[k])
                    if side is not None and (np.asarray(v).shape[:1] != (len(side),) or got.shape[:1] != (len(side),)):
                        # an output that does not have one entry per node of its side cannot be renumbered at all
                        bad = (k + ' (wrong length for its side)', np.asarray(v, dtype=float).tolist(), got.astype(float).tolist())
                        break
                    want = _perm_rows(v, side) if side is not None else np.asarray(v)
                    if got.shape != np.asarray(want).shape or not np.allclose(got, want, atol=tol, rtol=tol, equal_nan=True):
                        bad = (k, np.asarray(want, dtype=float).tolist(), got.astype(float).tolist())
                        break
                tgt.case(key, True, None)
                tgt.count('relation-evaluated:' + name)
                if bad:
                    tgt.spec_fail(sig, desc, {'why': 'output %s for the renumbered biadjacency is not the renumbered output' % bad[0],
                                              'expected': bad[1], 'relabelled': bad[2]})


def _wl_mats(ctx, quick):
    rng = ctx.rng
    mats = [sparse.csr_matrix((0, 0), dtype=float)]
    # non-canonical storage: duplicate column indices and stored zeros (the kernel counts stored entries)
    mats.append(sparse.csr_matrix((np.array([1., 1., 0., 1., 1.]), np.array([1, 1, 2, 0, 0]), np.array([0, 3, 5, 5])), shape=(3, 3)))
    mats.append(sparse.csr_matrix((np.array([1., 0., 1., 1., 0., 1.]), np.array([1, 2, 0, 3, 3, 1]), np.array([0, 2, 4, 5, 6])), shape=(4, 4)))
    for n in (1, 2, 3):
        for es in graphs.all_digraphs(n):
            mats.append(graphs.csr_from_edges(n, es))
    for n in ((4,) if quick else (4, 5)):
        for es in graphs.all_undirected(n):
            mats.append(graphs.csr_from_edges(n, es))
    g5 = list(graphs.all_undirected(5)) if quick else list(graphs.all_undirected(6))
    for es in rng.sample(g5, 120 if quick else 1500):
        mats.append(graphs.csr_from_edges(5 if quick else 6, es))
    for name, n, es, w in graphs.suite(rng, 30 if quick else 300, 4, 12):
        a = graphs.csr_from_edges(n, es)
        if rng.random() < 0.5:
            a = graphs.unsorted_copy(a, rng)
        mats.append(a)
    return mats


def _rel_mats(ctx, quick):
    rng = ctx.rng
    mats = []
    und4 = [es for es in graphs.all_undirected(4) if es]
    for es in (rng.sample(und4, 10) if quick else und4):
        mats.append(graphs.csr_from_edges(4, es))
    dig3 = [es for es in graphs.all_digraphs(3) if es]
    for es in (rng.sample(dig3, 6) if quick else dig3):
        mats.append(graphs.csr_from_edges(3, es))
    for name, n, es, w in graphs.suite(rng, 14 if quick else 150, 4, 10, weights=[1, 1, 2, 3]):
        mats.append(graphs.csr_from_edges(n, es, w))
    # dense irregular graphs: deep clique recursion levels, many triangles, rich core structure
    for _ in range(6 if quick else 60):
        n = rng.randint(8, 14)
        es = graphs.random_edges(rng, n, rng.choice([0.5, 0.6, 0.7]), directed=False)
        mats.append(graphs.csr_from_edges(n, es))
    return mats


def _entries_without_evaluation(ctx):
    rel = {k.split(':', 1)[1] for k in ctx.dist if k.startswith('relation:')}
    ev = {k.split(':', 1)[1] for k in ctx.dist if k.startswith('relation-evaluated:')}
    skip = {'WL-twins', 'WL-collision-family', 'are_isomorphic'}
    return sorted(rel - ev - skip)


def corpus_relation(ctx):
    """recorded (graph, permutation, restart weights) triples of past relation failures run first"""
    for e in corpus_entries():
        if e.get('family') != 'relation':
            continue
        a = sparse.csr_matrix(np.array(e['dense'], dtype=float))
        aux = _aux(ctx.rng, a.shape[0])
        if 'weights' in e:
            aux['weights'] = np.array(e['weights'], dtype=float)
        relation_cases(ctx, [a], perms_per=1, fixed=(e['perm'], aux))
        ctx.count('corpus:relation')


def run(ctx):
    from vlib.core import ToolFailure
    quick = ctx.quick
    corpus_relation(ctx)
    wl = _wl_mats(ctx, quick)
    witness_tie(ctx)
    evaluate(ctx, collision_cases(ctx, collision_graphs(ctx, 2 if quick else 12)))
    if not quick:
        decay_case(ctx)
    evaluate(ctx, wl_cases(ctx, wl))
    evaluate(ctx, wl_twin_cases(ctx, twin_graphs(ctx, 6 if quick else 60)))
    small = [a for a in wl if a.shape[0] <= (5 if quick else 6)]
    evaluate(ctx, iso_cases(ctx, rng_sample(ctx, small, 90 if quick else 900), quick))
    relation_cases(ctx, _rel_mats(ctx, quick), perms_per=2 if quick else 24)
    bipartite_relation_cases(ctx, 12 if quick else 300)
    dead = _entries_without_evaluation(ctx)
    if dead:
        raise ToolFailure('relation entries without a single evaluation (every call raised or was skipped): %s' % ', '.join(dead))


def rng_sample(ctx, items, k):
    return ctx.rng.sample(items, min(len(items), k))


def search(ctx, pending):
    sub = Sub(ctx)
    wl = _wl_mats(ctx, True)
    evaluate(sub, wl_cases(ctx, wl))
    evaluate(sub, wl_twin_cases(sub, twin_graphs(ctx, 4)))
    evaluate(sub, iso_cases(sub, rng_sample(ctx, [a for a in wl if a.shape[0] <= 5], 60), True))
    relation_cases(ctx, _rel_mats(ctx, True), perms_per=3, sub=sub)
    bipartite_relation_cases(ctx, 12, sub=sub)
    return sub.found()


def replay(ctx, payload):
    """Re-run the recorded case itself (graph, permutation(s), auxiliary inputs), then its neighbourhood."""
    case = payload.get('case') or {}
    if 'spider_legs' in case:
        decay_case(ctx)
    elif case.get('f') == 'color_weisfeiler_lehman':
        a = _csr_of(case['graph'])
        if 'perm' in case:
            evaluate(ctx, wl_twin_cases(ctx, [a], perm_fixed=case['perm']))
        elif case.get('family') == 'hash-collision':
            evaluate(ctx, collision_cases(ctx, [a]))
        else:
            evaluate(ctx, wl_cases(ctx, [a]))
    elif case.get('f') == 'are_isomorphic':
        a, b = _csr_of(case['graph']), _csr_of(case['graph2'])
        evaluate(ctx, iso_cases_pair(ctx, a, b, case.get('max_iter', -1)))
    elif 'biadjacency' in case:
        aux = {k: (list(v) if k.startswith('src_') else np.array(v) if isinstance(v, list) else {int(i): x for i, x in v.items()})
               for k, v in case['aux'].items()}
        bipartite_relation_cases(ctx, 0, fixed=(case['biadjacency'], case['perm_row'], case['perm_col'], aux))
    elif 'graph' in case and 'dense' in case['graph']:
        a = sparse.csr_matrix(np.array(case['graph']['dense'], dtype=float))
        if 'perm' in case and 'aux' in case:
            x = case['aux']
            aux = {'sources': list(x['sources']), 'weights': np.array(x['weights'], dtype=float),
                   'values': {int(k): v for k, v in x['values'].items()}, 'labels': {int(k): v for k, v in x['labels'].items()},
                   'partition': np.array(x['partition'])}
            relation_cases(ctx, [a], perms_per=1, fixed=(case['perm'], aux))
        relation_cases(ctx, [a], perms_per=24)
    else:
        run(ctx)
