"""C01 — results do not depend on the container format; inputs are never modified.

 (1) `run` lines: the Lean model of the ingestion step (SkNet/Model/Container.lean: sparse.csr_matrix(x) for
     CSR / CSC / COO / LIL / dense input, entries of type bool / intN / uintN / float, duplicates, unsorted
     indices, cancelling duplicates) against scipy + check_format: stored CSR rows and canonical CSR compared
     exactly, in the arithmetic of the dtype.
 (2) generated obligations: tools/translate/effects.py turns the functions / methods of the working tree
     (Python sources and the Python-level `def`s of the .pyx files) into ownership programs
     (Generated/Effects.lean); `Fn.ok` is decided through the driver and kernel-checked (`by decide`) — theorem
     `ownership_sound` says a safe program leaves caller cells alone. The translator's own regression tests
     (tiny sources that must come out not-ok) run first.
 (3) the statement on the implementation: every entry of tools/harness/c01_entries.py is called on one graph in
     several representations (container format x dtype, drawn independently) and the outputs compared with the
     float64 CSR reference (within round-off); every argument is snapshotted before and compared after the call.
"""
import concurrent.futures
import copy
import hashlib
import multiprocessing
import os
import random
import time
import warnings

import numpy as np
from scipy import sparse

from vlib import graphs
from vlib.cases import Case, Sub, call, evaluate
from vlib.core import enc_rat, ToolFailure, log

from harness import c01_entries as T

PER_ENTRY = {'quick': 3, 'thorough': 30}
CONTAINERS = {'quick': 400, 'thorough': 4000}
NORM_MASK = 1e-7        # rows of a normalised embedding are compared when their raw norm exceeds NORM_MASK * (largest raw norm)
F32_TOL = 5e-5          # float32 containers: round-off of float32 arithmetic (DESIGN §8: 2e-5 (1+|x|) per operation)

RULE = ('entry points: the table tools/harness/c01_entries.py (public estimators and matrix-taking functions of ranking, clustering, '
        'hierarchy, embedding, classification, regression, linkpred, gnn, path, topology, visualization, utils, linalg; their number '
        'is `entries` in this evidence). Graph kinds per entry: undirected / triangle-rich undirected (7-16 nodes, every entry that runs on undirected graphs) / connected undirected / directed / bipartite in turn, '
        'n <= 11, weights unit, {1,2,3}, dyadic fractions or {1,100,200}; per graph the reference is the float64 sorted CSR and the '
        'representations are drawn as (container format) x (dtype): every format of the entry\'s policy once with a random '
        'representable dtype, then every representable dtype not yet drawn with a random format — formats csr, csr_unsorted '
        '(shuffled column indices), csr_reversed (column indices of every row in decreasing order), csc, coo, coo_dup (duplicate entries, shuffled order), lil, '
        'dense; dtypes float64, float32, int64, int32, int8, uint8, bool; entries whose documented input is sparse.csr_matrix only '
        'get the CSR formats (csr+dense: and ndarray); bipartite graphs go through the *_row / *_col arguments; labels / values / weights are passed as '
        'dict, array or list in turn; explicit stored zeros are not among the representations the property lists and are not '
        'generated. Graphs per entry: `graphs_per_entry` in this evidence. Clause "same result": output (fitted attributes, return '
        'value, predict on extra vectors) equal to the reference within the tolerance of the entry; normalised embeddings '
        '(Spectral, SVD, GSVD, PCA, RandomProjection with normalized=True) are compared on the rows whose un-normalised norm exceeds '
        '1e-7 of the largest row norm (below it the normalisation amplifies round-off to O(1)), the un-normalised embedding is '
        'compared in full; eigen / singular vectors up to one sign per component, skipped when the spectrum is degenerate (counted as '
        '`degenerate-spectrum`); HITS is not compared when the leading singular value is multiple; a k-nearest-neighbour choice '
        '(NNLinker, NNClassifier) that differs only between candidates tied at the k-th place is counted as `tie-skipped`. Clause "inputs not modified": every argument, the matrix, and every second matrix compared with a '
        'snapshot taken before the call, for the reference call too. Both calls raising the same exception class is counted per '
        'entry (`both_raise`) and not as an evaluated comparison. non-trivial = the graph has an edge and the stored representation '
        'differs from the reference (format, dtype or stored order); distinct = distinct (entry, graph, representation)')
ASSUMPTIONS = ['round-off: float64 outputs within 1e-8, float32 kernels within 5e-5, iterative solvers within 5e-6, float32 containers '
               'within 5e-5; numpy global RNG re-seeded before every call (KCenters and the layouts draw from it); eigen / singular '
               'vectors compared up to one sign per component and only when the leading values are simple; SVG strings compared after '
               'normalising numeric literals, as multisets of elements',
               'sort_indices on a caller CSR is the one tolerated in-place effect (property text)',
               'functions annotated sparse.csr_matrix only are exercised on CSR variants (dtype, unsorted indices)',
               'weights are non-negative (negative weights are outside the documented domain of most estimators)']
# ------------------------------------------------------------------------------------------------
# snapshots
# ------------------------------------------------------------------------------------------------
def snapshot(x):
    if sparse.issparse(x):
        fmt = x.format
        if fmt in ('csr', 'csc'):
            return ('sp', fmt, x.shape, str(x.dtype), x.indptr.copy(), x.indices.copy(), x.data.copy())
        if fmt == 'coo':
            return ('sp', fmt, x.shape, str(x.dtype), x.row.copy(), x.col.copy(), x.data.copy())
        return ('sp', fmt, x.shape, str(x.dtype), copy.deepcopy(x.rows), copy.deepcopy(x.data))
    if isinstance(x, np.ndarray):
        return ('nd', x.shape, str(x.dtype), x.copy())
    if isinstance(x, dict):
        return ('dict', list(x.items()))
    if isinstance(x, list):
        return ('list', copy.deepcopy(x))
    return ('other', repr(x))


def _eq(a, b):
    if isinstance(a, np.ndarray) and isinstance(b, np.ndarray):
        if a.dtype == object or b.dtype == object:
            return len(a) == len(b) and all(_eq(x, y) for x, y in zip(a, b))
        if a.dtype.kind in 'US' or b.dtype.kind in 'US':
            return a.shape == b.shape and bool(np.all(a == b))
        return a.shape == b.shape and np.array_equal(a, b, equal_nan=(a.dtype.kind == 'f' and b.dtype.kind == 'f'))
    if isinstance(a, (list, tuple)) and isinstance(b, (list, tuple)):
        return len(a) == len(b) and all(_eq(x, y) for x, y in zip(a, b))
    return a == b


def same_snapshot(s1, s2, allow_sorted=False):
    if s1[0] != s2[0]:
        return False
    if s1[0] == 'sp' and s1[1] == 'csr' and allow_sorted and not _eq(s1, s2):
        # sort_indices is tolerated: same matrix with each row's entries in sorted order
        if s1[1:4] != s2[1:4] or not _eq(s1[4], s2[4]):
            return False
        ip = s1[4]
        for i in range(len(ip) - 1):
            lo, hi = ip[i], ip[i + 1]
            o = np.argsort(s1[5][lo:hi], kind='stable')
            if not (_eq(s1[5][lo:hi][o], s2[5][lo:hi]) and _eq(s1[6][lo:hi][o], s2[6][lo:hi])):
                return False
        return True
    return _eq(s1, s2)


# ------------------------------------------------------------------------------------------------
# output comparison
# ------------------------------------------------------------------------------------------------
_ELEM = __import__('re').compile(r'<[^>]*>[^<]*')
_NUM = __import__('re').compile(r'-?\d+\.?\d*(?:e-?\d+)?')


def _svg_norm(s):
    return _NUM.sub(lambda m: '%.6g' % float(m.group(0)), s)


def _svg_close(ex, ey, tol):
    """element by element up to `tol` on every number (the drawing rounds coordinates to pixels: a layout computed
    inside the call turns round-off into a difference of one pixel) — each element of one drawing is matched with an
    unused element of the other that has the same text and numbers within `tol`"""
    if len(ex) != len(ey):
        return False
    split = lambda e: (_NUM.sub('#', e), [float(v) for v in _NUM.findall(e)])
    pool = {}
    for e in ey:
        t, nums = split(e)
        pool.setdefault(t, []).append(nums)
    for e in ex:
        t, nums = split(e)
        cands = pool.get(t, [])
        best = None
        for k, other in enumerate(cands):
            if len(other) == len(nums) and all(abs(a - b) <= tol for a, b in zip(nums, other)):
                d = sum(abs(a - b) for a, b in zip(nums, other))
                if best is None or d < best[0]:
                    best = (d, k)
        if best is None:
            return False
        cands.pop(best[1])
    return True


def same_upto_sign(x, y, tol):
    """columns equal up to one sign each (eigen / singular vectors)"""
    x, y = np.asarray(x, dtype=float), np.asarray(y, dtype=float)
    if x.shape != y.shape:
        return False
    if x.ndim == 1:       # the embedding of one vector: one sign per component, i.e. per element
        return bool(np.allclose(np.abs(x), np.abs(y), atol=tol, rtol=tol))
    if x.ndim != 2:
        return bool(np.allclose(x, y, atol=tol, rtol=tol) or np.allclose(x, -y, atol=tol, rtol=tol))
    return all(np.allclose(x[:, j], y[:, j], atol=tol, rtol=tol) or np.allclose(x[:, j], -y[:, j], atol=tol, rtol=tol)
               for j in range(x.shape[1]))




def same_output(x, y, tol, sign_free=False, degenerate=False):
    if sign_free and isinstance(x, dict) and isinstance(y, dict):
        if x.keys() != y.keys():
            return False
        # eigen / singular vectors are defined up to sign only when the values are simple
        for vk in ('eigenvalues_', 'singular_values_'):
            v = x.get(vk)
            if v is not None and len(np.atleast_1d(v)) > 1:
                vs = np.sort(np.abs(np.atleast_1d(v)))
                if np.min(np.diff(vs)) < 1e-5 * max(1.0, vs[-1]):
                    degenerate = True
        for k in x:
            if ('embedding' in k or 'vectors' in k) and x[k] is not None and y[k] is not None:
                if degenerate:
                    continue
                if not same_upto_sign(_dense_arr(x[k]), _dense_arr(y[k]), tol):
                    return False
            elif k == 'regularization_' or 'solver' in k:
                continue
            elif not same_output(x[k], y[k], tol):
                return False
        return True
    if isinstance(x, str) and isinstance(y, str) and x.startswith('<svg'):
        # the same elements, whatever the order the stored edges were visited in
        ex = sorted(_ELEM.findall(_svg_norm(x)))
        ey = sorted(_ELEM.findall(_svg_norm(y)))
        if ex == ey or tol <= 0:
            return ex == ey
        return _svg_close(ex, ey, tol)
    if x is None or y is None:
        return x is None and y is None
    if sparse.issparse(x) or sparse.issparse(y):
        if not (sparse.issparse(x) and sparse.issparse(y)) or x.shape != y.shape:
            return False
        return same_output(np.asarray(x.todense(), dtype=float), np.asarray(y.todense(), dtype=float), tol)
    if isinstance(x, (np.ndarray, np.generic)) or isinstance(y, (np.ndarray, np.generic)):
        x, y = np.asarray(x), np.asarray(y)
        if x.shape != y.shape:
            return False
        if x.dtype.kind in 'OUS' or y.dtype.kind in 'OUS':
            return all(same_output(a, b, tol) for a, b in zip(x.ravel().tolist(), y.ravel().tolist()))
        return bool(np.allclose(x.astype(float), y.astype(float), atol=tol, rtol=tol, equal_nan=True))
    if isinstance(x, (tuple, list)) and isinstance(y, (tuple, list)):
        return len(x) == len(y) and all(same_output(a, b, tol) for a, b in zip(x, y))
    if isinstance(x, dict) and isinstance(y, dict):
        return x.keys() == y.keys() and all(same_output(x[k], y[k], tol) for k in x)
    if isinstance(x, float) or isinstance(y, float):
        return bool(np.isclose(float(x), float(y), atol=tol, rtol=tol, equal_nan=True))
    return x == y


def _dense_arr(v):
    return np.asarray(v.todense()) if sparse.issparse(v) else np.asarray(v)


# ------------------------------------------------------------------------------------------------
# (3) the statement on the implementation
# ------------------------------------------------------------------------------------------------
def ser(x):
    """JSON-able, type-preserving description of an argument (for replay files)"""
    if sparse.issparse(x):
        c = x.tocoo()
        return {'__sp__': x.format, 'shape': list(x.shape), 'dtype': str(x.dtype), 'row': c.row.tolist(), 'col': c.col.tolist(),
                'data': c.data.tolist()}
    if isinstance(x, np.ndarray):
        return {'__nd__': x.tolist(), 'dtype': str(x.dtype)}
    if isinstance(x, np.generic):
        return x.item()
    if isinstance(x, dict):
        return {'__dict__': [[ser(k), ser(v)] for k, v in x.items()]}
    if isinstance(x, tuple):
        return {'__tuple__': [ser(v) for v in x]}
    if isinstance(x, list):
        return [ser(v) for v in x]
    return x


def deser(x):
    if isinstance(x, dict):
        if '__sp__' in x:
            m = sparse.coo_matrix((np.asarray(x['data'], dtype=x['dtype']), (x['row'], x['col'])), shape=tuple(x['shape']))
            return m.asformat(x['__sp__'])
        if '__nd__' in x:
            return np.array(x['__nd__'], dtype=x['dtype'])
        if '__dict__' in x:
            return {deser(k): deser(v) for k, v in x['__dict__']}
        if '__tuple__' in x:
            return tuple(deser(v) for v in x['__tuple__'])
        return {k: deser(v) for k, v in x.items()}
    if isinstance(x, list):
        return [deser(v) for v in x]
    return x


def _differs_from_reference(a, rep, fmt, dtype):
    if a.nnz == 0:
        return False
    if fmt not in ('csr_unsorted', 'csr_reversed'):
        return True
    if dtype != 'float64':
        return True
    return not np.array_equal(rep.indices, a.indices)


_ENTRIES = None


def _table():
    global _ENTRIES
    if _ENTRIES is None:
        _ENTRIES = T.entries()
    return _ENTRIES


def _call(E, m, aux, conv):
    with warnings.catch_warnings():
        warnings.simplefilter('ignore')
        try:
            np.random.seed(12345)
            return E.f(m, aux, conv), None
        except Exception as e:  # noqa: the exception is part of the observable behaviour that is compared
            return None, (type(e).__name__, str(e)[:160])


def _make_conv(fmt, dtype, seed, made):
    def conv(x):
        base = sparse.csr_matrix(x).astype(float)
        d = dtype if T.representable(base.data, dtype) else 'float64'
        y = T.apply_rep(base, fmt, d, seed)
        made.append((y, snapshot(y)))
        return y
    return conv


def _modified(rec, sig, desc, m, before, aux, aux2, made):
    if not same_snapshot(before, snapshot(m), allow_sorted=True):
        rec['fails'].append((dict(sig, clause='input-modified', argument='matrix'), desc,
                             {'why': 'the matrix passed by the caller was modified'}))
    for k in aux:
        if not same_snapshot(snapshot(aux[k]), snapshot(aux2[k])):
            rec['fails'].append((dict(sig, clause='input-modified', argument=k), desc,
                                 {'why': 'argument %s was modified by the call' % k}))
    for obj, snap in made:
        if not same_snapshot(snap, snapshot(obj), allow_sorted=True):
            rec['fails'].append((dict(sig, clause='input-modified', argument='second matrix'), desc,
                                 {'why': 'a second matrix argument (features / adjacency_vectors / probs ...) was modified'}))


def compare_case(E, a, aux, kind, reps):
    """the reference call and every representation of one graph; returns a record of counts and failures"""
    rec = {'entry': E.name, 'kind': kind, 'counts': [], 'cases': [], 'fails': [], 'ref_raised': None, 'calls': 0}
    gdesc, auxd = ser(a), {k: ser(v) for k, v in aux.items()}
    shape, flat = tuple(a.shape), tuple(a.toarray().ravel().tolist())
    # reference: a fresh float64 CSR (itself a representation for the "inputs not modified" clause)
    made = []
    m0 = sparse.csr_matrix(a, copy=True)
    before, aux2 = snapshot(m0), copy.deepcopy(aux)
    ref, ref_err = _call(E, m0, aux2, _make_conv('csr', 'float64', 0, made))
    sig = {'entry': E.name, 'representation': 'csr:float64'}
    desc = {'entry': E.name, 'kind': kind, 'representation': 'csr:float64', 'rep': ['csr', 'float64', 0], 'graph': gdesc, 'aux': auxd}
    _modified(rec, sig, desc, m0, before, aux, aux2, made)
    rec['calls'] += 1
    rec['counts'] += ['entry:' + E.name, 'kind:' + kind, 'representation:csr:float64(reference)']
    rec['cases'].append(((E.name, 'reference', shape, flat, aux['variant']), a.nnz > 0 and E.policy == 'none',
                         {'entry': E.name, 'representation': 'csr:float64 (reference)', 'shape': list(shape)}))
    if ref_err:
        rec['ref_raised'] = ref_err
        rec['counts'].append('reference-raises:' + E.name)
    degen = E.spectrum is not None and T.spectrum_multiple(E.spectrum(a))
    void = E.top_simple and top_singular_multiple(a)      # HITS: the leading singular pair is not defined
    for rname, fmt, dtype, seed in reps:
        rep = T.apply_rep(a, fmt, dtype, seed)
        if fmt in ('csr_unsorted', 'csr_reversed'):
            # what reaches the entry: the flag scipy consults is off, and some row really is out of order
            out_of_order = any(np.any(np.diff(rep.indices[rep.indptr[i]:rep.indptr[i + 1]]) < 0) for i in range(rep.shape[0]))
            rec['counts'].append('unsorted-at-the-call:' + ('rows-out-of-order' if out_of_order and not rep.has_sorted_indices
                                                                else 'every-row-has-at-most-one-entry-or-shuffle-is-identity'))
        made = []
        before, aux2 = snapshot(rep), copy.deepcopy(aux)
        out, err = _call(E, rep, aux2, _make_conv(fmt, dtype, seed, made))
        rec['calls'] += 1
        sig = {'entry': E.name, 'representation': rname, 'format': fmt, 'dtype': dtype}
        desc = {'entry': E.name, 'kind': kind, 'representation': rname, 'rep': [fmt, dtype, seed], 'graph': gdesc, 'aux': auxd}
        rec['counts'] += ['entry:' + E.name, 'format:' + fmt, 'dtype:' + dtype, 'kind:' + kind]
        rec['cases'].append(((E.name, rname, seed if 'unsorted' in fmt or 'dup' in fmt else 0, shape, flat, aux['variant']),
                             _differs_from_reference(a, rep, fmt, dtype),
                             {'entry': E.name, 'representation': rname, 'shape': list(shape)}))
        _modified(rec, sig, desc, rep, before, aux, aux2, made)
        if err or ref_err:
            if (err is None) != (ref_err is None) or err[0] != ref_err[0]:
                rec['fails'].append((dict(sig, clause='format'), desc, {
                    'why': 'raises on one representation only' if (err is None) != (ref_err is None) else 'raises another exception class',
                    'reference(csr float64)': ref_err, rname: err}))
            else:
                rec['counts'].append('both-raise:' + E.name)
                if err[1] != ref_err[1]:
                    rec['counts'].append('both-raise-other-message:' + E.name)
            continue
        if void:
            rec['counts'].append('leading-singular-value-multiple:' + E.name)
            continue
        tol = max(E.tol, F32_TOL) if dtype == 'float32' and E.tol > 0 else E.tol
        ok, skipped = same_result(E, ref, out, tol, degen)
        for s in skipped:
            rec['counts'].append(s)
        if not ok and E.tie_ok is not None and E.tie_ok(a, aux, ref, out, tol):
            rec['counts'].append('tie-skipped:' + E.name)
            continue
        if not ok:
            rec['fails'].append((dict(sig, clause='format'), desc, {'why': 'output differs from the CSR float64 reference',
                                                                   'which': _first_diff(E, ref, out, tol, degen)}))
    return rec


def top_singular_multiple(a):
    sv = np.linalg.svd(np.asarray(a.todense(), dtype=float), compute_uv=False)
    return len(sv) > 1 and abs(sv[0] - sv[1]) < 1e-6 * max(1.0, sv[0])


def same_result(E, ref, out, tol, degen):
    """(equal?, list of counters of what was not compared)"""
    skipped = []
    if E.norm_mask:
        # {'raw': fitted(normalized=False), 'normalized': fitted(normalized=True)}
        if not same_output(ref['raw'], out['raw'], tol, sign_free=E.sign_free, degenerate=degen):
            return False, skipped
        if degen:
            skipped.append('degenerate-spectrum:' + E.name)
        r2, o2 = dict(ref['normalized']), dict(out['normalized'])
        for k in list(r2):
            if ('embedding' in k) and r2[k] is not None and k in ref['raw'] and ref['raw'][k] is not None:
                nr = np.linalg.norm(_dense_arr(ref['raw'][k]), axis=1)
                no = np.linalg.norm(_dense_arr(out['raw'][k]), axis=1)
                big = max(float(nr.max(initial=0)), float(no.max(initial=0)))
                keep = (nr > NORM_MASK * big) & (no > NORM_MASK * big)
                if not keep.all():
                    skipped.append('ill-conditioned-normalised-rows:' + E.name)
                r2[k], o2[k] = _dense_arr(r2[k])[keep], _dense_arr(o2[k])[keep]
        return same_output(r2, o2, tol, sign_free=E.sign_free, degenerate=degen), skipped
    if E.sign_free and degen:
        skipped.append('degenerate-spectrum:' + E.name)
    return same_output(ref, out, tol, sign_free=E.sign_free, degenerate=degen), skipped


def _first_diff(E, ref, out, tol, degen):
    """name of the first part of the output that differs (same comparison as `same_result`)"""
    def walk(r, o, prefix):
        if isinstance(r, dict) and isinstance(o, dict):
            for k in r:
                if k not in o:
                    return prefix + k
                if isinstance(r[k], dict) and isinstance(o[k], dict):
                    w = walk(r[k], o[k], prefix + k + '.')
                    if w:
                        return w
                elif not same_output({k: r[k]}, {k: o[k]}, tol, sign_free=E.sign_free, degenerate=degen):
                    return prefix + k
            return None if r.keys() == o.keys() else prefix + 'keys'
        return None if same_output(r, o, tol) else prefix + 'value'
    return walk(ref, out, '') or 'normalised rows / whole'


def _case_rng(seed, name, t):
    h = hashlib.sha256(('%d|%s|%d' % (seed, name, t)).encode()).digest()
    return random.Random(int.from_bytes(h[:8], 'big'))


def _worker_init():
    """one OpenMP thread per worker: thread-count effects are property C16's subject (push_pagerank is racy)"""
    try:
        import ctypes
        ctypes.CDLL('libgomp.so.1').omp_set_num_threads(1)
    except Exception:  # noqa: best effort
        pass


def _task(args):
    """one (entry, graph number): worker-side; `only_rep` (None = all, -1 = reference only, k = k-th representation)
    is used to isolate a call that kills the interpreter"""
    if args[0] == '__replay__':
        return _replay_rec(args[1])
    seed, name, t = args[:3]
    only_rep = args[3] if len(args) > 3 else None
    E = _table()[name]
    rng = _case_rng(seed, name, t)
    kind = E.kinds[(t + seed) % len(E.kinds)]        # the seed rotates the kinds: the quick tier sees all of them over the seeds
    t0 = time.time()
    a = T.make_graph(rng, kind)
    aux = T.make_aux(rng, a, kind)
    if E.needs and aux.get(E.needs) is None:
        return {'entry': name, 'kind': kind, 'counts': ['skipped-no-%s:%s' % (E.needs, name)], 'cases': [], 'fails': [],
                'ref_raised': None, 'calls': 0, 'skipped': True, 'time': 0.0, 'reps': []}
    reps = T.choose_reps(a, rng, E.policy)
    if only_rep is not None:
        reps = [] if only_rep < 0 else reps[only_rep:only_rep + 1]
    rec = compare_case(E, a, aux, kind, reps)
    rec['time'] = time.time() - t0
    rec['reps'] = [r[0] for r in reps]
    if only_rep is not None:
        rec['desc'] = {'entry': name, 'kind': kind, 'graph': ser(a), 'aux': {k: ser(v) for k, v in aux.items()},
                       'all_reps': [list(r) for r in T.choose_reps(a, _skip_to_reps(seed, name, t, kind), E.policy)]}
    return rec


def _skip_to_reps(seed, name, t, kind):
    """the generator of (entry, graph) advanced to the point where the representations are drawn"""
    rng = _case_rng(seed, name, t)
    a = T.make_graph(rng, kind)
    T.make_aux(rng, a, kind)
    return rng


def _pool(workers):
    return concurrent.futures.ProcessPoolExecutor(max_workers=workers, mp_context=multiprocessing.get_context('fork'),
                                                  initializer=_worker_init)


def _kill(ex):
    for p in list((getattr(ex, '_processes', None) or {}).values()):
        try:
            p.terminate()
        except Exception:  # noqa
            pass
    ex.shutdown(wait=False, cancel_futures=True)


def _alone(args, deadline):
    """run one task in a process of its own: (record, None) or (None, 'died' | 'timeout')"""
    ex = _pool(1)
    try:
        return ex.submit(_task, args).result(timeout=max(1.0, min(120.0, deadline - time.time()))), None
    except concurrent.futures.process.BrokenProcessPool:
        return None, 'died'
    except concurrent.futures.TimeoutError:
        return None, 'timeout'
    finally:
        _kill(ex)


def _isolate(task, deadline):
    """a task whose worker died: which call kills the interpreter? The reference -> tool failure (the crash does not
    depend on the format); a representation only -> a failing input of the property"""
    ref, why = _alone(task + (-1,), deadline)
    if ref is None:
        raise ToolFailure('the interpreter %s in the reference (float64 CSR) call of entry %s, graph %d' % (why, task[1], task[2]))
    rec = ref
    for k, r in enumerate(ref['desc']['all_reps']):
        one, why = _alone(task + (k,), deadline)
        if one is not None:
            for key in ('counts', 'cases', 'fails'):
                rec[key] += [x for x in one[key] if key != 'cases' or x[0][1] != 'reference']
            rec['calls'] += one['calls'] - 1
            continue
        if why == 'timeout':
            raise ToolFailure('time-out in entry %s, graph %d, representation %s' % (task[1], task[2], r[0]))
        desc = dict(ref['desc'], representation=r[0], rep=r[1:])
        del desc['all_reps']
        rec['fails'].append(({'entry': task[1], 'representation': r[0], 'format': r[1], 'dtype': r[2], 'clause': 'format'}, desc,
                             {'why': 'the interpreter died (signal) on this representation; the float64 CSR reference call returns'}))
    return rec


def relation_cases(ctx, per_entry, sub=None, only=None, budget_s=None):
    """run `per_entry` graphs for every entry (in a pool of worker processes), merge in a fixed order"""
    tgt = sub or ctx
    names = [n for n in _table() if not only or n in only]
    tasks = [(ctx.seed, n, t) for n in names for t in range(per_entry)]
    workers = max(1, min(12, (os.cpu_count() or 4) - 2, len(tasks)))
    deadline = time.time() + (budget_s or (75 if ctx.quick else 780))
    recs, todo = {}, list(tasks)
    ex = _pool(workers)
    try:
        futs = [(a, ex.submit(_task, a)) for a in todo]
        broken = False
        for a, fu in futs:
            try:
                recs[a] = fu.result(timeout=max(1.0, deadline - time.time())) if not broken else fu.result(timeout=0)
            except concurrent.futures.TimeoutError:
                if not broken:
                    raise ToolFailure('time budget exhausted while waiting for entry %s graph %d' % (a[1], a[2]))
            except concurrent.futures.process.BrokenProcessPool:
                broken = True
            except concurrent.futures.CancelledError:
                pass
    finally:
        _kill(ex)
    rest = [a for a in tasks if a not in recs]
    if rest:
        # a worker died: re-run what is missing one task per process, then isolate the calls that kill it
        log('C01: a worker process died; re-running %d tasks in isolation' % len(rest))
        with concurrent.futures.ThreadPoolExecutor(max_workers=workers) as tex:
            for a, (rec, why) in zip(rest, tex.map(lambda x: _alone(x, deadline), rest)):
                if rec is not None:
                    recs[a] = rec
                elif why == 'timeout':
                    raise ToolFailure('time-out in entry %s, graph %d' % (a[1], a[2]))
        for a in [a for a in rest if a not in recs]:
            recs[a] = _isolate(a, deadline)
    from vlib import core as _core
    findings = _core.load_findings()
    stats, shown = {}, {}
    for a in tasks:
        rec = recs[a]
        st = stats.setdefault(rec['entry'], {'graphs': 0, 'reference_raises': 0, 'calls': 0, 'both_raise': 0, 'kinds': set(), 'time': 0.0,
                                             'error': None})
        if not rec.get('skipped'):
            st['graphs'] += 1
        st['calls'] += rec['calls']
        st['time'] += rec['time']
        st['kinds'].add(rec['kind'])
        if rec['ref_raised']:
            st['reference_raises'] += 1
            st['error'] = '%s: %s' % tuple(rec['ref_raised'])
        for c in rec['counts']:
            tgt.count(c)
            if c.startswith('both-raise:'):
                st['both_raise'] += 1
        for key, nontrivial, sample in rec['cases']:
            tgt.case(key, nontrivial, sample)
        for sig, desc, detail in rec['fails']:
            # at most three failing inputs per (entry, clause, argument) are reported; the rest is counted
            k = (sig['entry'], sig.get('clause'), sig.get('argument'))
            if _core.match_finding(findings, 'C01', sig) is None:       # inputs of a recorded finding do not use up the three places
                shown[k] = shown.get(k, 0) + 1
            if shown.get(k, 0) <= 3:
                tgt.spec_fail(sig, desc, detail)
            else:
                tgt.count('further-failing-inputs-not-listed:' + sig['entry'])
    return stats


def check_liveness(ctx, stats):
    """an entry whose reference call raises on every graph checks nothing: that is a failure of this tool"""
    dead = sorted(n for n, st in stats.items() if (st['graphs'] >= 2 and st['reference_raises'] == st['graphs']) or st['graphs'] == 0)
    for n in dead:
        if stats[n]['graphs'] == 0:
            stats[n]['error'] = 'no graph was run (the auxiliary argument it needs could not be built)'
    # share of the eigen / singular vector comparisons left out because the spectrum is genuinely multiple
    share = {}
    for n, st in stats.items():
        if _table()[n].spectrum is not None and st['calls'] > st['graphs']:
            share[n] = round(ctx.dist.get('degenerate-spectrum:' + n, 0) / (st['calls'] - st['graphs']), 3)
    ctx.extra['vectors_not_compared_share'] = share
    over = {n: v for n, v in share.items() if v > 0.5 and stats[n]['graphs'] >= 10}
    if over:
        raise ToolFailure('more than half of the eigen / singular vector comparisons were left out as degenerate: %s' % over)
    void = {n: '%d/%d' % (st['reference_raises'], st['graphs']) for n, st in stats.items() if st['reference_raises']}
    ctx.extra['entries'] = len(stats)
    ctx.extra['graphs_per_entry'] = PER_ENTRY[ctx.tier]
    ctx.extra['entries_by_policy'] = {p: sum(1 for e in _table().values() if e.policy == p) for p in ('all', 'csr', 'csr+dense', 'none')}
    ctx.extra['reference_raises'] = void
    ctx.extra['both_raise'] = {n: st['both_raise'] for n, st in stats.items() if st['both_raise']}
    ctx.extra['slowest_entries_s'] = {n: round(st['time'], 1) for n, st in sorted(stats.items(), key=lambda x: -x[1]['time'])[:5]}
    if dead:
        msg = 'entries whose reference (float64 CSR) call raises on every graph: ' + '; '.join('%s [%s]' % (n, stats[n]['error']) for n in dead)
        if ctx.spec_failures:
            ctx.note('TOOL PROBLEM (reported next to the violations): ' + msg)
            log('TOOL PROBLEM: ' + msg)
        else:
            raise ToolFailure(msg)


# ------------------------------------------------------------------------------------------------
# (1) container model against scipy / check_format
# ------------------------------------------------------------------------------------------------
def _enc_rows(rows):
    if not rows:
        return '_'
    return '|'.join((','.join('%d:%s' % (c, enc_rat(v)) for c, v in r) if r else '-') for r in rows)


def _num(v):
    """exact value of a stored entry (bool -> 0 / 1)"""
    from fractions import Fraction
    if isinstance(v, (bool, np.bool_)):
        return Fraction(int(v))
    if isinstance(v, (int, np.integer)):
        return Fraction(int(v))
    return Fraction(float(v))


def _csr_rows(m):
    return [[(int(m.indices[p]), _num(m.data[p])) for p in range(m.indptr[i], m.indptr[i + 1])] for i in range(m.shape[0])]


CONTAINER_DTYPES = {'float64': ('float', [1, 1, 2, 3, -1, 0.5, 0.25]), 'float32': ('float', [1, 2, 3, -1, 0.5]), 'bool': ('bool', [1]),
                    'int8': ('int8', [1, 2, 100, -100, 127, -128, 60]), 'uint8': ('uint8', [1, 2, 100, 200, 255]),
                    'int32': ('int32', [1, -3, 2 ** 31 - 1, -2 ** 31, 2 ** 30]), 'int64': ('int64', [1, -3, 2 ** 62, -2 ** 62, 2 ** 63 - 1])}


def _make_container(rng, fmt, dtype, nr, nc, pool):
    """a container with duplicate entries / unsorted indices where the format can hold them; returns (object, payload)"""
    npd = np.dtype(dtype)
    es = [(rng.randrange(nr), rng.randrange(nc), rng.choice(pool)) for _ in range(rng.randint(0, nr * nc + 2))]
    if es and rng.random() < 0.4:       # a duplicate of an existing position (sums, wraps, or cancels to a stored zero)
        r, c, v = rng.choice(es)
        es.append((r, c, -v if (dtype.startswith(('float', 'int')) and rng.random() < 0.4 and v != -2 ** 63 and v != -2 ** 31 and v != -128) else rng.choice(pool)))
    vals = np.array([v for _, _, v in es], dtype=npd) if es else np.zeros(0, dtype=npd)
    if fmt == 'coo':
        obj = sparse.coo_matrix((vals, (np.array([r for r, _, _ in es], dtype=int), np.array([c for _, c, _ in es], dtype=int))),
                                shape=(nr, nc)) if es else sparse.coo_matrix((nr, nc), dtype=npd)
        payload = ','.join('%d:%d:%s' % (r, c, enc_rat(_num(v))) for (r, c, _), v in zip(es, vals)) if es else '-'
        return obj, payload
    if fmt == 'dense':
        d = np.zeros((nr, nc), dtype=npd)
        for (r, c, _), v in zip(es, vals):
            d[r, c] = v
        return d, '|'.join(','.join(enc_rat(_num(x)) for x in row) for row in d)
    if fmt in ('csr', 'csc'):
        # stored arrays written directly: duplicates and any order of the indices are kept by scipy
        major = nr if fmt == 'csr' else nc
        lines = [[] for _ in range(major)]
        for (r, c, _), v in zip(es, vals):
            lines[r if fmt == 'csr' else c].append((c if fmt == 'csr' else r, v))
        indptr = np.cumsum([0] + [len(x) for x in lines])
        indices = np.array([k for x in lines for k, _ in x], dtype=np.int32)
        data = np.array([v for x in lines for _, v in x], dtype=npd) if es else np.zeros(0, dtype=npd)
        cls = sparse.csr_matrix if fmt == 'csr' else sparse.csc_matrix
        obj = cls((data, indices, indptr), shape=(nr, nc))
        return obj, _enc_rows([[(k, _num(v)) for k, v in x] for x in lines])
    # lil: one entry per position (the last one wins), in insertion = sorted order
    d = {}
    for (r, c, _), v in zip(es, vals):
        d[(r, c)] = v
    obj = sparse.lil_matrix((nr, nc), dtype=npd)
    for (r, c), v in d.items():
        if v != 0:
            obj[r, c] = v
    return obj, _enc_rows([[(int(c), _num(v)) for c, v in zip(obj.rows[i], obj.data[i])] for i in range(nr)])


def _ser_raw(obj):
    """the stored arrays of a container, as they are (order and duplicates kept)"""
    if isinstance(obj, np.ndarray):
        return {'fmt': 'dense', 'dtype': str(obj.dtype), 'shape': list(obj.shape), 'a': obj.tolist()}
    d = {'fmt': obj.format, 'dtype': str(obj.dtype), 'shape': list(obj.shape)}
    if obj.format in ('csr', 'csc'):
        d.update(data=obj.data.tolist(), indices=obj.indices.tolist(), indptr=obj.indptr.tolist())
    elif obj.format == 'coo':
        d.update(data=obj.data.tolist(), row=obj.row.tolist(), col=obj.col.tolist())
    else:
        d.update(rows=[list(map(int, r)) for r in obj.rows], data=[list(x) for x in obj.data.tolist()] if len(obj.data) else [])
    return d


def _deser_raw(d):
    dt, shape = np.dtype(d['dtype']), tuple(d['shape'])
    if d['fmt'] == 'dense':
        return np.array(d['a'], dtype=dt).reshape(shape)
    if d['fmt'] in ('csr', 'csc'):
        cls = sparse.csr_matrix if d['fmt'] == 'csr' else sparse.csc_matrix
        return cls((np.array(d['data'], dtype=dt), np.array(d['indices'], dtype=np.int32), np.array(d['indptr'], dtype=np.int32)), shape=shape)
    if d['fmt'] == 'coo':
        return sparse.coo_matrix((np.array(d['data'], dtype=dt), (np.array(d['row'], dtype=int), np.array(d['col'], dtype=int))), shape=shape)
    m = sparse.lil_matrix(shape, dtype=dt)
    for i, (r, x) in enumerate(zip(d['rows'], d['data'])):
        m.rows[i], m.data[i] = list(r), [dt.type(v) for v in x]
    return m


def _container_lines(obj, tok, fmt, nr, nc, payload, allow, dtype):
    """the cases of one container: check_format (the implementation) and, as the assumed contract of the external
    code, scipy's own csr_matrix(x) — a disagreement of the latter is a failure of this tool's model of scipy"""
    from sknetwork.utils.check import check_format

    def stored(conv):
        return lambda: 'ok ' + _enc_rows(_csr_rows(conv(obj)))

    def canonical(conv):
        def f():
            m = conv(obj).copy()
            m.sum_duplicates()
            m.sort_indices()
            m.eliminate_zeros()
            return 'ok ' + _enc_rows(_csr_rows(m))
        return f
    impl_conv = lambda o: check_format(o, allow_empty=True)
    jobs = [('c01.tocsr', 'check_format', stored(impl_conv), ''), ('c01.canon', 'check_format', canonical(impl_conv), ''),
            ('c01.check', 'check_format', lambda: 'ok ' + _enc_rows(_csr_rows(check_format(obj, allow_empty=allow))), ' %d' % allow),
            ('c01.tocsr', 'scipy.csr_matrix', stored(sparse.csr_matrix), ''), ('c01.canon', 'scipy.csr_matrix', canonical(sparse.csr_matrix), '')]
    out = []
    for cmd, entry, f, suffix in jobs:
        with warnings.catch_warnings():
            warnings.simplefilter('ignore')
            impl = call(f)
        run = '%s %s %s %d %d %s%s' % (cmd, tok, fmt, nr, nc, payload, suffix)
        nontrivial = obj.nnz > 0 if sparse.issparse(obj) else bool(np.any(obj))
        out.append(Case((cmd, entry, dtype, fmt, nr, nc, payload), {'entry': entry, 'format': fmt, 'dtype': dtype, 'line': cmd},
                        run, impl, None, nontrivial,
                        {'f': 'check_format', 'container': _ser_raw(obj), 'tok': tok, 'payload': payload, 'allow': int(allow), 'dtype': dtype}))
    return out


def container_cases(ctx, count):
    """the Lean model of check_format = sparse.csr_matrix(x), dtype included, against the implementation: the CSR rows as
    stored (order, duplicates), the canonical form (duplicates summed in the dtype, sorted, zeros dropped) and the
    refusal of an empty matrix, all exact"""
    rng = ctx.rng
    cases = []
    for t in range(count):
        nr, nc = rng.randint(1, 5), rng.randint(1, 5)
        fmt = rng.choice(['csr', 'csc', 'coo', 'lil', 'dense'])
        dtype = rng.choice(sorted(CONTAINER_DTYPES))
        tok, pool = CONTAINER_DTYPES[dtype]
        obj, payload = _make_container(rng, fmt, dtype, nr, nc, pool)
        cases += _container_lines(obj, tok, fmt, nr, nc, payload, rng.random() < 0.5, dtype)
        ctx.count('container:' + fmt)
        ctx.count('container-dtype:' + dtype)
    return cases


def evaluate_containers(ctx, cases):
    """run lines of part (1); the lines about scipy's own conversion are a contract: if they disagree, the model of the
    external code is out of date (tool failure), not the property"""
    n0 = len(ctx.run_disagreements)
    evaluate(ctx, cases)
    mine = [d for d in ctx.run_disagreements[n0:] if (d['sig'] or {}).get('entry') == 'scipy.csr_matrix']
    if mine:
        del ctx.run_disagreements[n0:]
        raise ToolFailure('the assumed contract of scipy moved: sparse.csr_matrix(x) no longer gives what Model/Container.lean says '
                          '(%d lines), e.g. %s -> model %s, scipy %s' % (len(mine), mine[0]['line'], mine[0]['model'], mine[0]['impl']))


# ------------------------------------------------------------------------------------------------
# (2) ownership programs generated from the working tree
# ------------------------------------------------------------------------------------------------
LEAN_MODULES = ['SkNet.Properties.C01']
EFFECTS_MAIN = """import SkNet.Generated.Effects
import SkNet.Generated.EffectsSelfTest
open SkNet.Own
def main : IO Unit := do
  for f in SkNet.Generated.Effects.fns do
    IO.println s!"fn {f.name} {f.ok}"
  for f in SkNet.Generated.EffectsSelfTest.fns do
    IO.println s!"test {f.name} {f.ok}"
"""
EFFECTS_CHECK = """/- generated: kernel check of the ownership obligations of this run and of the translator's regression tests -/
import SkNet.Generated.Effects
import SkNet.Generated.EffectsSelfTest
namespace SkNet.Generated.Effects
open SkNet.Own
%s
theorem all_ok : fns.all Fn.ok = true := by
  simp only [fns, List.all_append, %s, Bool.and_self]
end SkNet.Generated.Effects
namespace SkNet.Generated.EffectsSelfTest
open SkNet.Own
theorem expected : fns.map Fn.ok = %s := by
  simp only [fns, List.map_append, %s, List.append_eq, List.cons_append, List.nil_append]
end SkNet.Generated.EffectsSelfTest
"""


def generate(ctx):
    """translate the overlay copy of the working tree into ownership programs; run the translator's own tests"""
    import sys
    from vlib import core
    sys.path.insert(0, os.path.join(core.VERIF, 'tools', 'translate'))
    import effects
    failures = [k for k, v in effects.self_test().items() if not v]
    if failures:
        raise ToolFailure('a row of the translator\'s copy / view / in-place tables does not hold for this numpy / scipy: %s' % failures)
    table, fns = effects.analyse(ctx.overlay_root)
    if table.unparsed:
        raise ToolFailure('the translator could not read: %s' % table.unparsed)
    tests = effects.negative_test_fns()
    missing = [n for n, e, fn in tests if fn is None]
    if missing:
        raise ToolFailure('translator regression tests that did not lower: %s' % missing)
    gen = os.path.join(core.LEAN_DIR, 'SkNet', 'Generated')
    effects.emit(fns, os.path.join(gen, 'Effects.lean'))
    effects.emit([fn for n, e, fn in tests], os.path.join(gen, 'EffectsSelfTest.lean'), namespace='SkNet.Generated.EffectsSelfTest',
                 what='the regression tests of tools/translate/effects.py (NEGATIVE_TESTS)')
    unknown = {}
    for f in fns:
        for line, text in f.unknown_calls:
            unknown.setdefault(text, set()).add(f.qual)
    ctx.extra['effects_functions'] = len(fns)
    ctx.extra['effects_functions_from_pyx'] = sum(1 for f in fns if f.module in {g.module for g in fns} and _is_pyx(ctx.overlay_root, f.module))
    ctx.extra['effects_public'] = sum(1 for f in fns if f.public)
    ctx.extra['effects_public_list'] = sorted(f.qual for f in fns if f.public)
    ctx.extra['effects_exempted'] = [f.qual for f in fns if getattr(f, 'exempt', False)]
    ctx.extra['effects_declared_writes_of_internal_functions'] = {f.qual: [f.params[p] for p in sorted(f.writes) if p < len(f.params)]
                                                                  for f in fns if not f.public and f.writes}
    ctx.extra['effects_unknown_calls'] = {k: sorted(v) for k, v in sorted(unknown.items())}
    ctx.extra['effects_calls_resolved_by_method_name_only'] = table.unresolved
    ctx.extra['effects_table_selftest'] = {'assertions': len(effects.self_test()), 'failures': failures}
    ctx.extra['effects_regression_tests'] = {'total': len(tests), 'must_be_rejected': sum(1 for n, e, fn in tests if e is False),
                                             'must_be_accepted': sum(1 for n, e, fn in tests if e is True)}
    ctx._effects = (effects, fns, tests)


def _effects_check(n_fns, expected, chunk=40):
    """one kernel-decided lemma per chunk of the generated table (a single `decide` on 400+ programs is too deep)"""
    k1 = max(1, (n_fns + chunk - 1) // chunk)
    lem1 = '\n'.join('theorem ok%d : fns%d.all Fn.ok = true := by decide +kernel' % (i, i) for i in range(k1))
    k2 = max(1, (len(expected) + chunk - 1) // chunk)
    exp = lambda xs: '[' + ', '.join('true' if e else 'false' for e in xs) + ']'
    lem2 = '\n'.join('theorem exp%d : fns%d.map Fn.ok = %s := by decide +kernel' % (i, i, exp(expected[i * chunk:(i + 1) * chunk])) for i in range(k2))
    text = EFFECTS_CHECK % (lem1, ', '.join('ok%d' % i for i in range(k1)), exp(expected), ', '.join('exp%d' % i for i in range(k2)))
    return text.replace('theorem expected', lem2 + '\ntheorem expected')


def _is_pyx(root, module):
    return os.path.exists(os.path.join(root, module.replace('.', '/') + '.pyx'))


def ownership_obligations(ctx):
    from vlib import core
    effects, fns, tests = ctx._effects
    ok, out = core.lake_build(['SkNet.Generated.Effects', 'SkNet.Generated.EffectsSelfTest'])
    if not ok:
        raise ToolFailure('generated Effects.lean does not build:\n' + out[-3000:])
    d = os.path.join(core.CACHE, 'drivers')
    os.makedirs(d, exist_ok=True)
    mainf = os.path.join(d, 'EffectsMain.lean')
    open(mainf, 'w').write(EFFECTS_MAIN)
    rc, so, se = core.lean_file(mainf, run=True)
    if rc != 0:
        raise ToolFailure('EffectsMain failed: ' + se[-2000:])
    res, tres = {}, {}
    for ln in so.strip().split('\n'):
        if ln:
            kind, rest = ln.split(' ', 1)
            name, val = rest.rsplit(' ', 1)
            (res if kind == 'fn' else tres)[name] = (val == 'true')
    # the translator's regression tests, decided by the same Lean check: a pattern that overwrites caller data must be rejected
    wrong = [n for n, expect, fn in tests if tres.get(n) != expect]
    if wrong:
        raise ToolFailure('translator regression tests with the wrong Lean verdict (expected / got): %s' %
                          [(n, e, tres.get(n)) for n, e, fn in tests if n in wrong])
    bad = sorted(k for k, v in res.items() if not v)
    ctx.extra['generated_obligations'] = len(res) + len(tres)
    ctx.extra['generated_discharged'] = len(res) - len(bad) + len(tres)
    byq = {f.qual: f for f in fns}
    for name in bad:
        fn = byq.get(name)
        params = [fn.params[p] for p in sorted(fn.writes) if p < len(fn.params)] if fn else []
        ctx.broken('Generated.Effects: Fn.ok "%s"' % name,
                   'the ownership program of %s may write its argument(s) %s: %s' % (name, params, effects.why(fn) if fn else ''),
                   sig={'obligation': 'ownership', 'function': name})
    if not bad:
        # kernel confirmation of the whole table and of the regression tests
        text = _effects_check(len(fns), [e for n, e, fn in tests])
        chk = os.path.join(core.LEAN_DIR, 'SkNet', 'Generated', 'EffectsCheck.lean')
        if not os.path.exists(chk) or open(chk).read() != text:
            open(chk, 'w').write(text)
        ok, out = core.lake_build(['SkNet.Generated.EffectsCheck'])
        if not ok:
            ctx.extra['generated_discharged'] = 0
            ctx.broken('Generated.EffectsCheck.all_ok', out[-1500:])
    return bad


def consumer_instances(ctx):
    """`Properties/C01Consumers.lean` (RespectsDenote instances about the models of C02, C05, C10, C11, C14) is built and
    audited apart from the property file: when one of those models changes, the instances are reported as stale — a
    maintenance message, loud in the evidence and on stderr — and the C01 check itself still runs"""
    from vlib import core
    res = core.audit(['SkNet.Properties.C01Consumers'], [])
    if res['problems']:
        msg = 'Properties/C01Consumers.lean does not build / audit against the current models of the other properties: ' + \
              str(res['problems'])[:1500]
        ctx.extra['consumer_instances'] = {'built': False, 'problems': res['problems']}
        ctx.note('STALE: ' + msg)
        log('C01 WARNING (not a verdict): ' + msg)
        return
    ctx.extra['consumer_instances'] = {'built': True, 'theorems': res['theorems'], 'axioms': sorted({a for v in res['axioms'].values() for a in v})}
    ctx.extra['generated_obligations'] = ctx.extra.get('generated_obligations', 0) + res['obligations']
    ctx.extra['generated_discharged'] = ctx.extra.get('generated_discharged', 0) + res['discharged']


def run(ctx):
    corpus_cases(ctx)
    evaluate_containers(ctx, container_cases(ctx, CONTAINERS[ctx.tier]))
    ownership_obligations(ctx)
    consumer_instances(ctx)
    stats = relation_cases(ctx, PER_ENTRY[ctx.tier])
    check_liveness(ctx, stats)


def corpus_cases(ctx):
    """witnesses of the repaired defects (corpus/C01.jsonl) are replayed first"""
    import json
    from vlib import core
    p = os.path.join(core.VERIF, 'corpus', 'C01.jsonl')
    if not os.path.exists(p):
        return
    n = 0
    for ln in open(p):
        ln = ln.strip()
        if ln and not ln.startswith('#'):
            replay_case(ctx, json.loads(ln)['case'])
            n += 1
    ctx.extra['corpus_cases'] = n


def _replay_rec(case):
    E = _table().get(case['entry'])
    if E is None:
        raise ToolFailure('replay: unknown entry %r' % case['entry'])
    a = sparse.csr_matrix(deser(case['graph'])).astype(float)
    a.sum_duplicates()
    a.sort_indices()
    aux = {k: deser(v) for k, v in case['aux'].items()}
    fmt, dtype, seed = case['rep']
    reps = [] if (fmt, dtype) == ('csr', 'float64') else [(case['representation'], fmt, dtype, seed)]
    rec = compare_case(E, a, aux, case.get('kind', '?'), reps)
    rec['time'] = 0.0
    return rec


def replay_case(tgt, case):
    """re-run exactly the recorded graph, arguments and representation (in a process of its own: the recorded
    input may be one that kills the interpreter)"""
    rec, why = _alone(('__replay__', case), time.time() + 120)
    if rec is None:
        # does the reference alone survive?
        ref, why0 = _alone(('__replay__', dict(case, rep=['csr', 'float64', 0])), time.time() + 120)
        if ref is None:
            raise ToolFailure('replay: the interpreter %s in the reference call of %s' % (why0, case['entry']))
        fmt, dtype = case['rep'][:2]
        tgt.case(('replay', case['entry'], case['representation']), True, None)
        tgt.spec_fail({'entry': case['entry'], 'representation': case['representation'], 'format': fmt, 'dtype': dtype, 'clause': 'format'},
                      case, {'why': 'the interpreter %s on this representation; the float64 CSR reference call returns' % why})
        return None
    for c in rec['counts']:
        tgt.count(c)
    for key, nontrivial, sample in rec['cases']:
        tgt.case(key, nontrivial, sample)
    for sig, desc, detail in rec['fails']:
        tgt.spec_fail(sig, desc, detail)
    return rec


def search(ctx, pending):
    """a broken obligation / correspondence: look for a concrete failing input of the statement itself"""
    sub = Sub(ctx)
    names = set()
    for kind, sig, obj in pending:
        fnname = (sig or {}).get('function', '')
        for e in _table():
            cls = e.split('(')[0].split('.')[0]
            if cls and ('.' + cls + '.' in fnname or fnname.endswith('.' + cls)):
                names.add(e)
    if any((sig or {}).get('entry') == 'check_format' for kind, sig, obj in pending):
        # check_format no longer does what its model says: look for the consequence on the statement, through the entry
        # points that rely on it most directly
        names |= {'check_format', 'get_adjacency', 'get_adjacency_values', 'get_degrees', 'PageRank(piteration)', 'Louvain(dugue)',
                  'get_distances', 'count_triangles', 'Diffusion'}
    if names:
        relation_cases(ctx, 9, sub=sub, only=names, budget_s=120)
    return sub.found()


def replay(ctx, payload):
    case = payload.get('case') or {}
    if case.get('entry') and case.get('graph') is not None and case.get('rep'):
        replay_case(ctx, case)
    elif case.get('f') == 'check_format' and case.get('container'):
        # re-run check_format on the recorded container (stored arrays as they were) against the model
        obj = _deser_raw(case['container'])
        fmt = case['container']['fmt']
        evaluate_containers(ctx, _container_lines(obj, case['tok'], fmt, obj.shape[0], obj.shape[1], case['payload'], bool(case['allow']),
                                                  case['dtype']))
    else:
        # a broken generated obligation: re-decide the obligations on the current tree
        ownership_obligations(ctx)
