"""C01 — results do not depend on the container format; inputs are never modified.

 (1) `run` lines: the Lean model of the ingestion step (SkNet/Model/Container.lean: sparse.csr_matrix(x) for
     CSR / CSC / COO / LIL / dense input with bool / int / float entries, explicit zeros, duplicates, unsorted
     indices) against scipy + check_format: canonical CSR compared exactly.
 (2) generated obligations: tools/translate/effects.py turns every public function / method of the working
     tree into an ownership program (Generated/Effects.lean); `safe` is decided through the driver and
     kernel-checked (`by decide`) — theorem `ownership_sound` says a safe program leaves caller cells alone.
 (3) the statement on the implementation: every public entry point is called on one graph in all its
     documented representations and the outputs compared (within round-off); every argument is snapshotted
     before and compared after the call.
"""
import copy
import inspect
import warnings

import numpy as np
from scipy import sparse

from vlib import graphs
from vlib.cases import Case, Sub, call, evaluate
from vlib.core import enc_list, enc_ratlist, enc_rat, ToolFailure

RULE = ('entry points: every public estimator and matrix-taking function of ranking, clustering, hierarchy, embedding, '
        'classification, regression, linkpred, gnn, path, topology, visualization (table in _entries); representations: '
        'CSR float (reference), CSC, COO (with split duplicate entries), LIL, dense ndarray, CSR bool / int when the '
        'weights allow, CSR with shuffled column indices (explicit stored zeros are not among the representations the property lists and are not generated); graphs: structured random undirected, '
        'directed and bipartite graphs n<=12 (quick 6 per entry point, thorough 40); non-trivial = the graph has an edge '
        'and the representation differs from the reference; distinct = distinct (entry, graph, representation)')
ASSUMPTIONS = ['round-off: float64 outputs within 1e-8, float32 kernels within 5e-5, iterative solvers within 5e-6; '
               'numpy global RNG re-seeded before every call (KCenters and the layouts draw from it); eigen / singular vectors compared up to one sign per component; SVG strings compared after normalising numeric literals',
               'sort_indices on a caller CSR is the one tolerated in-place effect (property text)',
               'functions annotated sparse.csr_matrix only are exercised on CSR variants (dtype, unsorted, explicit zeros)']


# ------------------------------------------------------------------------------------------------
# representations
# ------------------------------------------------------------------------------------------------
def representations(a, rng, policy):
    """name -> object denoting the same graph as the canonical float CSR `a`."""
    a = sparse.csr_matrix(a).astype(float)
    a.sort_indices()
    reps = {}
    reps['csr_unsorted'] = graphs.unsorted_copy(a, rng)
    z = a.tolil()
    dense = a.toarray()
    integral = np.all(a.data == np.round(a.data))
    if integral:
        reps['csr_int'] = a.astype(int)
        if a.nnz and 0 <= a.data.min() and a.data.max() < 128:
            reps['csr_int8'] = a.astype(np.int8)
    if np.all(a.data == 1):
        reps['csr_bool'] = a.astype(bool)
    if policy == 'all':
        reps['csc'] = a.tocsc()
        coo = a.tocoo()
        # split one entry into two duplicates that sum to it (COO semantics: duplicates add)
        if coo.nnz and integral and coo.data.max() >= 2:
            k = int(np.argmax(coo.data))
            data = np.append(coo.data, 1.0)
            data[k] -= 1.0
            coo = sparse.coo_matrix((data, (np.append(coo.row, coo.row[k]), np.append(coo.col, coo.col[k]))), shape=a.shape)
        reps['coo'] = coo
        reps['lil'] = z
        reps['dense'] = dense.copy()
        if integral:
            reps['dense_int'] = dense.astype(int)
    return reps


# ------------------------------------------------------------------------------------------------
# snapshots
# ------------------------------------------------------------------------------------------------
def snapshot(x):
    if sparse.issparse(x):
        fmt = x.format
        if fmt in ('csr', 'csc'):
            return ('sp', fmt, x.shape, str(x.dtype), x.indptr.copy(), x.indices.copy(), x.data.copy())
        if fmt == 'coo':
            return ('sp', fmt, x.shape, str(x.dtype), x.row.copy(), x.col.copy(), x.data.copy())
        return ('sp', fmt, x.shape, str(x.dtype), copy.deepcopy(x.rows), copy.deepcopy(x.data))
    if isinstance(x, np.ndarray):
        return ('nd', x.shape, str(x.dtype), x.copy())
    if isinstance(x, dict):
        return ('dict', list(x.items()))
    if isinstance(x, list):
        return ('list', copy.deepcopy(x))
    return ('other', repr(x))


def _eq(a, b):
    if isinstance(a, np.ndarray) and isinstance(b, np.ndarray):
        if a.dtype == object or b.dtype == object:
            return len(a) == len(b) and all(_eq(x, y) for x, y in zip(a, b))
        if a.dtype.kind in 'US' or b.dtype.kind in 'US':
            return a.shape == b.shape and bool(np.all(a == b))
        return a.shape == b.shape and np.array_equal(a, b, equal_nan=(a.dtype.kind == 'f' and b.dtype.kind == 'f'))
    if isinstance(a, (list, tuple)) and isinstance(b, (list, tuple)):
        return len(a) == len(b) and all(_eq(x, y) for x, y in zip(a, b))
    return a == b


def same_snapshot(s1, s2, allow_sorted=False):
    if s1[0] != s2[0]:
        return False
    if s1[0] == 'sp' and s1[1] == 'csr' and allow_sorted and not _eq(s1, s2):
        # sort_indices is tolerated: same matrix with each row's entries in sorted order
        if s1[1:4] != s2[1:4] or not _eq(s1[4], s2[4]):
            return False
        ip = s1[4]
        for i in range(len(ip) - 1):
            lo, hi = ip[i], ip[i + 1]
            o = np.argsort(s1[5][lo:hi], kind='stable')
            if not (_eq(s1[5][lo:hi][o], s2[5][lo:hi]) and _eq(s1[6][lo:hi][o], s2[6][lo:hi])):
                return False
        return True
    return _eq(s1, s2)


# ------------------------------------------------------------------------------------------------
# output comparison
# ------------------------------------------------------------------------------------------------
_ELEM = __import__('re').compile(r'<[^>]*>[^<]*')
_NUM = __import__('re').compile(r'-?\d+\.?\d*(?:e-?\d+)?')


def _svg_norm(s):
    return _NUM.sub(lambda m: '%.6g' % float(m.group(0)), s)


def same_upto_sign(x, y, tol):
    """columns equal up to one sign each (eigen / singular vectors)"""
    x, y = np.asarray(x, dtype=float), np.asarray(y, dtype=float)
    if x.shape != y.shape:
        return False
    if x.ndim != 2:
        return bool(np.allclose(x, y, atol=tol, rtol=tol) or np.allclose(x, -y, atol=tol, rtol=tol))
    return all(np.allclose(x[:, j], y[:, j], atol=tol, rtol=tol) or np.allclose(x[:, j], -y[:, j], atol=tol, rtol=tol)
               for j in range(x.shape[1]))


SIGN_FREE = ('Spectral', 'SVD', 'GSVD', 'PCA', 'HITS')


def spectrum_degenerate(a, k=4):
    """eigen / singular vectors are comparable only if the leading values (a few beyond those returned) are simple"""
    d = np.asarray(a.todense(), dtype=float)
    mats = [d]
    r, c = d.sum(axis=1), d.sum(axis=0)
    with np.errstate(divide='ignore', invalid='ignore'):
        ri = np.where(r > 0, 1 / np.sqrt(np.abs(r)), 0.0)
        ci = np.where(c > 0, 1 / np.sqrt(np.abs(c)), 0.0)
    mats.append(ri[:, None] * d * ci[None, :])
    mats.append(d - d.mean(axis=0, keepdims=True))
    for m in mats:
        sv = np.linalg.svd(m, compute_uv=False)
        top = sv[:k + 1]
        if len(top) > 1 and np.min(np.abs(np.diff(top))) < 1e-6 * max(1.0, top[0]):
            return True
    return False


def same_output(x, y, tol, sign_free=False, degenerate=False):
    if sign_free and isinstance(x, dict) and isinstance(y, dict):
        if x.keys() != y.keys():
            return False
        # eigen / singular vectors are defined up to sign only when the values are simple
        for vk in ('eigenvalues_', 'singular_values_'):
            v = x.get(vk)
            if v is not None and len(np.atleast_1d(v)) > 1:
                vs = np.sort(np.abs(np.atleast_1d(v)))
                if np.min(np.diff(vs)) < 1e-5 * max(1.0, vs[-1]):
                    degenerate = True
        for k in x:
            if ('embedding' in k or 'vectors' in k) and x[k] is not None and y[k] is not None:
                if degenerate:
                    continue
                if not same_upto_sign(_dense_arr(x[k]), _dense_arr(y[k]), tol):
                    return False
            elif k == 'regularization_' or 'solver' in k:
                continue
            elif not same_output(x[k], y[k], tol):
                return False
        return True
    if isinstance(x, str) and isinstance(y, str) and x.startswith('<svg'):
        # the same elements, whatever the order the stored edges were visited in
        ex = sorted(_ELEM.findall(_svg_norm(x)))
        ey = sorted(_ELEM.findall(_svg_norm(y)))
        return ex == ey
    if x is None or y is None:
        return x is None and y is None
    if sparse.issparse(x) or sparse.issparse(y):
        if not (sparse.issparse(x) and sparse.issparse(y)) or x.shape != y.shape:
            return False
        return same_output(np.asarray(x.todense(), dtype=float), np.asarray(y.todense(), dtype=float), tol)
    if isinstance(x, (np.ndarray, np.generic)) or isinstance(y, (np.ndarray, np.generic)):
        x, y = np.asarray(x), np.asarray(y)
        if x.shape != y.shape:
            return False
        if x.dtype.kind in 'OUS' or y.dtype.kind in 'OUS':
            return all(same_output(a, b, tol) for a, b in zip(x.ravel().tolist(), y.ravel().tolist()))
        return bool(np.allclose(x.astype(float), y.astype(float), atol=tol, rtol=tol, equal_nan=True))
    if isinstance(x, (tuple, list)) and isinstance(y, (tuple, list)):
        return len(x) == len(y) and all(same_output(a, b, tol) for a, b in zip(x, y))
    if isinstance(x, dict) and isinstance(y, dict):
        return x.keys() == y.keys() and all(same_output(x[k], y[k], tol) for k in x)
    if isinstance(x, float) or isinstance(y, float):
        return bool(np.isclose(float(x), float(y), atol=tol, rtol=tol, equal_nan=True))
    return x == y


def _dense_arr(v):
    return np.asarray(v.todense()) if sparse.issparse(v) else np.asarray(v)


def fitted(est):
    """public fitted attributes of an estimator"""
    out = {}
    for k, v in vars(est).items():
        if k.endswith('_') and not k.startswith('_'):
            out[k] = v
    return out


# ------------------------------------------------------------------------------------------------
# entry points
# ------------------------------------------------------------------------------------------------
def _entries():
    """name -> (kind of graph, policy, tolerance, f(matrix, aux) -> output)
       kind: 'und' (symmetric), 'dir', 'bip' (rectangular), 'und_conn' (connected symmetric)"""
    import sknetwork as skn
    from sknetwork import ranking, clustering, hierarchy, embedding, classification, regression, linkpred, gnn, path, \
        topology, visualization
    E = {}

    def est(name, mk, kind='und', tol=1e-8, fitkw=None, policy='all'):
        def f(m, aux, mk=mk, fitkw=fitkw):
            e = mk()
            kw = {k: aux[v] for k, v in (fitkw or {}).items()}     # the caller's own objects: snapshotted around the call
            e.fit(m, **kw)
            return fitted(e), kw
        E[name] = (kind, policy, tol, f)

    def fun(name, f0, kind='und', tol=1e-8, policy='csr'):
        def f(m, aux, f0=f0):
            return f0(m, aux), {}
        E[name] = (kind, policy, tol, f)

    # ranking
    for s, tol in (('piteration', 1e-8), ('RH', 1e-8), ('diteration', 5e-5), ('push', 5e-5), ('lanczos', 5e-6), ('bicgstab', 5e-6)):
        est('PageRank(%s)' % s, lambda s=s: ranking.PageRank(solver=s, n_iter=40), 'dir', tol)
    est('PageRank(seeds)', lambda: ranking.PageRank(), 'und', 1e-8, {'weights': 'weights'})
    est('Katz', lambda: ranking.Katz(), 'dir')
    est('HITS', lambda: ranking.HITS(), 'bip', 1e-6)
    est('Closeness', lambda: ranking.Closeness(), 'und_conn')
    est('Betweenness', lambda: ranking.Betweenness(), 'und', 5e-5)
    # clustering
    for mod in ('dugue', 'newman', 'potts'):
        est('Louvain(%s)' % mod, lambda mod=mod: clustering.Louvain(modularity=mod, shuffle_nodes=False, random_state=0), 'und', 5e-5)
        est('Leiden(%s)' % mod, lambda mod=mod: clustering.Leiden(modularity=mod, shuffle_nodes=False, random_state=0), 'und', 5e-5)
    for cname, ctor in (('Louvain', clustering.Louvain), ('Leiden', clustering.Leiden)):
        est('%s(aggregate only)' % cname, lambda ctor=ctor: ctor(shuffle_nodes=False, random_state=0, return_probs=False, return_aggregate=True), 'und', 5e-5)
        est('%s(aggregate only,directed)' % cname, lambda ctor=ctor: ctor(shuffle_nodes=False, random_state=0, return_probs=False, return_aggregate=True), 'dir', 5e-5)
        est('%s(unsorted,res=0.5)' % cname, lambda ctor=ctor: ctor(shuffle_nodes=False, random_state=0, sort_clusters=False, resolution=0.5, return_aggregate=True), 'dir', 5e-5)
        est('%s(bipartite,aggregate only)' % cname, lambda ctor=ctor: ctor(shuffle_nodes=False, random_state=0, return_probs=False, return_aggregate=True), 'bip', 5e-5)
    est('PropagationClustering(aggregate only)', lambda: clustering.PropagationClustering(return_probs=False, return_aggregate=True), 'und', 5e-5)
    est('Louvain(directed)', lambda: clustering.Louvain(shuffle_nodes=False, random_state=0), 'dir', 5e-5)
    est('Louvain(bipartite)', lambda: clustering.Louvain(shuffle_nodes=False, random_state=0), 'bip', 5e-5)
    est('PropagationClustering', lambda: clustering.PropagationClustering(), 'und', 5e-5)
    est('KCenters', lambda: clustering.KCenters(n_clusters=2, center_position='row'), 'und', 5e-5)
    fun('get_modularity', lambda m, aux: clustering.get_modularity(m, aux['partition']), 'dir', 1e-10, 'all')
    # hierarchy
    est('Paris', lambda: hierarchy.Paris(), 'und', 1e-8)
    est('LouvainHierarchy', lambda: hierarchy.LouvainHierarchy(shuffle_nodes=False, random_state=0), 'und', 5e-5)
    est('LouvainIteration', lambda: hierarchy.LouvainIteration(shuffle_nodes=False, random_state=0), 'und', 5e-5)
    fun('dasgupta_cost', lambda m, aux: hierarchy.dasgupta_cost(m, aux['dendrogram']), 'und', 1e-9)
    fun('tree_sampling_divergence', lambda m, aux: hierarchy.tree_sampling_divergence(m, aux['dendrogram']), 'und', 1e-9)
    # embedding
    est('Spectral', lambda: embedding.Spectral(2), 'und_conn', 1e-6)
    est('SVD', lambda: embedding.SVD(2), 'bip', 1e-6)
    est('GSVD', lambda: embedding.GSVD(2), 'bip', 1e-6)
    est('PCA', lambda: embedding.PCA(2), 'bip', 1e-6)
    est('RandomProjection', lambda: embedding.RandomProjection(2, random_state=3), 'und', 1e-8)
    est('LouvainEmbedding', lambda: embedding.LouvainEmbedding(shuffle_nodes=False, random_state=0), 'bip', 5e-5, policy='csr')
    est('Spring', lambda: embedding.Spring(2, n_iter=5), 'und', 1e-6, {'position_init': 'position'})
    est('ForceAtlas', lambda: embedding.ForceAtlas(2, n_iter=5), 'und', 1e-6, {'pos_init': 'position'})
    # classification / regression / linkpred
    est('Propagation', lambda: classification.Propagation(n_iter=8), 'und', 5e-5, {'labels': 'labels'})
    est('Propagation(weighted,array)', lambda: classification.Propagation(n_iter=8, weighted=True), 'und', 5e-5, {'labels': 'labels_array'})
    est('DiffusionClassifier', lambda: classification.DiffusionClassifier(), 'und', 1e-8, {'labels': 'labels'})
    est('NNClassifier', lambda: classification.NNClassifier(n_neighbors=2), 'und', 1e-6, {'labels': 'labels'})
    est('PageRankClassifier', lambda: classification.PageRankClassifier(), 'und', 5e-6, {'labels': 'labels'})
    est('Diffusion', lambda: regression.Diffusion(), 'dir', 1e-8, {'values': 'values'})
    est('Dirichlet', lambda: regression.Dirichlet(), 'und', 1e-8, {'values': 'values_array'})
    est('NNLinker', lambda: linkpred.NNLinker(n_neighbors=2), 'und', 1e-6)
    # gnn
    est('GNNClassifier', lambda: gnn.GNNClassifier(dims=[4, 2], random_state=1, verbose=False), 'und', 1e-6,
        {'features': 'features', 'labels': 'labels_array', 'n_epochs': 'n_epochs'})
    # path
    fun('get_distances', lambda m, aux: path.get_distances(m, source=aux['sources']), 'dir', 0)
    fun('get_shortest_path', lambda m, aux: path.get_shortest_path(m, source=aux['sources']), 'dir', 0)
    fun('breadth_first_search', lambda m, aux: sorted(path.breadth_first_search(m, aux['sources'][0]).tolist()), 'dir', 0)
    fun('get_dag', lambda m, aux: path.get_dag(m, order=aux['order']), 'dir', 0)
    # topology
    fun('count_triangles', lambda m, aux: topology.count_triangles(m), 'und', 0)
    fun('count_triangles(parallel)', lambda m, aux: topology.count_triangles(m, parallelize=True), 'und', 0)
    fun('count_cliques', lambda m, aux: topology.count_cliques(m, 3), 'und', 0)
    fun('get_core_decomposition', lambda m, aux: topology.get_core_decomposition(m), 'und', 0)
    fun('get_clustering_coefficient', lambda m, aux: topology.get_clustering_coefficient(m), 'und', 1e-12)
    fun('color_weisfeiler_lehman', lambda m, aux: topology.color_weisfeiler_lehman(m), 'und', 0, 'all')
    fun('are_isomorphic', lambda m, aux: topology.are_isomorphic(m, sparse.csr_matrix(m)), 'und', 0)
    fun('get_connected_components', lambda m, aux: _canon_labels(topology.get_connected_components(m)), 'dir', 0)
    fun('is_connected', lambda m, aux: topology.is_connected(m), 'dir', 0)
    fun('get_largest_connected_component', lambda m, aux: topology.get_largest_connected_component(m, return_index=True), 'dir', 0)
    fun('is_bipartite', lambda m, aux: topology.is_bipartite(m), 'und', 0)
    fun('is_acyclic', lambda m, aux: topology.is_acyclic(m), 'dir', 0)
    fun('get_cycles', lambda m, aux: sorted(sorted(map(int, c)) for c in topology.get_cycles(m)), 'dir', 0)
    fun('break_cycles', lambda m, aux: topology.break_cycles(m, root=0), 'dir', 0)
    # visualization
    fun('visualize_graph', lambda m, aux: visualization.visualize_graph(m, position=aux['position'], labels=aux['labels_array']), 'und', 0)
    fun('visualize_graph(names)', lambda m, aux: visualization.visualize_graph(m, position=aux['position'], names=aux['names'], display_edge_weight=True), 'dir', 0)
    fun('visualize_bigraph', lambda m, aux: visualization.visualize_bigraph(m), 'bip', 0)
    return E


def _canon_labels(l):
    l = list(map(int, l))
    first = {}
    return [first.setdefault(x, len(first)) for x in l]


def _aux(rng, a):
    n, m = a.shape
    k = rng.randint(1, min(3, n))
    part = np.array([rng.randrange(3) for _ in range(n)])
    labs = {}
    pick = rng.sample(range(n), min(n, 3))
    for t, i in enumerate(pick):
        labs[int(i)] = t % 2
    la = -np.ones(n, dtype=int)
    for i, v in labs.items():
        la[i] = v
    vals = {int(i): float(rng.choice([0, 1, 3])) for i in rng.sample(range(n), min(n, 2))}
    va = -np.ones(n)
    for i, v in vals.items():
        va[i] = v
    w = np.array([rng.choice([0.0, 1.0, 2.0]) for _ in range(n)])
    if w.sum() == 0:
        w[0] = 1.0
    npr = np.random.default_rng(rng.randrange(10 ** 6))
    dend = None
    if n == m and n >= 2:
        from sknetwork.hierarchy import Paris
        try:
            sym = sparse.csr_matrix(a + a.T)
            if sym.nnz:
                with warnings.catch_warnings():
                    warnings.simplefilter('ignore')
                    dend = Paris().fit_predict(sym)
        except Exception:  # noqa
            dend = None
    return {'sources': sorted(rng.sample(range(n), k)), 'partition': part, 'labels': labs, 'labels_array': la,
            'values': vals, 'values_array': va, 'weights': w, 'order': np.array([rng.randint(-1, n) for _ in range(n)]),
            'position': npr.random((n, 2)), 'features': npr.random((n, 3)), 'n_epochs': 3,
            'names': np.array(['n%d' % i for i in range(n)]), 'dendrogram': dend}


def _graph(rng, kind):
    for _ in range(50):
        if kind in ('und', 'und_conn'):
            n = rng.randint(4, 11)
            k = rng.choice(['path', 'cycle', 'star', 'grid', 'blocks', 'random_undirected', 'clique'] if kind == 'und_conn'
                           else graphs.UNDIRECTED_KINDS[:-1])
            es = graphs.structured(rng, k, n)
            w = graphs.sym_weights(rng, es, rng.choice([[1], [1], [1, 2, 3]]))
            a = graphs.csr_from_edges(n, es, w)
            if kind == 'und_conn':
                from scipy.sparse.csgraph import connected_components
                if connected_components(a, directed=False)[0] != 1:
                    continue
        elif kind == 'dir':
            n = rng.randint(4, 10)
            es = graphs.structured(rng, rng.choice(graphs.DIRECTED_KINDS), n)
            a = graphs.csr_from_edges(n, es, [1 for _ in es] if rng.random() < 0.5 else [rng.choice([1, 1, 2, 3]) for _ in es])
        else:
            nr, nc = rng.randint(3, 7), rng.randint(3, 7)
            if nr == nc:
                nc += 1
            es = graphs.random_edges(rng, nr, 0.5, m=nc)
            a = graphs.csr_from_edges(nr, es, [1 for _ in es] if rng.random() < 0.5 else [rng.choice([1, 1, 2]) for _ in es], m=nc)
            if a.nnz and (np.diff(a.indptr).min() == 0 or np.diff(a.tocsc().indptr).min() == 0):
                continue
        if a.nnz >= 3:
            return a
    return a


def relation_cases(ctx, per_entry, sub=None, only=None):
    tgt = sub or ctx
    rng = ctx.rng
    E = _entries()
    for name, (kind, policy, tol, f) in E.items():
        if only and name not in only:
            continue
        for t in range(per_entry):
            a = _graph(rng, kind)
            aux = _aux(rng, a)
            if name in ('dasgupta_cost', 'tree_sampling_divergence') and aux['dendrogram'] is None:
                continue
            with warnings.catch_warnings():
                warnings.simplefilter('ignore')
                try:
                    np.random.seed(12345)
                    ref, _ = f(sparse.csr_matrix(a, copy=True), aux)
                    ref_err = None
                except Exception as e:  # noqa
                    ref, ref_err = None, type(e).__name__ + ': ' + str(e)[:100]
            degen = name.startswith(SIGN_FREE) and spectrum_degenerate(a)
            gdesc = {'shape': list(a.shape), 'dense': a.toarray().tolist()}
            auxd = {k: (v.tolist() if hasattr(v, 'tolist') else v) for k, v in aux.items()}
            for rname, rep in representations(a, rng, policy).items():
                before = snapshot(rep)
                aux2 = copy.deepcopy(aux)
                with warnings.catch_warnings():
                    warnings.simplefilter('ignore')
                    try:
                        np.random.seed(12345)
                        out, kw = f(rep, aux2)
                        err = None
                    except Exception as e:  # noqa
                        out, kw, err = None, {}, type(e).__name__ + ': ' + str(e)[:100]
                after = snapshot(rep)
                sig = {'entry': name, 'representation': rname}
                desc = {'entry': name, 'representation': rname, 'graph': gdesc, 'aux': auxd}
                key = (name, rname, tuple(a.shape), tuple(a.toarray().ravel().tolist()))
                tgt.count('entry:' + name)
                tgt.count('representation:' + rname)
                tgt.case(key, True, {'entry': name, 'representation': rname, 'shape': list(a.shape)})
                # (a) the caller's objects
                if not same_snapshot(before, after, allow_sorted=True):
                    tgt.spec_fail(dict(sig, clause='input-modified'), desc, {'why': 'the matrix passed by the caller was modified'})
                for k in aux:
                    if not same_snapshot(snapshot(aux[k]), snapshot(aux2[k])):
                        tgt.spec_fail(dict(sig, clause='input-modified', argument=k), desc,
                                      {'why': 'argument %s was modified by the call' % k})
                # (b) same result
                if err or ref_err:
                    if (err is None) != (ref_err is None) or (err or '').split(':')[0] != (ref_err or '').split(':')[0]:
                        tgt.spec_fail(dict(sig, clause='format'), desc, {'why': 'raises on one representation only',
                                                                         'reference(csr float)': ref_err, rname: err})
                    continue
                if not same_output(ref, out, tol, sign_free=name.startswith(SIGN_FREE), degenerate=degen):
                    tgt.spec_fail(dict(sig, clause='format'), desc, {'why': 'output differs from the CSR float reference',
                                                                     'which': _first_diff(ref, out, tol)})


def _first_diff(ref, out, tol):
    if isinstance(ref, dict) and isinstance(out, dict):
        for k in ref:
            if k not in out or not same_output(ref[k], out[k], tol):
                return k
        return 'keys'
    return 'value'


# ------------------------------------------------------------------------------------------------
# (1) container model against scipy / check_format
# ------------------------------------------------------------------------------------------------
def _enc_rows(rows):
    if not rows:
        return '_'
    return '|'.join((','.join('%d:%s' % (c, enc_rat(v)) for c, v in r) if r else '-') for r in rows)


def _csr_rows(m):
    return [[(int(m.indices[p]), float(m.data[p])) for p in range(m.indptr[i], m.indptr[i + 1])] for i in range(m.shape[0])]


def container_cases(ctx, count):
    from sknetwork.utils.check import check_format
    rng = ctx.rng
    cases = []
    for t in range(count):
        nr, nc = rng.randint(1, 5), rng.randint(1, 5)
        pool = [1, 1, 2, 3, -1, 0.5, True]
        fmt = rng.choice(['csr', 'csc', 'coo', 'lil', 'dense'])
        es = [(rng.randrange(nr), rng.randrange(nc), rng.choice(pool)) for _ in range(rng.randint(0, nr * nc))]
        if fmt == 'coo':
            # duplicates allowed (they add); sometimes cancelling to an explicit zero
            if es and rng.random() < 0.3:
                r, c, v = es[0]
                es.append((r, c, -v))
            obj = sparse.coo_matrix((np.array([float(v) for _, _, v in es]), (np.array([r for r, _, _ in es], dtype=int), np.array([c for _, c, _ in es], dtype=int))), shape=(nr, nc)) if es else sparse.coo_matrix((nr, nc))
            payload = ','.join('%d:%d:%s' % (r, c, enc_rat(float(v))) for r, c, v in es) if es else '-'
        elif fmt == 'dense':
            d = np.zeros((nr, nc))
            for r, c, v in es:
                d[r, c] = float(v)
            obj = d
            payload = '|'.join(','.join(enc_rat(x) for x in row) for row in d.tolist())
        else:
            d = {}
            for r, c, v in es:
                d[(r, c)] = float(v)
            base = sparse.csr_matrix((nr, nc))
            if d:
                base = sparse.csr_matrix((list(d.values()), ([k[0] for k in d], [k[1] for k in d])), shape=(nr, nc))
            if fmt == 'csr':
                obj = graphs.unsorted_copy(base, rng) if rng.random() < 0.6 else base
                payload = _enc_rows(_csr_rows(obj))
            elif fmt == 'lil':
                obj = base.tolil()
                payload = _enc_rows([[(int(c), float(v)) for c, v in zip(obj.rows[i], obj.data[i])] for i in range(nr)])
            else:
                obj = base.tocsc()
                payload = _enc_rows([[(int(obj.indices[p]), float(obj.data[p])) for p in range(obj.indptr[j], obj.indptr[j + 1])] for j in range(nc)])

        def f():
            m = check_format(obj, allow_empty=True).copy()
            m.sum_duplicates()
            m.sort_indices()
            m.eliminate_zeros()
            return 'ok ' + _enc_rows(_csr_rows(m))
        impl = call(f)
        run = 'c01.canon %s %d %d %s' % (fmt, nr, nc, payload)
        cases.append(Case(('canon', fmt, nr, nc, payload), {'entry': 'check_format', 'format': fmt}, run, impl, None, bool(es),
                          {'f': 'check_format', 'line': run}))
        ctx.count('container:' + fmt)
    return cases


# ------------------------------------------------------------------------------------------------
# (2) ownership programs generated from the working tree
# ------------------------------------------------------------------------------------------------
LEAN_MODULES = ['SkNet.Properties.C01']
EFFECTS_MAIN = """import SkNet.Generated.Effects
open SkNet.Own SkNet.Generated.Effects
def main : IO Unit := do
  for f in fns do
    IO.println s!"{f.name} {f.ok}"
"""
EFFECTS_CHECK = """/- generated: kernel check of the ownership obligations of this run -/
import SkNet.Generated.Effects
namespace SkNet.Generated.Effects
open SkNet.Own
theorem all_ok : fns.all Fn.ok = true := by decide +kernel
end SkNet.Generated.Effects
"""


def generate(ctx):
    """translate the overlay copy of the working tree into ownership programs"""
    import os
    import sys
    from vlib import core
    sys.path.insert(0, os.path.join(core.VERIF, 'tools', 'translate'))
    import effects
    table, fns = effects.analyse(ctx.overlay_root)
    gen = os.path.join(core.LEAN_DIR, 'SkNet', 'Generated')
    effects.emit(fns, os.path.join(gen, 'Effects.lean'))
    ctx.extra['effects_functions'] = len(fns)
    ctx.extra['effects_public'] = sum(1 for f in fns if f.public)
    ctx.extra['effects_exempted'] = [f.qual for f in fns if getattr(f, 'exempt', False)]
    ctx.extra['effects_table_selftest_failures'] = [k for k, v in effects.self_test().items() if not v]
    ctx._effects = (effects, fns)


def ownership_obligations(ctx):
    import os
    from vlib import core
    effects, fns = ctx._effects
    ok, out = core.lake_build(['SkNet.Generated.Effects'])
    if not ok:
        raise ToolFailure('generated Effects.lean does not build:\n' + out[-3000:])
    d = os.path.join(core.CACHE, 'drivers')
    os.makedirs(d, exist_ok=True)
    mainf = os.path.join(d, 'EffectsMain.lean')
    open(mainf, 'w').write(EFFECTS_MAIN)
    rc, so, se = core.lean_file(mainf, run=True)
    if rc != 0:
        raise ToolFailure('EffectsMain failed: ' + se[-2000:])
    res = {}
    for ln in so.strip().split('\n'):
        if ln:
            name, val = ln.rsplit(' ', 1)
            res[name] = (val == 'true')
    bad = sorted(k for k, v in res.items() if not v)
    ctx.extra['generated_obligations'] = len(res)
    ctx.extra['generated_discharged'] = len(res) - len(bad)
    byq = {f.qual: f for f in fns}
    for name in bad:
        fn = byq.get(name)
        params = [fn.params[p] for p in sorted(fn.writes) if p < len(fn.params)] if fn else []
        ctx.broken('Generated.Effects: Fn.ok "%s"' % name,
                   'the ownership program of %s may write its argument(s) %s' % (name, params),
                   sig={'obligation': 'ownership', 'function': name})
    if not bad:
        # kernel confirmation of the whole table
        chk = os.path.join(core.LEAN_DIR, 'SkNet', 'Generated', 'EffectsCheck.lean')
        if not os.path.exists(chk) or open(chk).read() != EFFECTS_CHECK:
            open(chk, 'w').write(EFFECTS_CHECK)
        ok, out = core.lake_build(['SkNet.Generated.EffectsCheck'])
        if not ok:
            ctx.extra['generated_discharged'] = 0
            ctx.broken('Generated.EffectsCheck.all_ok', out[-1500:])
    return bad


def run(ctx):
    evaluate(ctx, container_cases(ctx, 400 if ctx.quick else 4000))
    ownership_obligations(ctx)
    relation_cases(ctx, 3 if ctx.quick else 30)


def search(ctx, pending):
    """a broken obligation / correspondence: look for a concrete failing input of the statement itself"""
    sub = Sub(ctx)
    only = None
    names = set()
    for kind, sig, obj in pending:
        fnname = (sig or {}).get('function', '')
        for e in _entries():
            cls = e.split('(')[0]
            if cls and ('.' + cls + '.' in fnname or fnname.endswith('.' + cls)):
                names.add(e)
    relation_cases(ctx, 8, sub=sub, only=names or None)
    if not sub.spec_failures and names:
        relation_cases(ctx, 3, sub=sub)
    return sub.found()


def replay(ctx, payload):
    case = payload.get('case') or {}
    if case.get('entry'):
        relation_cases(ctx, 12, only={case['entry']})
    else:
        run(ctx)
