"""C19 — GNN layers compute the documented message passing and consistent gradients.

Correspondence: every case calls the real code (overlay build of /repo's working tree) and sends
  run  line -> the Lean model (SkNet/Model/Gnn.lean, executed at float64) computes the answer from the same
               input; floats travel as IEEE-754 bit patterns and are compared within TOL in Python
               (integers, errors and structure exactly)
  spec line -> the Lean specification (SkNet/Spec/Gnn.lean: sigma(N(A) X W + b) entry by entry, J^T d from the
               Jacobians, soft-max minus one-hot, a maximiser below the output dimension, rows summing to 1,
               sampled row = sublist of size min(deg, k)) evaluated on the implementation's own output
  contract  -> np.random.choice(size, k, replace=False) returned k distinct positions below size
Theorems (SkNet/Properties/C19.lean) tie model, specification and the real derivatives for every input.
"""
import itertools
import json
import os
import struct
import warnings

import numpy as np
from scipy import sparse

from vlib import graphs
from vlib.cases import Case, Sub, evaluate as _evaluate
from vlib.core import enc_list, enc_listlist, dec_list

TOL = 1e-9          # DESIGN section 8: float64 paths, |x - y| <= TOL * (1 + |y|)
FD_TOL = 1e-5       # central finite differences (failing-input search / consistency oracle only)

RULE = ('Convolution.forward on all digraphs n<=2 (loops) and n=3 (loop-free: all 64 in both tiers; with loops: sampled quick, '
        'all thorough), structured random weighted graphs n<=10, rectangular biadjacencies; per graph the 32 triples '
        '(normalisation {left,right,both,none} x self_embeddings x activation) are enumerated for n<=2 (and for n=3 in the '
        'thorough tier) and 6 of them sampled otherwise, and for each triple ONE adjacency container (csr, unsorted csr, csr with '
        'duplicates incl. cancelling pairs, csc, coo, lil, bool/int/int32/uint8/float32 dtype, dense, and the refused csr_array / '
        'np.matrix / dok), one feature container '
        '(dense, csr, csc, coo, lil, int), bias, 1..4 channels and the construction path (Convolution, get_layer, sage, loss as '
        'activation) are SAMPLED, not crossed; every square case again under a random renumbering; activation outputs/gradients '
        'and loss values/gradients on random signals (zeros, ties, large values, labels out of range, too many / one label) x 1..5 '
        'channels; predictions on outputs with ties and with no channel; neighbour sampler on random CSR (explicit zeros, '
        'unsorted) handed over as csr/csc/coo/lil/dense/duplicates x sample sizes, draws recorded from np.random.choice; '
        'GNNClassifier fits (conv/sage/mixed per-layer lists or layers=[...] objects with activation / loss objects, 1-2 layers, CE/BCE, 1..3 channels, every adjacency and feature '
        'container, dict/array labels, validation 0/0.3/0.5, early stopping, n_epochs 0..6, normalizations incl. None, Adam/GD) '
        'checked through the adjacencies the fit itself used (_sample_nodes recorded), forward, labels_, predict_proba, a '
        'second fit with the same random_state and a refit with reinit=True; layer / loss / normalisation name tables. '
        'Non-trivial = the graph has an edge and the answer is not an error; distinct = distinct (entry, inputs, options)')
ASSUMPTIONS = ['numpy / scipy products, special.expit and special.softmax are the substrate (monitored through the outputs)',
               'np.random.choice(size, k, replace=False) returns k distinct positions below size (contract line per call, on the recorded draws)',
               'floating-point rounding: model and implementation are compared within 1e-9*(1+|x|), never bitwise',
               'readings of the property text taken from the code and pinned by theorems, not by an outside definition: all three '
               'normalisations divide by the ROW sums (right: A D^-1 with D = diag(A 1), column-stochastic only for symmetric A); the '
               'self-embedding is added after normalising (N(A) + I, not N(A + I)); a node of weight 0 gets the pseudo-inverse 0; '
               "normalisation 'both' is specified for non-negative row weights (the code returns NaN rows otherwise, not generated)",
               'the sampler works on the neighbours of the denoted matrix (duplicates summed, zeros dropped: repaired) and gives every kept entry weight 1 (weights are not kept)',
               'container independence is observed (every container through the real code against the model on the denotation the '
               'harness computes), the Lean theorems about containers are facts about that denotation',
               'seed determinism (second fit, reinit refit) is observed only; the theorem is C16\'s']


# ----------------------------------------------------------------------------------------------
# encoding
# ----------------------------------------------------------------------------------------------
def fbits(x):
    return struct.unpack('<Q', struct.pack('<d', float(x)))[0]


def bits_f(b):
    return struct.unpack('<d', struct.pack('<Q', int(b)))[0]


def enc_flat(a):
    a = np.asarray(a, dtype=float).ravel()
    return ','.join(str(fbits(v)) for v in a) if a.size else '-'


def enc_dense(m):
    m = np.asarray(m, dtype=float)
    if m.ndim == 1:
        m = m.reshape(1, -1)
    return 'd:%d:%d:%s' % (m.shape[0], m.shape[1], enc_flat(m))


def enc_csr(m):
    m = sparse.csr_matrix(m) if not sparse.issparse(m) or m.format != 'csr' else m
    return 's:%d:%d:%s:%s:%s' % (m.shape[0], m.shape[1], enc_list(m.indptr), enc_list(m.indices), enc_flat(m.data))


def enc_any(m):
    """dense ndarray / np.matrix -> dense token; anything sparse -> CSR token of the same stored entries"""
    if sparse.issparse(m):
        if m.format == 'csr':
            return enc_csr(sparse.csr_matrix((np.asarray(m.data, dtype=float), m.indices, m.indptr), shape=m.shape))
        return enc_csr(sparse.csr_matrix(m).astype(float))
    return enc_dense(np.asarray(m, dtype=float))


def enc_out(m):
    m = np.asarray(m, dtype=float)
    return '%d:%d:%s' % (m.shape[0], m.shape[1], enc_flat(m))


def dec_out(tok):
    r, c, flat = tok.split(':')
    r, c = int(r), int(c)
    vals = [] if flat == '-' else [bits_f(x) for x in flat.split(',')]
    return np.array(vals, dtype=float).reshape(r, c)


def close(x, y):
    x = np.asarray(x, dtype=float)
    y = np.asarray(y, dtype=float)
    if x.shape != y.shape:
        return False
    with np.errstate(invalid='ignore'):
        ok = (np.isnan(x) & np.isnan(y)) | (x == y) | (np.abs(x - y) <= TOL * (1 + np.abs(y)))
    return bool(ok.all())


def tolist(m):
    return np.asarray(m, dtype=float).tolist()


def numeric_matrix(o, strict=False):
    """The implementation returned a real 2-d float array?  (`strict`: exactly an np.ndarray, as documented)"""
    if sparse.issparse(o):
        return None
    if strict and type(o) is not np.ndarray:
        return None
    try:
        a = np.asarray(o)
    except Exception:
        return None
    if a.dtype == object or a.ndim != 2:
        return None
    return a.astype(float)


def call(f):
    try:
        with warnings.catch_warnings():
            warnings.simplefilter('ignore')
            return f()
    except (ValueError, IndexError, TypeError, KeyError, ZeroDivisionError, AttributeError, NotImplementedError) as e:
        return 'err ' + type(e).__name__


def container_token(obj):
    """What `check_format` sees: type(x) in {csr_matrix, csc_matrix, coo_matrix, lil_matrix, np.ndarray}."""
    t = type(obj)
    return {sparse.csr_matrix: 'csr', sparse.csc_matrix: 'csc', sparse.coo_matrix: 'coo', sparse.lil_matrix: 'lil',
            np.ndarray: 'ndarray'}.get(t, 'other')


# ----------------------------------------------------------------------------------------------
# Convolution.forward
# ----------------------------------------------------------------------------------------------
NORMS = ['left', 'right', 'both', 'none']
ACTS = ['identity', 'relu', 'sigmoid', 'softmax']
ACT_OF_LOSS = {'CrossEntropy': 'softmax', 'BinaryCrossEntropy': 'sigmoid'}


def make_layer(norm, se, act, c, W, b, via='conv'):
    from sknetwork.gnn.layer import Convolution, get_layer
    kw = dict(out_channels=c, use_bias=b is not None, normalization=norm, self_embeddings=se)
    if act in ACT_OF_LOSS:
        kw['loss'] = act
    else:
        kw['activation'] = act
    if via == 'sage':
        layer = get_layer('sage', **kw)      # forces left normalisation and self embeddings
    elif via == 'get_layer':
        layer = get_layer('Conv', **kw)
    else:
        layer = Convolution('conv', **kw)
    layer.weight = np.array(W, dtype=float)
    layer.bias = None if b is None else np.array(b, dtype=float).reshape(1, -1)
    layer.weights_initialized = True
    return layer


def with_duplicates(a_csr, rng):
    """The same matrix as a CSR with un-summed duplicates: a stored entry v becomes v/2 + v/2, or (v+1) + (-1), and
    cancelling pairs (+1, -1) are stored at positions where the matrix has no entry (a non-edge)."""
    a = a_csr.tocoo()
    rows, cols, data = [], [], []
    for i, j, v in zip(a.row.tolist(), a.col.tolist(), a.data.tolist()):
        kind = rng.choice(['halves', 'plus-minus', 'single'])
        if kind == 'halves':
            parts = [v / 2, v / 2]
        elif kind == 'plus-minus' and float(v + 1) - 1 == v:
            parts = [v + 1, -1.0]
        else:
            parts = [v]
        for q in parts:
            rows.append(i), cols.append(j), data.append(q)
    n, m = a_csr.shape
    present = set(zip(a.row.tolist(), a.col.tolist()))
    for _ in range(rng.randint(0, 2)):
        if n and m:
            i, j = rng.randrange(n), rng.randrange(m)
            if (i, j) not in present:
                rows += [i, i]
                cols += [j, j]
                data += [1.0, -1.0]
    rows, cols, data = np.array(rows, dtype=int), np.array(cols, dtype=int), np.array(data, dtype=float)
    order = np.lexsort((cols, rows)) if len(rows) else np.array([], dtype=int)
    indptr = np.zeros(n + 1, dtype=int)
    if len(rows):
        np.add.at(indptr, rows + 1, 1)
    return sparse.csr_matrix((data[order], cols[order], np.cumsum(indptr)), shape=a_csr.shape)


def adjacency_in_format(a_csr, fmt, rng):
    if fmt == 'csr':
        return a_csr.copy()
    if fmt == 'unsorted':
        return graphs.unsorted_copy(a_csr, rng)
    if fmt == 'dup':
        return with_duplicates(a_csr, rng)
    if fmt == 'csc':
        return a_csr.tocsc()
    if fmt == 'coo':
        return a_csr.tocoo()
    if fmt == 'lil':
        return a_csr.tolil()
    if fmt == 'dense':
        return a_csr.toarray()
    if fmt == 'bool':
        return a_csr.astype(bool)           # callers use it on 0/1 weights only
    if fmt == 'int':
        return a_csr.astype(np.int64)       # callers use it on integer weights only
    if fmt in ('float32', 'uint8', 'int32'):
        return a_csr.astype({'float32': np.float32, 'uint8': np.uint8, 'int32': np.int32}[fmt])
    if fmt == 'csr_array':
        return sparse.csr_array(a_csr)
    if fmt == 'np_matrix':
        return np.matrix(a_csr.toarray())
    if fmt == 'dok':
        return a_csr.todok()
    raise ValueError(fmt)


REFUSED_FMTS = ('csr_array', 'np_matrix', 'dok')


def usable_format(a_csr, fmt):
    """dtype variants only where they denote the same matrix"""
    if fmt == 'bool':
        return bool((a_csr.data == 1).all())
    if fmt in ('int', 'int32'):
        return bool((a_csr.data == np.round(a_csr.data)).all())
    if fmt == 'uint8':
        return bool(((a_csr.data == np.round(a_csr.data)) & (a_csr.data >= 0) & (a_csr.data < 256)).all())
    if fmt == 'float32':
        return bool((a_csr.data.astype(np.float32).astype(float) == a_csr.data).all())
    return True


def features_in_format(X, fmt):
    X = np.array(X, dtype=float)
    if fmt == 'dense':
        return X
    if fmt == 'int':
        return X.astype(np.int64) if (X == np.round(X)).all() else X
    if fmt == 'np_matrix':
        return np.matrix(X)
    m = sparse.csr_matrix(X)
    if fmt == 'csr_array':
        return sparse.csr_array(m)
    return {'csr': m, 'csc': m.tocsc(), 'coo': m.tocoo(), 'lil': m.tolil()}[fmt]


def forward_cases(ctx, a_csr, X, W, b, norm, se, act, afmt='csr', xfmt='dense', via='conv', tag='forward', history=None):
    """Cases for one call of a layer.  `a_csr` float csr, X dense ndarray, W (d x c), b list or None."""
    rng = ctx.rng
    c = np.asarray(W).shape[1]
    if not usable_format(a_csr, afmt):
        afmt = 'csr'
    A_in = adjacency_in_format(a_csr, afmt, rng)
    X_in = features_in_format(X, xfmt)
    eff_norm, eff_se = ('left', True) if via == 'sage' else (norm, se)
    eff_act = ACT_OF_LOSS.get(act, act)
    desc = {'kind': 'forward', 'adjacency': tolist(a_csr.toarray()), 'features': tolist(X), 'weight': tolist(W),
            'bias': None if b is None else [float(v) for v in b], 'normalization': norm, 'self_embeddings': bool(se),
            'activation': act, 'adjacency_format': afmt, 'features_format': xfmt, 'via': via}
    kind = container_token(A_in)
    sig = {'entry': 'Convolution.forward', 'adjacency': afmt, 'normalization': eff_norm}

    seen = {}

    # history of the layer object: half of the calls are made on a layer that has already been called on ANOTHER graph
    # of the same shape (a weighted directed cycle with a chord) — a layer answers for the graph it is given
    if history is None:
        history = 'called-before-on-another-graph' if (rng.random() < 0.5 and a_csr.shape[0] == a_csr.shape[1] and a_csr.shape[0] >= 1) else 'fresh'
    desc['history'] = history
    ctx.count('forward:history:' + history)

    def f():
        layer = make_layer(norm, se, act, c, W, b, via)
        if history != 'fresh' and a_csr.shape[0] >= 1:
            k = a_csr.shape[0]
            other = np.roll(np.eye(k), 1, axis=1) * 2.0
            other[0, k // 2] += 3.0
            try:
                layer(sparse.csr_matrix(other), X_in)
            except Exception:      # noqa: BLE001 - the call that is judged comes next
                pass
        out = layer(A_in, X_in)
        emb = np.asarray(layer.embedding, dtype=float)
        seen['embedding_max'] = float(np.abs(emb).max()) if emb.size else 0.0
        m = numeric_matrix(out, strict=True)
        if m is None:
            return 'err not-a-float-ndarray'
        if not np.array_equal(np.asarray(layer.output, dtype=float), m, equal_nan=True):
            return 'err output-attribute-differs'
        return 'ok ' + enc_out(m)
    impl = call(f)
    a_tok = enc_any(A_in)
    x_tok = enc_any(X_in)
    w_tok = enc_dense(W)
    b_tok = '_' if b is None else enc_flat(b)
    args = '%s %s %s %s %s %s %s' % (eff_norm, '1' if eff_se else '0', eff_act, a_tok, x_tok, w_tok, b_tok)
    run = 'c19.forward %s %s' % (kind, args)
    spec = None
    if impl.startswith('ok ') and eff_act == 'softmax' and not seen.get('embedding_max', 0.0) < 500:
        # the textbook soft-max of the specification overflows at float64 beyond exp(709): the run line (scipy's
        # shifted form, equal over the reals by softmax_shift_invariant) judges this case alone
        ctx.count('forward:softmax-spec-skipped-overflow')
    elif impl.startswith('ok '):
        spec = 'c19.spec_forward %s d:%s' % (args, impl[3:])
    elif kind != 'other' and a_csr.shape[1] == X.shape[0] and X.shape[1] == np.asarray(W).shape[0] and \
            (eff_norm in ('left', 'none') or a_csr.shape[0] == a_csr.shape[1]):
        # an accepted container and fitting shapes: the documented output exists, the layer must return it
        spec = 'c19.spec_forward %s d:0:0:-' % args
    nontriv = a_csr.nnz > 0 and impl.startswith('ok')
    key = (tag, a_tok, x_tok, w_tok, b_tok, eff_norm, eff_se, eff_act, afmt, xfmt, via, history)
    return [Case(key, sig, run, impl, spec, nontriv, desc)]


def rand_matrix(rng, r, c, mode='normal'):
    if mode == 'int':
        return np.array([[rng.randint(-3, 3) for _ in range(c)] for _ in range(r)], dtype=float).reshape(r, c)
    if mode == 'dyadic':
        return np.array([[rng.randint(-32, 32) / 8 for _ in range(c)] for _ in range(r)], dtype=float).reshape(r, c)
    return np.array([[rng.gauss(0, 1) for _ in range(c)] for _ in range(r)], dtype=float).reshape(r, c)


def rand_weights(rng, k, mode):
    if mode == 'ones':
        return [1.0] * k
    if mode == 'int':
        return [float(rng.choice([1, 2, 3, 5])) for _ in range(k)]
    if mode == 'dyadic':
        return [rng.choice([0.5, 0.25, 1.5, 2, 1, 3]) for _ in range(k)]
    if mode == 'signed':
        return [float(rng.choice([1, 2, 3, -1, 4])) for _ in range(k)]
    return [abs(rng.gauss(1, 0.5)) + 0.01 for _ in range(k)]


def mk_adj(n, es, w, m=None):
    m = n if m is None else m
    if not es:
        return sparse.csr_matrix((n, m), dtype=float)
    a = sparse.csr_matrix((np.asarray(w, dtype=float), ([e[0] for e in es], [e[1] for e in es])), shape=(n, m))
    a.sum_duplicates()
    a.sort_indices()
    return a


def permuted(a_csr, X, perm):
    """renumber: new node perm[i] is old node i"""
    n = a_csr.shape[0]
    p = sparse.csr_matrix((np.ones(n), (np.asarray(perm), np.arange(n))), shape=(n, n))
    a2 = (p @ a_csr @ p.T).tocsr()
    a2.sort_indices()
    return a2, np.asarray(p @ X)


def forward_grid(ctx, a_csr, rng, full, tag='forward', afmts=('csr',), equivariance=True):
    """The option grid for one graph."""
    n_row, n_col = a_csr.shape
    out = []
    combos = list(itertools.product(NORMS, [False, True], ACTS))
    if not full:
        combos = rng.sample(combos, 6)
    negative_row = bool(a_csr.nnz) and bool((np.asarray(a_csr.sum(axis=1)).ravel() < 0).any())
    for norm, se, act in combos:
        if negative_row and norm == 'both':
            # outside InDomain: the square root of a negative row weight is NaN, and scipy's sparse product keeps NaN on
            # stored entries only (a dense product spreads it) - not described by the model
            ctx.count('forward:skipped-both-negative-row-weight')
            continue
        d = rng.randint(1, 3)
        c = rng.randint(1, 4)
        X = rand_matrix(rng, n_col, d, rng.choice(['normal', 'int', 'dyadic']))
        W = rand_matrix(rng, d, c, rng.choice(['normal', 'dyadic']))
        b = None if rng.random() < 0.3 else [rng.choice([0.0, 0.5, -1.0, rng.gauss(0, 1)]) for _ in range(c)]
        afmt = rng.choice(afmts)
        xfmt = rng.choice(FEATURE_FMTS)
        via = 'conv'
        r = rng.random()
        if r < 0.08:
            via = 'sage'
        elif r < 0.16:
            via = 'get_layer'
        if rng.random() < 0.12 and act in ('softmax', 'sigmoid'):
            act = 'CrossEntropy' if act == 'softmax' else 'BinaryCrossEntropy'
        out += forward_cases(ctx, a_csr, X, W, b, norm, se, act, afmt, xfmt, via, tag)
        ctx.count('forward:%s:%s' % (norm, 'self' if se else 'noself'))
        if equivariance and n_row == n_col and n_row > 1 and afmt not in REFUSED_FMTS:
            out += equivariance_check(ctx, a_csr, X, W, b, norm, se, act, via, rng)
    return out


def equivariance_check(ctx, a_csr, X, W, b, norm, se, act, via, rng):
    """forward(P A P^T, P X) = P forward(A, X) on the implementation (metamorphic; a failure is a failing input),
    and the renumbered input as a further correspondence case."""
    n = a_csr.shape[0]
    perm = list(range(n))
    rng.shuffle(perm)
    a2, X2 = permuted(a_csr, X, perm)
    c = np.asarray(W).shape[1]

    def f(a, x):
        o = numeric_matrix(make_layer(norm, se, act, c, W, b, via)(a, x))
        return o
    o1 = call(lambda: f(a_csr, X))
    o2 = call(lambda: f(a2, X2))
    eff_norm = 'left' if via == 'sage' else norm
    sig = {'entry': 'Convolution.forward', 'check': 'renumbering', 'normalization': eff_norm}
    desc = {'kind': 'equivariance', 'adjacency': tolist(a_csr.toarray()), 'features': tolist(X), 'weight': tolist(W),
            'bias': None if b is None else [float(v) for v in b], 'normalization': norm, 'self_embeddings': bool(se),
            'activation': act, 'via': via, 'perm': perm}
    ctx.count('equivariance')
    if isinstance(o1, str) or isinstance(o2, str) or o1 is None or o2 is None:
        if not (isinstance(o1, str) and isinstance(o2, str) and o1 == o2):
            ctx.spec_fail(sig, desc, {'plain': str(o1), 'renumbered': str(o2)})
        return []
    want = np.zeros_like(o1)
    want[np.asarray(perm)] = o1
    if not close(o2, want):
        ctx.spec_fail(sig, desc, {'plain_then_permuted': tolist(want), 'renumbered': tolist(o2)})
    return forward_cases(ctx, a2, X2, W, b, norm, se, act, 'csr', 'dense', via, tag='forward-renumbered')


# ----------------------------------------------------------------------------------------------
# activations and losses
# ----------------------------------------------------------------------------------------------
def rand_signal(rng, n, c, mode):
    S = rand_matrix(rng, n, c, 'normal' if mode in ('normal', 'large') else mode)
    if mode == 'large':
        S = S * 12
    if mode in ('int', 'dyadic') or rng.random() < 0.3:
        # exact zeros and ties
        for _ in range(max(1, n * c // 4)):
            S[rng.randrange(n), rng.randrange(c)] = 0.0
        if c > 1:
            i = rng.randrange(n)
            S[i, rng.randrange(c)] = S[i, rng.randrange(c)]
    return S


def activation_cases(ctx, act, S, D):
    from sknetwork.gnn.activation import get_activation
    from sknetwork.gnn.loss import get_loss
    s_tok, d_tok = enc_dense(S), enc_dense(D)
    a = get_loss(act) if act in ACT_OF_LOSS else get_activation(act)
    eff = ACT_OF_LOSS.get(act, act)
    desc = {'kind': 'activation', 'activation': act, 'signal': tolist(S), 'direction': tolist(D)}
    out = []
    impl = call(lambda: 'ok ' + enc_out(a.output(S.copy())))
    spec = 'c19.spec_act_out %s %s d:%s' % (eff, s_tok, impl[3:]) if impl.startswith('ok ') else None
    out.append(Case(('act_out', eff, s_tok), {'entry': 'activation.output', 'activation': eff},
                    'c19.act_out %s %s' % (eff, s_tok), impl, spec, True, desc))
    impl = call(lambda: 'ok ' + enc_out(a.gradient(S.copy(), D.copy())))
    spec = 'c19.spec_act_grad %s %s %s d:%s' % (eff, s_tok, d_tok, impl[3:]) if impl.startswith('ok ') else None
    out.append(Case(('act_grad', eff, s_tok, d_tok), {'entry': 'activation.gradient', 'activation': eff},
                    'c19.act_grad %s %s %s' % (eff, s_tok, d_tok), impl, spec, True, desc))
    ctx.count('activation:' + eff)
    return out


LOSS_TOK = {'CrossEntropy': 'ce', 'BinaryCrossEntropy': 'bce'}


def clip_inactive(loss, S):
    """The numerical clipping of the probabilities (1e-10 / 1e-15) is the identity on this signal."""
    from scipy import special
    if loss == 'CrossEntropy':
        p = special.softmax(S, axis=1)
        return bool(((p > 1e-9) & (p < 1 - 1e-9)).all())
    p = special.expit(S)
    return bool(((p > 1e-12) & (p < 1 - 1e-12)).all())


def loss_cases(ctx, loss, S, labels):
    from sknetwork.gnn.loss import get_loss
    lf = get_loss(loss)
    k = LOSS_TOK[loss]
    n, c = S.shape
    s_tok, y_tok = enc_dense(S), enc_list(labels)
    y = np.array(labels, dtype=int)
    desc = {'kind': 'loss', 'loss': loss, 'signal': tolist(S), 'labels': [int(v) for v in labels]}
    sig0 = {'loss': loss, 'channels': 'one' if c == 1 else 'several'}
    lim = 2 if (c == 1 and loss == 'BinaryCrossEntropy') else c
    in_domain = len(labels) == n and n > 0 and all(0 <= v < lim for v in labels)
    out = []
    impl = call(lambda: 'ok %d' % fbits(lf.loss(S.copy(), y.copy())))
    spec = None
    if impl.startswith('ok ') and in_domain and clip_inactive(loss, S):
        spec = 'c19.spec_loss %s %s %s %s' % (k, s_tok, y_tok, impl[3:])
    out.append(Case(('loss', k, s_tok, y_tok), dict(sig0, entry='loss.loss'), 'c19.loss %s %s %s' % (k, s_tok, y_tok),
                    impl, spec, in_domain, desc, canon='scalar'))
    impl = call(lambda: 'ok ' + enc_out(lf.loss_gradient(S.copy(), y.copy())))
    spec = None
    if in_domain:
        if impl.startswith('ok '):
            spec = 'c19.spec_loss_grad %s %s %s d:%s' % (k, s_tok, y_tok, impl[3:])
        else:
            spec = 'c19.spec_loss_grad %s %s %s d:0:0:-' % (k, s_tok, y_tok)
    out.append(Case(('loss_grad', k, s_tok, y_tok), dict(sig0, entry='loss.loss_gradient'),
                    'c19.loss_grad %s %s %s' % (k, s_tok, y_tok), impl, spec, in_domain, desc))
    ctx.count('loss:%s:%s' % (k, 'c1' if c == 1 else 'c>1'))
    return out


def fd_gradient(lossf, S, y, h=1e-6):
    g = np.zeros_like(S)
    for i in range(S.shape[0]):
        for k in range(S.shape[1]):
            P = S.copy()
            P[i, k] += h
            M = S.copy()
            M[i, k] -= h
            g[i, k] = (lossf(P, y) - lossf(M, y)) / (2 * h)
    return g * len(y)


def fd_oracle(ctx, rng, count):
    """Finite differences on the implementation itself (search only): loss_gradient = n d(loss)/d(signal),
    activation.gradient = d<direction, output>/d(signal)."""
    from sknetwork.gnn.loss import get_loss
    from sknetwork.gnn.activation import get_activation
    for _ in range(count):
        loss = rng.choice(['CrossEntropy', 'BinaryCrossEntropy'])
        c = rng.choice([1, 2, 3, 4]) if loss == 'BinaryCrossEntropy' else rng.choice([2, 3, 4])
        n = rng.randint(1, 4)
        S = rand_matrix(rng, n, c, 'normal')
        y = np.array([rng.randrange(max(c, 2)) for _ in range(n)])
        lf = get_loss(loss)
        g = call(lambda: np.asarray(lf.loss_gradient(S.copy(), y.copy()), dtype=float))
        w = fd_gradient(lf.loss, S, y)
        if isinstance(g, str) or g.shape != w.shape or np.abs(g - w).max() > FD_TOL:
            ctx.spec_fail({'entry': 'loss.loss_gradient', 'loss': loss, 'channels': 'one' if c == 1 else 'several'},
                          {'kind': 'loss', 'loss': loss, 'signal': tolist(S), 'labels': y.tolist()},
                          {'finite_differences': tolist(w), 'loss_gradient': g if isinstance(g, str) else tolist(g)})
        act = rng.choice(ACTS)
        a = get_activation(act)
        S = rand_matrix(rng, n, c, 'normal')
        D = rand_matrix(rng, n, c, 'normal')
        g = call(lambda: np.asarray(a.gradient(S.copy(), D.copy()), dtype=float))
        w = fd_gradient(lambda s, _y: float((D * a.output(s)).sum()), S, [0])
        if isinstance(g, str) or g.shape != w.shape or np.abs(g - w).max() > FD_TOL:
            ctx.spec_fail({'entry': 'activation.gradient', 'activation': act},
                          {'kind': 'activation', 'activation': act, 'signal': tolist(S), 'direction': tolist(D)},
                          {'finite_differences': tolist(w), 'gradient': g if isinstance(g, str) else tolist(g)})


# ----------------------------------------------------------------------------------------------
# predictions, probabilities
# ----------------------------------------------------------------------------------------------
def prediction_cases(ctx, O):
    from sknetwork.gnn.gnn_classifier import GNNClassifier
    o_tok = enc_dense(O)
    desc = {'kind': 'predict', 'output': tolist(O)}
    impl = call(lambda: 'ok ' + enc_list(GNNClassifier._compute_predictions(O.copy())))
    spec = 'c19.spec_predict %s %s' % (o_tok, impl[3:]) if impl.startswith('ok ') else None
    ctx.count('predict:%s' % ('c1' if O.shape[1] == 1 else 'c>1'))
    return [Case(('predict', o_tok), {'entry': '_compute_predictions', 'channels': 'one' if O.shape[1] == 1 else 'several'},
                 'c19.predict ' + o_tok, impl, spec, O.shape[0] > 0, desc, canon='predict')]


# ----------------------------------------------------------------------------------------------
# neighbour sampler
# ----------------------------------------------------------------------------------------------
def enc_rows(rows):
    rows = [list(r) for r in rows]
    if not rows or (len(rows) == 1 and not rows[0]):
        return '-'
    return enc_listlist(rows)


def csr_rows(m):
    return [m.indices[m.indptr[i]:m.indptr[i + 1]].tolist() for i in range(m.shape[0])]


class RecordChoice:
    """Record what np.random.choice is asked and answers while the sampler runs (no re-seeding, no re-drawing)."""

    def __enter__(self):
        self.calls = []
        self.orig = np.random.choice

        def wrapper(a, size=None, replace=True, p=None):
            r = self.orig(a, size=size, replace=replace, p=p)
            self.calls.append((int(a), np.asarray(r).ravel().tolist()))
            return r
        np.random.choice = wrapper
        return self

    def __exit__(self, *exc):
        np.random.choice = self.orig
        return False


SAMPLER_FMTS = ('csr', 'csr', 'unsorted', 'csc', 'coo', 'lil', 'dense', 'dup')


def sampled_graph_ok(sm, ref, k):
    """Denotation level: the sampled matrix has entries 0/1, inside the support of the matrix the input denotes, and
    min(k, number of neighbours) ones per row."""
    S = sparse.csr_matrix(sm).toarray().astype(float)
    R = sparse.csr_matrix(ref).toarray() != 0
    if S.shape != R.shape:
        return 'shape %s' % (S.shape,)
    if not np.isin(S, (0.0, 1.0)).all():
        return 'entries other than 0/1: %s' % sorted(set(S.ravel().tolist()))[:5]
    if (S > R).any():
        i, j = np.argwhere(S > R)[0]
        return 'entry (%d,%d) is not an edge of the graph' % (i, j)
    want = np.minimum(k, R.sum(axis=1))
    if not np.array_equal(S.sum(axis=1), want):
        return 'row counts %s, want %s' % (S.sum(axis=1).tolist(), want.tolist())
    return None


def sampler_cases(ctx, a, k, seed, fmt='csr'):
    """a: csr (explicit zeros allowed), k: sample size, fmt: the container handed to the sampler."""
    from sknetwork.gnn.neighbor_sampler import UniformNeighborSampler
    n, m = a.shape
    A_in = a.copy() if fmt == 'csr' else adjacency_in_format(a, fmt, ctx.rng)
    ref = sparse.csr_matrix(A_in)            # the CSR matrix of the same stored entries (what check_format builds)
    ref = sparse.csr_matrix((np.asarray(ref.data, dtype=float), ref.indices.copy(), ref.indptr.copy()), shape=ref.shape)
    ip, ix, dt = enc_list(ref.indptr), enc_list(ref.indices), enc_flat(ref.data)
    desc = {'kind': 'sampler', 'shape': list(ref.shape), 'indptr': ref.indptr.tolist(), 'indices': ref.indices.tolist(),
            'data': ref.data.tolist(), 'sample_size': k, 'seed': seed, 'container': 'csr' if fmt in ('unsorted', 'dup') else fmt}
    has_dup = any(len(set(r)) < len(r) for r in csr_rows(ref))
    sig = {'entry': 'UniformNeighborSampler', 'container': fmt,
           'explicit_zero': bool(ref.nnz and (ref.data == 0).any()), 'duplicates': has_dup}
    before = ref.toarray().copy()
    np.random.seed(seed)
    with RecordChoice() as rec:
        s = call(lambda: UniformNeighborSampler(sample_size=k)(A_in))
    out = []
    if isinstance(s, str):
        ctx.spec_fail(sig, desc, {'sampler': s})
        return out
    s = sparse.csr_matrix(s)
    bad = sampled_graph_ok(s, ref, k)
    if bad is not None:
        ctx.spec_fail(sig, desc, {'sampled_graph': bad, 'sampled': s.toarray().tolist()})
    untouched = np.array_equal(before, sparse.csr_matrix(A_in).toarray())
    ones = bool((s.data == 1).all()) and s.shape == ref.shape
    rows = [sorted(r) for r in csr_rows(s)]
    impl = 'ok ' + enc_rows(rows) if (untouched and ones) else 'err input-modified-or-data-not-one'
    choice = [c for _, c in rec.calls]
    degs = [d for d, _ in rec.calls]
    spec = 'c19.spec_sample %d %d %s %s %s %d %s' % (n, m, ip, ix, dt, k, enc_rows(rows))
    key = ('sampler', ip, ix, dt, k, seed, fmt)
    if len(choice) == n:
        ch = enc_rows(choice)
        out.append(Case(key, sig, 'c19.sample %d %d %s %s %s %s' % (n, m, ip, ix, dt, ch), impl, spec, a.nnz > 0, desc))
        out.append(Case(('choice', ip, k, seed, fmt), {'entry': 'np.random.choice', 'contract': True}, None, 'holds',
                        'c19.contract_choice %d %s %d %s' % (n, enc_list(degs), k, ch), False, desc))
    else:
        # the draws could not be recorded (the sampler does not go through np.random.choice once per row any more):
        # no run line, the specification alone judges the result
        ctx.count('sampler:draws-not-recorded')
        out.append(Case(key, sig, None, impl, spec, a.nnz > 0, desc))
    ctx.count('sampler:k=%d' % k)
    ctx.count('sampler:container:' + fmt)
    return out


# ----------------------------------------------------------------------------------------------
# GNNClassifier
# ----------------------------------------------------------------------------------------------
def layer_tokens(layer, adj):
    act = type(layer.activation).__name__
    eff = {'BaseActivation': 'identity', 'ReLu': 'relu', 'Sigmoid': 'sigmoid', 'Softmax': 'softmax',
           'CrossEntropy': 'softmax', 'BinaryCrossEntropy': 'sigmoid'}[act]
    norm = layer.normalization if layer.normalization in ('left', 'right', 'both') else 'none'
    b = '_' if (not layer.use_bias or layer.bias is None) else enc_flat(layer.bias)
    return '%s %s %s %s %s %s' % (norm, '1' if layer.self_embeddings else '0', eff, enc_any(adj), enc_dense(layer.weight), b)


def _layer_type_sig(lt):
    return lt if isinstance(lt, str) else 'mixed'


def _named(kind, name, as_object):
    """an activation / a loss by name or as an object"""
    if not as_object or name is None:
        return name
    from sknetwork.gnn.activation import get_activation
    from sknetwork.gnn.loss import get_loss
    return get_loss(name) if kind == 'loss' else get_activation(name)


def build_layer_objects(specs):
    """`layers=[...]` of GNNClassifier: layer objects built directly (Convolution) or through get_layer."""
    from sknetwork.gnn.layer import Convolution, get_layer
    layers = []
    for sp in specs:
        kw = dict(out_channels=sp['out'], activation=_named('activation', sp['activation'], sp['objects']),
                  use_bias=sp['use_bias'], normalization=sp['normalization'], self_embeddings=sp['self_embeddings'])
        if sp['sample_size'] != 'default':
            kw['sample_size'] = sp['sample_size']
        if sp['loss'] is not None:
            kw['loss'] = _named('loss', sp['loss'], sp['objects'])
        layers.append(Convolution(sp['type'], **kw) if sp['ctor'] == 'Convolution' else get_layer(sp['type'], **kw))
    return layers


def requested_types(cfg, n_layers):
    """the layer type asked for, per layer (what decides whether the layer's adjacency is sampled)"""
    if cfg.get('layers'):
        return [sp['type'] for sp in cfg['layers']]
    lt = cfg['layer_types']
    return list(lt) if isinstance(lt, list) else [lt] * n_layers


def classifier_cases(ctx, a_csr, X, labels, cfg):
    """Fit a GNNClassifier and check forward / sampled adjacencies / labels_ / predict_proba / seed determinism /
    reinit.  The sampled adjacencies are recorded from the fit itself (`_sample_nodes` wrapped)."""
    from sknetwork.gnn.gnn_classifier import GNNClassifier
    n = a_csr.shape[0]
    desc = {'kind': 'classifier', 'adjacency': tolist(a_csr.toarray()), 'features': tolist(X),
            'labels': labels if isinstance(labels, list) else {str(k): int(v) for k, v in labels.items()}, 'cfg': cfg}
    dims = cfg['dims']
    c = dims[-1]
    afmt = cfg.get('adjacency_format', 'csr')
    if not usable_format(a_csr, afmt):
        afmt = 'csr'
    xfmt = cfg.get('features_format', 'dense')
    sig = {'entry': 'GNNClassifier', 'loss': cfg['loss'], 'channels': 'one' if c == 1 else 'several',
           'layer_type': 'objects' if cfg.get('layers') else _layer_type_sig(cfg['layer_types']), 'adjacency': afmt,
           'features': xfmt}
    A_in = adjacency_in_format(a_csr, afmt, ctx.rng)
    X_in = features_in_format(X, xfmt)
    lab_in = np.array(labels) if isinstance(labels, list) else dict(labels)
    fit_kw = dict(n_epochs=cfg['n_epochs'], random_state=cfg['random_state'], validation=cfg.get('validation', 0))

    def build():
        common = dict(optimizer=cfg['optimizer'], early_stopping=cfg.get('early_stopping', False), patience=cfg.get('patience', 10))
        if cfg.get('layers'):
            return GNNClassifier(layers=build_layer_objects(cfg['layers']), **common)
        return GNNClassifier(dims=list(dims), layer_types=cfg['layer_types'], activations=cfg['activations'],
                             use_bias=cfg['use_bias'], normalizations=cfg['normalizations'],
                             self_embeddings=cfg['self_embeddings'], sample_sizes=cfg['sample_size'], loss=cfg['loss'],
                             **common)
    holder = {}

    def fit(g=None, rec=None, **extra):
        g = build() if g is None else g
        holder['g'] = g
        if rec is not None:
            orig = g._sample_nodes

            def wrapped(adj):
                r = orig(adj)
                rec.append((adj, list(r)))
                return r
            g._sample_nodes = wrapped
        g.fit(A_in.copy(), X_in.copy(), lab_in.copy() if hasattr(lab_in, 'copy') else lab_in, **fit_kw, **extra)
        return g
    rec = []
    g = call(lambda: fit(rec=rec))
    ctx.count('classifier:%s:%s:c=%d' % (sig['layer_type'], cfg['loss'], c))
    ctx.count('classifier:adjacency:' + afmt)
    out = []
    if container_token(A_in) == 'other' or container_token(X_in) == 'other':
        # check_format refuses the container: a TypeError, nothing else
        impl = g if isinstance(g, str) else 'ok'
        out.append(Case(('fit-refused', afmt, xfmt), dict(sig, check='check_format'), 'c19.check_format other', impl, None,
                        False, desc, canon='exact'))
        return out
    if g == 'err ValueError' and fit_kw['validation'] and getattr(holder.get('g'), 'train_mask', None) is not None \
            and not holder['g'].train_mask.any():
        # the validation split took every labelled node: fit refuses (ValueError from the accuracy score); not a
        # configuration the property speaks about
        ctx.count('classifier:validation-left-no-training-node')
        return out
    if isinstance(g, str):
        ctx.spec_fail(dict(sig, check='fit'), desc, {'fit': g})
        return out
    output = np.asarray(g.output_, dtype=float)
    ref = sparse.csr_matrix(A_in).astype(float)
    ip, ix, dt = enc_list(ref.indptr), enc_list(ref.indices), enc_flat(ref.data)
    adjs = None
    if rec and len(rec[-1][1]) == len(g.layers):
        given, adjs = rec[-1]
        # 0. which layers are sampled (a type containing 'sage'), what they get (a sub-sample of the neighbours of every
        #    node), what the other layers get (the graph itself)
        for li, (layer, adj, req) in enumerate(zip(g.layers, adjs, requested_types(cfg, len(g.layers)))):
            out.append(Case(('is_sage', req), dict(sig, check='sampled-layer'), 'c19.is_sage ' + _q(req),
                            '1' if adj is not given else '0', None, True, desc, canon='exact'))
            if 'sage' in req.lower():
                sm = call(lambda: sparse.csr_matrix(adj))
                bad = 'not a matrix: %s' % sm if isinstance(sm, str) else sampled_graph_ok(sm, ref, layer.sample_size)
                if bad is not None:
                    ctx.spec_fail(dict(sig, check='sampled-adjacency'), desc, {'layer': li, 'sampled_graph': bad})
                else:
                    rows = [sorted(r) for r in csr_rows(sm)]
                    out.append(Case(('sampled', li, ip, ix, dt, enc_rows(rows)), dict(sig, check='sampled-adjacency'), None,
                                    'holds', 'c19.spec_sample %d %d %s %s %s %d %s' % (n, n, ip, ix, dt, layer.sample_size,
                                                                                   enc_rows(rows)), True, desc))
            else:
                same = call(lambda: np.array_equal(sparse.csr_matrix(adj).toarray().astype(float), ref.toarray()))
                if same is not True:
                    ctx.spec_fail(dict(sig, check='conv-layer-adjacency'), desc, {'layer': li, 'adjacency_used': str(same)})
        # 1. forward through all layers with the fitted parameters and the adjacencies the fit used
        toks = ' '.join(layer_tokens(l, a) for l, a in zip(g.layers, adjs))
        key = ('gnn', toks, enc_any(X_in))
        out.append(Case(key, dict(sig, check='forward'), 'c19.gnn %s %s' % (enc_any(X_in), toks), 'ok ' + enc_out(output),
                        'c19.spec_gnn %s %s d:%s' % (enc_any(X_in), toks, enc_out(output)), a_csr.nnz > 0, desc))
    else:
        # `_sample_nodes` was not called the way it is today (a refactoring of fit): the adjacencies the layers saw are
        # unknown, the forward pass cannot be re-computed; the remaining checks still apply
        ctx.count('classifier:adjacencies-not-recorded')
    # 2. one label per node: arg-max / threshold of the output
    o_tok = enc_dense(output)
    labs = np.asarray(g.labels_)
    impl = 'ok ' + enc_list(labs) if labs.shape == (n,) else 'err shape'
    out.append(Case(('labels', o_tok), dict(sig, check='labels_'), 'c19.predict ' + o_tok, impl,
                    'c19.spec_predict %s %s' % (o_tok, enc_list(labs)) if impl.startswith('ok') else None, True, desc,
                    canon='predict'))
    if not np.array_equal(np.asarray(g.predict()), labs):
        ctx.spec_fail(dict(sig, check='predict'), desc, {'predict': str(g.predict()), 'labels_': str(labs)})
    # 3. probabilities
    p = call(lambda: g.predict_proba())
    k = LOSS_TOK[type(g.loss).__name__]
    cols = max(c, 2)
    pm = None if isinstance(p, str) else numeric_matrix(p)
    if pm is None:
        out.append(Case(('proba', o_tok, k), dict(sig, check='predict_proba'), None, str(p),
                        'c19.spec_proba %d %d d:0:0:- %s' % (n, cols, enc_list(labs)), True, desc))
    else:
        out.append(Case(('proba', o_tok, k), dict(sig, check='predict_proba'), 'c19.proba %s %s' % (k, o_tok),
                        'ok ' + enc_out(pm), 'c19.spec_proba %d %d %s %s' % (n, cols, enc_dense(pm), enc_list(labs)),
                        True, desc))
    # 4. identical for identical random_state: a fresh object, and the same object refitted with reinit=True
    #    (observed; the theorem is C16's)
    def same_as_first(h):
        return (not isinstance(h, str)) and np.array_equal(np.asarray(h.output_), np.asarray(g.output_), equal_nan=True) \
            and np.array_equal(np.asarray(h.labels_), labs)
    g2 = call(fit)
    if not same_as_first(g2):
        ctx.spec_fail(dict(sig, check='random_state'), desc, {'second_fit': g2 if isinstance(g2, str) else 'differs'})
    if cfg.get('refit'):
        g3 = call(lambda: fit(g=g2, reinit=True)) if not isinstance(g2, str) else g2
        if not same_as_first(g3):
            ctx.spec_fail(dict(sig, check='reinit'), desc, {'refit_with_reinit': g3 if isinstance(g3, str) else 'differs'})
    return out


CLASSIFIER_ADJ_FMTS = ('csr', 'csr', 'csc', 'coo', 'lil', 'dense', 'unsorted', 'dup', 'dup', 'bool', 'float32', 'csr_array')
CLASSIFIER_X_FMTS = ('dense', 'dense', 'csr', 'csc', 'coo', 'lil', 'csr_array', 'np_matrix')
BARE_TYPES = ('sage', 'Sage', 'SAGE', 'sageconv', 'Conv', 'conv')


def rand_cfg(rng, n_layers, c):
    """GD with a layer without bias raises in optimizer.py (None - array): outside this property, see the status file."""
    loss = rng.choice(['CrossEntropy', 'CrossEntropy', 'BinaryCrossEntropy'])
    dims = [rng.randint(2, 4) for _ in range(n_layers - 1)] + [c]
    per_layer = rng.random() < 0.35

    def opt(draw):
        return [draw() for _ in range(n_layers)] if per_layer else draw()
    lt = opt(lambda: rng.choice(['conv', 'Conv', 'sage', 'Sage']))
    use_bias = opt(lambda: rng.random() < 0.8)
    all_bias = all(use_bias) if isinstance(use_bias, list) else use_bias
    cfg = {'dims': dims, 'layer_types': lt,
           'activations': opt(lambda: rng.choice(['Relu', 'Sigmoid', 'Identity', 'Softmax'])),
           'use_bias': use_bias,
           'normalizations': opt(lambda: rng.choice(['left', 'right', 'both', 'Both', None])),
           'self_embeddings': opt(lambda: rng.random() < 0.7), 'sample_size': opt(lambda: rng.choice([1, 2, 3, 25])),
           'loss': loss, 'optimizer': rng.choice(['Adam', 'GD']) if all_bias else 'Adam',
           'n_epochs': rng.choice([0, 1, 2, 3, 5, 6]), 'random_state': rng.randrange(1000),
           'validation': rng.choice([0, 0, 0.3, 0.5]), 'early_stopping': rng.random() < 0.5, 'patience': rng.choice([1, 2, 10]),
           'refit': rng.random() < 0.4,
           'adjacency_format': rng.choice(CLASSIFIER_ADJ_FMTS), 'features_format': rng.choice(CLASSIFIER_X_FMTS)}
    if rng.random() < 0.2:
        # `layers=[...]`: layer objects, built directly or through get_layer, activations / losses by name or as objects,
        # the sample size given or left to the default
        specs = []
        for li, out_c in enumerate(dims):
            last = li == n_layers - 1
            ctor = rng.choice(['Convolution', 'get_layer'])
            specs.append({'ctor': ctor, 'type': rng.choice(BARE_TYPES), 'out': out_c,
                          'activation': rng.choice(['Relu', 'Sigmoid', 'Identity']), 'loss': loss if last else None,
                          'objects': rng.random() < 0.5, 'use_bias': True if cfg['optimizer'] == 'GD' else rng.random() < 0.8,
                          'normalization': rng.choice(['left', 'right', 'both', None]), 'self_embeddings': rng.random() < 0.7,
                          'sample_size': rng.choice(['default', 1, 2, 3])})
        cfg['layers'] = specs
    return cfg


def _fix_cfg(cfg, rng):
    return cfg


# ----------------------------------------------------------------------------------------------
# configuration: get_layer / get_activation / get_loss / check_loss / check_output
# ----------------------------------------------------------------------------------------------
LAYER_NAMES = ['conv', 'Conv', 'CONV', 'sage', 'Sage', 'GraphSage', 'sageconv', 'SAGEConv', 'gcnconv', 'convolution',
               'xx', '', 'gat', 'con v']
ACT_NAMES = ['Relu', 'relu', 'ReLu', 'RELU', 'sigmoid', 'Sigmoid', 'softmax', 'Softmax', 'identity', 'Identity', '',
             'tanh', 'soft max']
LOSS_NAMES = [None, None, 'CrossEntropy', 'crossentropy', 'CE', 'ce', 'Cross Entropy', 'cross entropy',
              'BinaryCrossEntropy', 'BCE', 'bce', 'binary cross entropy', 'Binary CrossEntropy', 'mse', '']
NORM_NAMES = ['left', 'Left', 'RIGHT', 'right', 'both', 'Both', 'none', 'None', 'sym', '', None, None]


def _q(t):
    if t is None:
        return '_'
    return "''" if t == '' else t.replace(' ', '~')


def check_norms_cases(ctx, value):
    """`check_normalizations` as GNNClassifier calls it: a string, None, or a list of them."""
    from sknetwork.gnn.utils import check_normalizations
    impl = call(lambda: (check_normalizations(value), 'ok')[1])
    names = value if isinstance(value, list) else [value]
    desc = {'kind': 'check_norms', 'value': value}
    ctx.count('check_normalizations')
    return [Case(('check_norms', repr(value)), {'entry': 'check_normalizations', 'has_none': any(v is None for v in names)},
                 'c19.check_norms ' + ';'.join(_q(v) for v in names), impl, None, True, desc, canon='exact')]


def resolve_cases(ctx, layer, activation, loss, normalization, se, c):
    from sknetwork.gnn.layer import get_layer
    from sknetwork.gnn.utils import check_loss

    def f():
        kw = dict(out_channels=c, activation=activation, normalization=normalization, self_embeddings=se)
        if loss is not None:
            kw['loss'] = loss
        lay = get_layer(layer, **kw)
        k = '_'
        if loss is not None:
            k = LOSS_TOK[type(check_loss(lay)).__name__]
        eff = {'BaseActivation': 'identity', 'ReLu': 'relu', 'Sigmoid': 'sigmoid', 'Softmax': 'softmax',
               'CrossEntropy': 'softmax', 'BinaryCrossEntropy': 'sigmoid'}[type(lay.activation).__name__]
        norm = lay.normalization if lay.normalization in ('left', 'right', 'both') else 'none'
        return 'ok %s %s %s %s' % (norm, '1' if lay.self_embeddings else '0', eff, k)
    impl = call(f)
    run = 'c19.resolve %s %s %s %s %s %d' % (_q(layer), _q(activation), '_' if loss is None else _q(loss),
                                            _q(normalization), '1' if se else '0', c)
    desc = {'kind': 'resolve', 'layer': layer, 'activation': activation, 'loss': loss, 'normalization': normalization,
            'self_embeddings': se, 'out_channels': c}
    ctx.count('resolve')
    return [Case(('resolve', layer, activation, loss, normalization, se, c), {'entry': 'get_layer'}, run, impl, None,
                 impl.startswith('ok'), desc, canon='exact')]


def check_output_cases(ctx, c, labels):
    from sknetwork.gnn.utils import check_output
    impl = call(lambda: (check_output(c, np.array(labels, dtype=int)), 'ok')[1])
    desc = {'kind': 'check_output', 'channels': c, 'labels': labels}
    return [Case(('check_output', c, tuple(labels)), {'entry': 'check_output'}, 'c19.check_output %d %s' % (c, enc_list(labels)),
                 impl, None, True, desc, canon='exact')]


def stream_config(ctx, quick, scale=1.0):
    rng = ctx.rng
    cases = []
    for _ in range(int((150 if quick else 1500) * scale)):
        cases += resolve_cases(ctx, rng.choice(LAYER_NAMES), rng.choice(ACT_NAMES), rng.choice(LOSS_NAMES),
                               rng.choice(NORM_NAMES), rng.random() < 0.5, rng.randint(1, 3))
    for _ in range(int((40 if quick else 400) * scale)):
        c = rng.randint(1, 4)
        labels = [rng.randrange(rng.randint(1, 5)) for _ in range(rng.randint(1, 6))]
        cases += check_output_cases(ctx, c, labels)
    for _ in range(int((30 if quick else 300) * scale)):
        if rng.random() < 0.5:
            value = rng.choice(NORM_NAMES)
        else:
            value = [rng.choice(NORM_NAMES) for _ in range(rng.randint(1, 3))]
        cases += check_norms_cases(ctx, value)
    return cases


# ----------------------------------------------------------------------------------------------
# comparison of answers
# ----------------------------------------------------------------------------------------------
def _same(c, model, impl, spec_ok):
    if c.canon == 'exact':
        return False
    if model.startswith('err') or impl.startswith('err'):
        # numpy / scipy word the refusal of a shape or an index differently: ValueError and IndexError are one class;
        # every other exception class (TypeError, AttributeError, NotImplementedError, KeyError, …) must match exactly
        shape_errors = ('err ValueError', 'err IndexError')
        return c.canon != 'predict' and model in shape_errors and impl in shape_errors
    if c.canon == 'predict':
        return model.split(' ')[1] == impl.split(' ')[1]
    if c.canon == 'scalar':
        return close(bits_f(model[3:]), bits_f(impl[3:]))
    if model.startswith('ok ') and impl.startswith('ok ') and ':' in model and ':' in impl:
        try:
            return close(dec_out(model[3:]), dec_out(impl[3:]))
        except ValueError:
            return False
    return False


def evaluate(ctx, cases):
    _evaluate(ctx, cases, same=_same)


# ----------------------------------------------------------------------------------------------
# case streams
# ----------------------------------------------------------------------------------------------
SPARSE_FMTS = ('csr', 'csr', 'unsorted', 'dup', 'csc', 'coo', 'lil', 'bool', 'int', 'float32', 'uint8', 'int32')
ALL_FMTS = SPARSE_FMTS + ('dense', 'dense') + REFUSED_FMTS
FEATURE_FMTS = ('dense', 'dense', 'dense', 'csr', 'csr', 'csc', 'coo', 'lil', 'int')


def stream_forward(ctx, quick, scale=1.0):
    rng = ctx.rng
    cases = []
    # exhaustive small digraphs
    for n in (1, 2):
        for es in graphs.all_digraphs(n, loops=True):
            a = mk_adj(n, es, rand_weights(rng, len(es), rng.choice(['ones', 'int', 'dyadic'])))
            cases += forward_grid(ctx, a, rng, full=True, afmts=SPARSE_FMTS)
            ctx.count('graphs:exhaustive-n%d' % n)
    g3 = list(graphs.all_digraphs(3, loops=False))
    for es in g3:
        a = mk_adj(3, es, rand_weights(rng, len(es), rng.choice(['ones', 'int', 'dyadic', 'real'])))
        cases += forward_grid(ctx, a, rng, full=not quick, afmts=SPARSE_FMTS)
        ctx.count('graphs:exhaustive-n3')
    g3l = list(graphs.all_digraphs(3, loops=True))
    for es in (rng.sample(g3l, int(40 * scale)) if quick else g3l):
        a = mk_adj(3, es, rand_weights(rng, len(es), rng.choice(['ones', 'int', 'signed'])))
        cases += forward_grid(ctx, a, rng, full=False, afmts=SPARSE_FMTS)
        ctx.count('graphs:n3-loops')
    # structured random graphs
    for name, n, es, w in graphs.suite(rng, int((150 if quick else 1500) * scale), 3, 10):
        mode = rng.choice(['ones', 'int', 'dyadic', 'real'])
        if name.rstrip('0123456789') in graphs.UNDIRECTED_KINDS:
            ww = graphs.sym_weights(rng, es, rand_weights(rng, 6, mode))
        else:
            ww = rand_weights(rng, len(es), mode)
        a = mk_adj(n, es, ww)
        cases += forward_grid(ctx, a, rng, full=False, afmts=ALL_FMTS)
        ctx.count('graphs:structured:' + name.rstrip('0123456789'))
    # rectangular (biadjacency) inputs: left / none defined, right / both refuse
    for nr, nc in [(1, 2), (2, 1), (2, 3), (3, 2), (2, 4)]:
        allb = list(graphs.all_bipartite(nr, nc))
        for es in rng.sample(allb, min(len(allb), int((6 if quick else 40) * scale))):
            a = mk_adj(nr, es, rand_weights(rng, len(es), 'int'), m=nc)
            cases += forward_grid(ctx, a, rng, full=False, afmts=('csr', 'dense'), equivariance=False)
            ctx.count('graphs:rectangular')
    # degenerate: wrong shapes, empty graph, one node, zero features
    for _ in range(int((12 if quick else 60) * scale)):
        n = rng.randint(1, 4)
        es = graphs.random_edges(rng, n, 0.5, loops=True)
        a = mk_adj(n, es, rand_weights(rng, len(es), 'int'))
        d = rng.randint(0, 2)
        c = rng.randint(1, 3)
        kind = rng.choice(['x-rows', 'w-rows', 'zero-features', 'zero-features-sparse', 'empty-graph', 'no-node'])
        if kind.startswith('zero-features'):
            d = 0
        if kind == 'no-node':
            n = 0
            a = sparse.csr_matrix((0, 0), dtype=float)
        X = rand_matrix(rng, n + (1 if kind == 'x-rows' else 0), d)
        W = rand_matrix(rng, d + (1 if kind == 'w-rows' else 0), c)
        if kind == 'empty-graph':
            a = sparse.csr_matrix((n, n), dtype=float)
        cases += forward_cases(ctx, a, X, W, [0.5] * c, rng.choice(NORMS), rng.random() < 0.5, rng.choice(ACTS), 'csr',
                               'csr' if kind == 'zero-features-sparse' else 'dense', 'conv', tag='forward-degenerate')
        ctx.count('graphs:degenerate:' + kind)
    return cases


def stream_activation_loss(ctx, quick, scale=1.0):
    rng = ctx.rng
    cases = []
    for _ in range(int((300 if quick else 4000) * scale)):
        n, c = rng.randint(1, 5), rng.randint(1, 5)
        mode = rng.choice(['normal', 'normal', 'int', 'dyadic', 'large'])
        S = rand_signal(rng, n, c, mode)
        D = rand_matrix(rng, n, c, rng.choice(['normal', 'int']))
        act = rng.choice(ACTS + ['CrossEntropy', 'BinaryCrossEntropy'])
        cases += activation_cases(ctx, act, S, D)
    for _ in range(int((400 if quick else 5000) * scale)):
        loss = rng.choice(['CrossEntropy', 'BinaryCrossEntropy'])
        n = rng.randint(1, 5)
        c = rng.choice([1, 2, 3, 4, 5]) if loss == 'BinaryCrossEntropy' else rng.choice([1, 2, 2, 3, 4, 5])
        S = rand_signal(rng, n, c, rng.choice(['normal', 'normal', 'dyadic', 'large']))
        labels = [rng.randrange(max(c, 2)) for _ in range(n)]
        r = rng.random()
        if r < 0.06:
            labels[rng.randrange(n)] = c + rng.randint(0, 2) if c > 1 else 2     # out of range
        elif r < 0.12:
            labels = labels + [0] if rng.random() < 0.5 else labels[:1]        # wrong length (numpy may broadcast)
        cases += loss_cases(ctx, loss, S, labels)
    return cases


def stream_predict(ctx, quick, scale=1.0):
    rng = ctx.rng
    cases = []
    for _ in range(int((150 if quick else 2000) * scale)):
        n, c = rng.randint(1, 6), rng.randint(1, 5)
        mode = rng.choice(['ties', 'normal', 'prob'])
        if mode == 'ties':
            O = np.array([[rng.choice([0.0, 0.25, 0.5, 0.5, 0.75, 1.0]) for _ in range(c)] for _ in range(n)], dtype=float).reshape(n, c)
        elif mode == 'prob':
            O = np.abs(rand_matrix(rng, n, c)) + 0.01
            O = O / O.sum(axis=1, keepdims=True) if c > 1 else 1 / (1 + O)
        else:
            O = rand_matrix(rng, n, c)
        cases += prediction_cases(ctx, O)
    for n in (1, 3):
        cases += prediction_cases(ctx, np.zeros((n, 0)))         # no channel: arg-max of an empty row raises
    return cases


def stream_sampler(ctx, quick, scale=1.0):
    rng = ctx.rng
    cases = []
    for _ in range(int((150 if quick else 2000) * scale)):
        n = rng.randint(1, 7)
        es = graphs.random_edges(rng, n, rng.choice([0.2, 0.5, 0.8]), loops=True)
        a = mk_adj(n, es, rand_weights(rng, len(es), rng.choice(['ones', 'int', 'real'])))
        if a.nnz and rng.random() < 0.4:
            a.data[rng.randrange(a.nnz)] = 0.0       # explicit zero: stored, but not an edge of the graph
        if rng.random() < 0.3:
            a = graphs.unsorted_copy(a, rng)
        cases += sampler_cases(ctx, a, rng.choice([0, 1, 1, 2, 2, 3, 5]), rng.randrange(10 ** 6),
                               'csr' if not a.has_sorted_indices else rng.choice(SAMPLER_FMTS))
    return cases


def stream_classifier(ctx, quick, scale=1.0):
    rng = ctx.rng
    cases = []
    for name, n, es, w in graphs.suite(rng, int((80 if quick else 900) * scale), 3, 9, kinds=graphs.UNDIRECTED_KINDS + ['dicycle', 'sinks']):
        a = mk_adj(n, es, rand_weights(rng, len(es), rng.choice(['ones', 'int'])) if name.rstrip('0123456789') not in graphs.UNDIRECTED_KINDS
                   else graphs.sym_weights(rng, es, [1.0, 2.0, 1.0]))
        c = rng.choice([1, 2, 2, 3])
        cfg = _fix_cfg(rand_cfg(rng, rng.choice([1, 2, 2]), c), rng)
        d = rng.randint(1, 3)
        X = rand_matrix(rng, n, d, rng.choice(['normal', 'dyadic']))
        n_lab = max(c, 2)
        known = rng.sample(range(n), rng.randint(1, n))
        if rng.random() < 0.5:
            labels = {int(i): rng.randrange(n_lab) for i in known}
        else:
            labels = [rng.randrange(n_lab) if i in known else -1 for i in range(n)]
        cases += classifier_cases(ctx, a, X, labels, cfg)
    return cases


def corpus_cases(ctx):
    p = os.path.join(os.path.dirname(os.path.dirname(os.path.dirname(os.path.abspath(__file__)))), 'corpus', 'C19.jsonl')
    cases = []
    if os.path.exists(p):
        for ln in open(p):
            ln = ln.strip()
            if ln and not ln.startswith('#'):
                cases += cases_of_desc(ctx, json.loads(ln))
                ctx.count('corpus')
    return cases


def cases_of_desc(ctx, d):
    kind = d.get('kind')
    if kind == 'forward':
        a = sparse.csr_matrix(np.array(d['adjacency'], dtype=float))
        return forward_cases(ctx, a, np.array(d['features'], dtype=float), np.array(d['weight'], dtype=float), d['bias'],
                             d['normalization'], d['self_embeddings'], d['activation'], d.get('adjacency_format', 'csr'),
                             d.get('features_format', 'dense'), d.get('via', 'conv'), tag='replay', history=d.get('history'))
    if kind == 'equivariance':
        a = sparse.csr_matrix(np.array(d['adjacency'], dtype=float))
        rng_state = ctx.rng.getstate()
        out = []
        # the recorded permutation first, then a few random ones
        X, W = np.array(d['features'], dtype=float), np.array(d['weight'], dtype=float)

        class _R:
            def shuffle(self, l, p=d['perm']):
                l[:] = p
        out += equivariance_check(ctx, a, X, W, d['bias'], d['normalization'], d['self_embeddings'], d['activation'],
                                  d.get('via', 'conv'), _R())
        ctx.rng.setstate(rng_state)
        return out
    if kind == 'activation':
        return activation_cases(ctx, d['activation'], np.array(d['signal'], dtype=float), np.array(d['direction'], dtype=float))
    if kind == 'loss':
        S = np.array(d['signal'], dtype=float)
        return loss_cases(ctx, d['loss'], S.reshape(len(d['signal']), -1), d['labels'])
    if kind == 'predict':
        O = np.array(d['output'], dtype=float)
        return prediction_cases(ctx, O.reshape(len(d['output']), -1))
    if kind == 'sampler':
        a = sparse.csr_matrix((np.array(d['data'], dtype=float), np.array(d['indices'], dtype=int), np.array(d['indptr'], dtype=int)),
                              shape=tuple(d['shape']))
        fmt = d.get('container', 'csr')
        if fmt in ('unsorted', 'dup'):
            fmt = 'csr'         # the recorded arrays already are the unsorted / duplicated storage
        return sampler_cases(ctx, a, d['sample_size'], d['seed'], fmt)
    if kind == 'resolve':
        return resolve_cases(ctx, d['layer'], d['activation'], d['loss'], d['normalization'], d['self_embeddings'], d['out_channels'])
    if kind == 'check_output':
        return check_output_cases(ctx, d['channels'], d['labels'])
    if kind == 'check_norms':
        return check_norms_cases(ctx, d['value'])
    if kind == 'classifier':
        a = sparse.csr_matrix(np.array(d['adjacency'], dtype=float))
        labels = d['labels'] if isinstance(d['labels'], list) else {int(k): v for k, v in d['labels'].items()}
        return classifier_cases(ctx, a, np.array(d['features'], dtype=float), labels, d['cfg'])
    return []


def build_cases(ctx, scale=1.0):
    quick = ctx.quick
    cases = corpus_cases(ctx)
    cases += stream_forward(ctx, quick, scale)
    cases += stream_activation_loss(ctx, quick, scale)
    cases += stream_predict(ctx, quick, scale)
    cases += stream_sampler(ctx, quick, scale)
    cases += stream_classifier(ctx, quick, scale)
    cases += stream_config(ctx, quick, scale)
    return cases


def run(ctx):
    import time
    t0 = time.time()
    with warnings.catch_warnings():
        warnings.simplefilter('ignore')
        cases = build_cases(ctx)
        t1 = time.time()
        evaluate(ctx, cases)
    ctx.extra['timing_s'] = {'implementation_calls': round(t1 - t0, 1), 'lean_driver_and_compare': round(time.time() - t1, 1)}
    ctx.extra['tolerance'] = {'float64_relative': TOL, 'finite_differences_search_only': FD_TOL}
    ctx.exhaustive = False


# -- failing-input search ---------------------------------------------------------------------
def search(ctx, pending):
    """Specification lines and finite-difference oracles on the implementation over a larger space."""
    sub = Sub(ctx)
    sub.quick = False
    sub.tier = 'thorough'
    with warnings.catch_warnings():
        warnings.simplefilter('ignore')
        fd_oracle(sub, ctx.rng, 60)
        cases = []
        rng = ctx.rng
        for n in (1, 2, 3):
            for es in graphs.all_digraphs(n, loops=(n < 3)):
                a = mk_adj(n, es, rand_weights(rng, len(es), 'int'))
                cases += forward_grid(sub, a, rng, full=True, afmts=('csr',))
        cases += stream_activation_loss(sub, True, 2.0)
        cases += stream_predict(sub, True, 2.0)
        cases += stream_sampler(sub, True, 2.0)
        cases += stream_classifier(sub, True, 1.0)
        cases += stream_config(sub, True, 1.0)
        evaluate(sub, cases)
    return sub.found()


def replay(ctx, payload):
    case = payload.get('case') or (payload.get('what_no_longer_checks') or {}).get('case') or {}
    with warnings.catch_warnings():
        warnings.simplefilter('ignore')
        cs = cases_of_desc(ctx, case) if case.get('kind') else build_cases(ctx)
        evaluate(ctx, cs)
