"""C14 — heat diffusion (Diffusion, Dirichlet): maximum principle, boundary values, input forms, harmonic limit.

Correspondence: every scenario calls the real estimator (overlay build of /repo's working tree) through
`fit_predict` — some on an estimator object that has already been fitted on another input — and sends
  run  line `c14.fit …`          -> the Lean model (SkNet/Model/Heat.lean) computes values_, values_row_, values_col_
                                    in exact rationals; compared within RUN_TOL (float64 path)
  spec line `c14.spec_maxp …`    -> the property's predicate (SkNet/Spec/Heat.lean) on the implementation's own output:
                                    every value within [min seed, max seed] (slack SPEC_TOL), Dirichlet keeps the seeds
                                    exactly, shapes of values_/values_row_/values_col_; only under the hypotheses
  spec line `c14.spec_boundary`  -> Dirichlet keeps the seeds exactly: on *every* Dirichlet call that returned
  spec line `c14.spec_returned`  -> fit_predict(...), predict(), predict(columns=True) against the attributes
  spec line `c14.spec_harmonic`  -> Dirichlet after many rounds against the harmonic extension (solved exactly in Lean
                                    and verified there before use); graphs in which every node reaches a seed
  spec line `c14.spec_nonexp`    -> one more round never increases the sup-distance to the harmonic extension
  spec line `c14.spec_forms`     -> the same temperatures as ndarray, list and dict give the same output
  spec line `c14.spec_scale`     -> all weights multiplied by c (1e-9, 1e-12, 1e+12, 2^-30 …): same outputs
  run/spec `c14.normalize`, `c14.spec_stochastic` -> `normalize(matrix)` itself: stored entries, rows of L1 norm 1 or null
Theorems (SkNet/Properties/C14.lean) are about the same model for every graph and every number of rounds.
"""
import copy
import json
import os
import sys
import warnings
from fractions import Fraction

import numpy as np
from scipy import sparse

from vlib import graphs
from vlib.cases import Case, Sub
from vlib.core import enc_list, enc_rat, enc_ratlist, enc_bool, dec_ratlist, VERIF, ToolFailure

if hasattr(sys, 'set_int_max_str_digits'):
    sys.set_int_max_str_digits(0)       # 300 exact rounds give numerators of several thousand digits

# ---- named tolerances (DESIGN section 8: every tolerance is a named constant, printed in the evidence) -------------
RUN_TOL = Fraction(1, 10 ** 11)       # run lines: |model - impl| <= RUN_TOL * (1 + scale), scale = largest |temperature|
SPEC_TOL = Fraction(1, 10 ** 12)      # bounds of the maximum principle on float64 outputs: SPEC_TOL * (1 + |x|)
STOCH_TOL = Fraction(1, 10 ** 12)     # | L1 norm of a normalised row - 1 |
NONEXP_TOL = Fraction(1, 10 ** 12)    # non-expansiveness: d(k+1) <= d(k) + NONEXP_TOL * (1 + scale)
SCALE_TOL = Fraction(1, 10 ** 12)     # values(c*A) vs values(A) on the implementation: SCALE_TOL * (1 + scale)
HARMONIC_TOL = Fraction(1, 10 ** 10)  # distance to the harmonic extension after "many" rounds, times (1 + scale)
TOLERANCES = {'RUN_TOL': '1e-11*(1+scale)', 'SPEC_TOL': '1e-12*(1+|x|)', 'STOCH_TOL': '1e-12',
              'NONEXP_TOL': '1e-12*(1+scale)', 'SCALE_TOL': '1e-12*(1+scale)', 'HARMONIC_TOL': '1e-10*(1+scale)',
              'observation': 'float64 outputs leave [min seed, max seed] by a few ulps on the unchanged code '
                             '(Diffusion(20, 0.85) on K7 with seeds {0: 0.1, 1: 0.1}: every value is 0.1 - 4.2e-17); the '
                             'exact statement is proved over Q, the float outputs are checked with slack SPEC_TOL'}

RULE = ('graphs x seed sets x estimator exhaustive for digraphs n<=3 (loops n<=2) and all non-empty seed sets, with ONE '
        'random draw of (temperatures, input form, init, n_iter, damping, weights) per combination; sampled n=4 (thorough: '
        'all n=4, random n=5); bipartite 0/1 and weighted biadjacency up to 3x2 (thorough 3x4) + random up to 6x7, one draw '
        'of (row/col/values/none seeds, forms, force_bipartite, init, n_iter) each; structured random graphs n<=12 '
        '(thorough: some n<=20); weights 1 / {1,2,3,5} / dyadic / uniform(0.01,10); dtypes bool, int8, uint8, int32, int64, '
        'float32, float64 on adjacency and biadjacency; unsorted and duplicate-entry (non-canonical) CSR, including bool / '
        'weight-1 duplicates and int8 / uint8 duplicates whose sum approaches or leaves the dtype; containers; '
        'temperatures from {0,1,2,3,0.5,2.5,7,10,0.1} or uniform(0,10); values as ndarray (float64/float32/int32/bool), list, '
        'dict (python or numpy keys/values); init None / in / out of range, python int or numpy float; n_iter up to 30 '
        '(quick: some 100; thorough: 100 and 300 on small graphs) and 64 / 65 / 100 / 300 on slow-mixing lazy chains; damping in [0,1] and outside; refit of an already fitted '
        'estimator object; degenerate stream (no seeds, empty dict, bad lengths, bad keys, n_iter<=0, empty matrix, all-zero '
        'dense matrix, sinks, explicit zeros, negative weights); normalize(matrix) itself on every distinct matrix and on '
        'signed matrices with explicit zeros; scale invariance: the same calls with all weights multiplied by 2^-30, 2^-40, 2^40, '
        '1e-9, 1e-12, 1e+12, 3e-10 (run + bounds lines and the metamorphic line values(cA) = values(A)), graphs with one node '
        'attached by edges of weight 3e-10 … 1e-7 next to weights of order 1; harmonic limit (also on rescaled graphs) on undirected connected graphs (self-loops kept) and on '
        'digraphs in which every node reaches a seed, n<=8. A case is non-trivial when the estimator returned values, some '
        'node is not a seed and two initial temperatures differ; distinct = distinct (estimator, matrix, arguments)')
ASSUMPTIONS = [
    'weights are compared through the dense denotation of the CSR matrix scipy builds from the input (scipy is the substrate)',
    'float64 results are compared with the exact rational model within 1e-11*(1+largest temperature); the bounds of the '
    'maximum principle are checked on float64 outputs with slack 1e-12*(1+|x|) (rounding of convex combinations: the '
    'literal statement fails by a few ulps on the unchanged code)',
    'the seed set is non-empty when init is None (otherwise the code returns NaN: modelled as an error value, excluded '
    'from the property)',
    'a dict with two keys denoting the same node (k and k-n) is not generated with different values (numpy leaves the '
    'result of repeated indices in an assignment undefined)',
    'duplicate entries of a non-canonical CSR matrix are generated with the same sign only (with cancelling signed '
    'duplicates get_norms adds |stored entries|, not |entries|: outside the non-negative weights of C14)',
    'duplicate entries are added as numbers by the float products of the adjacency path but IN THE DTYPE of the matrix by '
    'coo / lil / dense containers and by sparse.bmat on the bipartite path (int8 100+100 -> -56, bool T+T -> T): the model '
    'receives the dense denotation of the CSR matrix these scipy conversions produce (`effective`), scipy being the substrate',
    'outputs containing +-inf (a weight below 6e-309 or a row sum above 1.8e308 leaves the float64 range) are answers '
    '`err NonFinite`; such weights are not generated',
]

PALETTE = [0, 1, 2, 3, 0.5, 2.5, 7, 10, 0.1]
ALPHAS = [0.5, 0.5, 0.25, 0.75, 1, 0, 0.85, 0.1, 0.125]
_LEGACY_DTYPE = {'float': 'float64', 'int': 'int64', 'bool': 'bool'}


# ----------------------------------------------------------------------------------------------
# scenarios
# ----------------------------------------------------------------------------------------------
def mk_matrix(nr, nc, edges, weights):
    if not edges:
        return sparse.csr_matrix((nr, nc), dtype=float)
    return sparse.csr_matrix((np.asarray(weights, dtype=float), ([e[0] for e in edges], [e[1] for e in edges])),
                             shape=(nr, nc))


def mat_desc(a, container='csr'):
    a = a if sparse.isspmatrix_csr(a) else sparse.csr_matrix(a)
    return {'shape': list(a.shape), 'indptr': a.indptr.tolist(), 'indices': a.indices.tolist(),
            'data': [float(x) for x in a.data], 'dtype': str(a.dtype), 'container': container}


def scenario(algo, a, values=None, values_row=None, values_col=None, init=None, force_bipartite=False, n_iter=3,
             alpha=0.5, container='csr', prefit=None):
    """A JSON-able description of one call. `a` is a scipy csr matrix (kept as stored: order, duplicates, dtype).
    Forms are [kind, payload] or [kind, payload, variant]. `prefit` = a first fit on the same estimator object."""
    sc = mat_desc(a, container)
    sc.update({'algo': algo, 'values': values, 'values_row': values_row, 'values_col': values_col, 'init': init,
               'force_bipartite': bool(force_bipartite), 'n_iter': int(n_iter), 'alpha': alpha, 'prefit': prefit})
    return sc


def sc_matrix(sc):
    dt = np.dtype(_LEGACY_DTYPE.get(sc.get('dtype', 'float64'), sc.get('dtype', 'float64')))
    return sparse.csr_matrix((np.array(sc['data'], dtype=float).astype(dt), np.array(sc['indices'], dtype=np.int32),
                              np.array(sc['indptr'], dtype=np.int32)), shape=tuple(sc['shape']))


def form_to_py(form):
    if form is None:
        return None
    kind, payload = form[0], form[1]
    variant = form[2] if len(form) > 2 else None
    if kind == 'arr':
        return np.array(payload, dtype=np.dtype(variant)) if variant else np.array(payload)
    if kind == 'list':
        return list(payload)
    if kind == 'dict':
        if variant == 'np':
            return {np.int64(k) if i % 2 == 0 else np.int32(k): np.float64(v) for i, (k, v) in enumerate(payload)}
        return {k: v for k, v in payload}
    raise ValueError(kind)


def enc_form(form):
    if form is None:
        return '_'
    kind, payload = form[0], form[1]
    if kind == 'arr':
        return 'a:' + enc_ratlist(Fraction(float(x)) for x in payload)
    if kind == 'list':
        return 'l:' + enc_ratlist(Fraction(float(x)) for x in payload)
    items = ['%d=%s' % (int(k), enc_rat(Fraction(float(v)))) for k, v in payload]
    return 'd:' + (','.join(items) if items else '-')


def effective(sc):
    """The CSR matrix the estimator works on: what `check_format` builds from the container (coo / lil / dense sum
    duplicate entries *in the dtype of the matrix*: int8 wraps, bool saturates) and, on the bipartite routing, the B block
    of `bipartite2undirected` (`sparse.bmat` sums duplicates in the dtype as well). Computed with scipy itself (substrate).
    The model receives the dense denotation (exact sum of the stored entries) of *this* matrix."""
    m = sparse.csr_matrix(container_of(sc_matrix(sc), sc.get('container', 'csr')))
    if is_bipartite(sc) and m.nnz:
        nr = m.shape[0]
        m = sparse.csr_matrix(sparse.bmat([[None, m], [m.T, None]], format='csr')[:nr, nr:])
    return m


def enc_csr(m):
    return ' '.join([str(m.shape[0]), str(m.shape[1]), enc_list(m.indptr), enc_list(m.indices),
                     enc_ratlist(Fraction(float(x)) for x in m.data)])


def enc_sc_matrix(sc, raw=False):
    return enc_csr(sc_matrix(sc) if raw else effective(sc))


def is_bipartite(sc):
    return bool(sc['force_bipartite'] or sc['values_row'] is not None or sc['values_col'] is not None
                or sc['shape'][0] != sc['shape'][1])


def form_seeds(form, n):
    """Independent reading of 'temperatures given as array, list or dict': {node: temperature >= 0}, or None if the
    form is not a well-formed description for n nodes."""
    kind, payload = form[0], form[1]
    out = {}
    if kind in ('arr', 'list'):
        if len(payload) != n:
            return None
        for i, x in enumerate(payload):
            if x >= 0:
                out[i] = x
        return out
    if not payload:
        return None
    seen = {}
    for k, v in payload:
        if not (-n <= k < n):
            return None
        k = k % n
        if k in seen and seen[k] != v:
            return None
        seen[k] = v
    return {k: v for k, v in seen.items() if v >= 0}


def abstract_seeds(sc):
    """{node (block numbering): temperature} the call is about, or None when the arguments are refused."""
    nr, nc = sc['shape']
    if is_bipartite(sc):
        if sc['values'] is not None:
            vr, vc = sc['values'], sc['values_col']      # `values` is the alias of `values_row`
        else:
            vr, vc = sc['values_row'], sc['values_col']
        if vr is None and vc is None:
            return {i: 1 for i in range(nr)}
        rows = {} if vr is None else form_seeds(vr, nr)
        cols = {} if vc is None else form_seeds(vc, nc)
        if rows is None or cols is None:
            return None
        out = dict(rows)
        out.update({nr + j: t for j, t in cols.items()})
        return out
    if sc['values'] is None:
        return {i: 1 for i in range(nr)}
    return form_seeds(sc['values'], nr)


def block_dense(sc):
    e = effective(sc)
    a = np.zeros(e.shape)
    for i in range(e.shape[0]):
        for p in range(e.indptr[i], e.indptr[i + 1]):
            a[i, e.indices[p]] += float(e.data[p])
    if is_bipartite(sc):
        nr, nc = sc['shape']
        w = np.zeros((nr + nc, nr + nc))
        w[:nr, nr:] = a
        w[nr:, :nr] = a.T
        return w
    return a


def container_of(a, kind):
    if kind == 'dense':
        return a.toarray()
    if kind == 'coo':
        return sparse.coo_matrix(a)
    if kind == 'csc':
        return sparse.csc_matrix(a)
    if kind == 'lil':
        return sparse.lil_matrix(a)
    return a


def scale_of(sc):
    """largest |temperature| the call can see (the rounding error of the float path is proportional to it)"""
    xs = [1.0]
    for k in ('values', 'values_row', 'values_col'):
        f = sc.get(k)
        if f is not None:
            xs += [abs(float(v)) for v in (f[1] if f[0] != 'dict' else [p[1] for p in f[1]])]
    if sc.get('init') is not None:
        xs.append(abs(float(sc['init'])))
    return Fraction(max(xs))


def _kwargs(sc):
    kw = {}
    for k in ('values', 'values_row', 'values_col'):
        if sc.get(k) is not None:
            kw[k] = form_to_py(sc[k])
    if sc.get('init') is not None:
        kw['init'] = np.float64(sc['init']) if sc.get('init_np') else sc['init']
    if sc.get('force_bipartite'):
        kw['force_bipartite'] = True
    return kw


def _arr(x):
    return None if x is None else np.asarray(x, dtype=float)


REUSED = {'count': 0}


def _same_object_state(x, y):
    if isinstance(x, np.ndarray):
        return isinstance(y, np.ndarray) and x.dtype == y.dtype and x.shape == y.shape and \
            np.array_equal(x, y, equal_nan=(x.dtype.kind == 'f'))
    if isinstance(x, dict):
        return list(x.keys()) == list(y.keys()) and all(_same_object_state(x[k], y[k]) for k in x)
    if isinstance(x, list):
        return len(x) == len(y) and all(_same_object_state(a, b) for a, b in zip(x, y))
    return type(x) is type(y) and (x == y or (x != x and y != y))


def run_impl(sc, n_iter=None):
    """Call the estimator through `fit_predict` (after a first fit on the same object when `prefit` is given).
    Returns ('ok', values_, values_row_|None, values_col_|None, (fit_predict, predict(), predict(columns=True)))
    or ('err', name). Any exception class is an answer (the model only knows a few: the rest shows as a disagreement)."""
    from sknetwork.regression import Diffusion, Dirichlet
    n_iter = sc['n_iter'] if n_iter is None else n_iter
    try:
        with warnings.catch_warnings():
            warnings.simplefilter('ignore')
            est = Diffusion(n_iter=n_iter, damping_factor=sc['alpha']) if sc['algo'] == 'diffusion' else Dirichlet(n_iter=n_iter)
            pre = sc.get('prefit')
            if pre is not None:
                try:
                    est.fit(container_of(sc_matrix(pre), pre.get('container', 'csr')), **_kwargs(pre))
                except (ValueError, IndexError, TypeError):
                    pass
            mat = container_of(sc_matrix(sc), sc.get('container', 'csr'))
            kw = _kwargs(sc)
            ref = copy.deepcopy(kw)
            fp = est.fit_predict(mat, **kw)
            if not all(_same_object_state(kw[k], ref[k]) for k in kw):
                # the call wrote into the temperatures it was given: the caller still holds these objects, so the answer that
                # is judged (against the temperatures he passed) is the one of a second estimator fitted with the same objects
                REUSED['count'] += 1
                sc['history'] = 'the first fit modified the temperatures object; judged: a second fit given the same object'
                est = Diffusion(n_iter=n_iter, damping_factor=sc['alpha']) if sc['algo'] == 'diffusion' else Dirichlet(n_iter=n_iter)
                fp = est.fit_predict(mat, **kw)
            v = _arr(est.values_)
            r = _arr(getattr(est, 'values_row_', None))
            c = _arr(getattr(est, 'values_col_', None))
            allv = np.concatenate([v] + ([c] if c is not None else []))
            if np.isnan(allv).any():
                return ('err', 'NaN')
            if not np.isfinite(allv).all():
                return ('err', 'NonFinite')     # the model never answers this: a disagreement with a replay, not a crash
            return ('ok', v, r, c, (_arr(fp), _arr(est.predict()), _arr(est.predict(columns=True))))
    except Exception as e:      # noqa: an unexpected class is reported with the failing input, not as a tool failure
        return ('err', type(e).__name__)


def _e(x):
    return '_' if x is None else enc_ratlist(Fraction(float(t)) for t in x)


def enc_out(res):
    if res[0] == 'err':
        return 'err ' + res[1]
    return 'ok %s %s %s' % (_e(res[1]), _e(res[2]), _e(res[3]))


def block_out(res):
    """the output in the numbering of the graph the property is about"""
    if res[2] is not None:
        return list(res[2]) + list(res[3])
    return list(res[1])


def seen_nnz(sc):
    """number of stored entries of the CSR matrix `check_format` builds from the container the code receives"""
    return int(sparse.csr_matrix(container_of(sc_matrix(sc), sc.get('container', 'csr'))).nnz)


def enc_init(sc):
    return '_' if sc['init'] is None else enc_rat(Fraction(float(sc['init'])))


def run_line(sc):
    return 'c14.fit %s %s %d %s %s %s %s %s %d %s' % (
        sc['algo'], enc_sc_matrix(sc), seen_nnz(sc), enc_form(sc['values']), enc_form(sc['values_row']),
        enc_form(sc['values_col']), enc_init(sc), enc_bool(sc['force_bipartite']),
        sc['n_iter'], enc_rat(Fraction(float(sc['alpha']))))


def enc_seeds(seeds):
    return ','.join('%d=%s' % (k, enc_rat(Fraction(float(v)))) for k, v in sorted(seeds.items())) or '-'


def maxp_applicable(sc, seeds, w):
    """The hypotheses of the property (weakest form proved in Properties/C14.lean)."""
    if not seeds:
        return False
    if (w < 0).any():
        return False
    lo, hi = min(seeds.values()), max(seeds.values())
    if sc['init'] is not None and not (lo <= sc['init'] <= hi):
        return False
    if sc['algo'] == 'diffusion':
        return 0 <= sc['alpha'] <= 1
    out_w = w.sum(axis=1)
    return all(i in seeds or out_w[i] > 0 for i in range(w.shape[0]))


_COUNTS = {}


def ctx_count(key, k=1):
    _COUNTS[key] = _COUNTS.get(key, 0) + k


def sig_of(sc, clause):
    return {'entry': 'Diffusion.fit' if sc['algo'] == 'diffusion' else 'Dirichlet.fit', 'bipartite': is_bipartite(sc),
            'clause': clause}


def _key(kind, sc):
    return (kind, json.dumps(sc, sort_keys=True, default=str))


def cases_of_scenario(sc, with_run=True):
    """run line + maximum-principle spec line, + boundary and returned-value spec lines, for one scenario"""
    res = run_impl(sc)
    impl = enc_out(res)
    spec = None
    seeds = abstract_seeds(sc)
    w = block_dense(sc)
    nontriv = False
    out = []
    desc = {'kind': 'fit', 'scenario': sc}
    if res[0] == 'ok' and seeds is not None:
        n = w.shape[0]
        nontriv = len(seeds) < n and len(set(seeds.values()) | ({sc['init']} if sc['init'] is not None else set())) > 1
        if maxp_applicable(sc, seeds, w):
            ctx_count('spec:max-principle')
            spec = 'c14.spec_maxp %s %s %s %s %s %s %s %s' % (
                sc['algo'], enc_sc_matrix(sc), enc_bool(is_bipartite(sc)), enc_seeds(seeds), enc_init(sc),
                enc_rat(Fraction(float(sc['alpha']))), enc_rat(SPEC_TOL), impl[3:])
        if sc['algo'] == 'dirichlet':
            # `dirichlet_boundary` holds for every graph and every init: checked wherever Dirichlet returned
            ctx_count('spec:boundary')
            out.append(Case(_key('boundary', sc), sig_of(sc, 'boundary'), None, impl,
                            'c14.spec_boundary %d %d %s %s %s' % (sc['shape'][0], sc['shape'][1], enc_bool(is_bipartite(sc)),
                                                                  enc_seeds(seeds), impl[3:]), False, desc))
    if res[0] == 'ok':
        ctx_count('spec:returned')
        fp, pr, prc = res[4]
        out.append(Case(_key('returned', sc), sig_of(sc, 'returned-values'), None, impl,
                        'c14.spec_returned %s %s %s %s' % (impl[3:], _e(fp), _e(pr), _e(prc)), False, desc))
    main = Case(_key('fit', sc), sig_of(sc, 'max-principle/boundary'), run_line(sc) if with_run else None, impl, spec,
                nontriv, desc, tol=RUN_TOL * (1 + scale_of(sc)))
    return [main] + out


def forms_case(sc, seeds_by_side):
    """the same temperatures as ndarray, list and dict: identical outputs"""
    outs = []
    for kind in ('arr', 'list', 'dict'):
        s2 = dict(sc)
        for side, (n, seeds) in seeds_by_side.items():
            s2[side] = make_form(kind, n, seeds)
        outs.append(enc_out(run_impl(s2)).replace(' ', '|'))
    ctx_count('spec:input-forms')
    spec = 'c14.spec_forms %s %s %s' % tuple(outs)
    key = ('forms', json.dumps(sc, sort_keys=True, default=str), json.dumps(sorted((k, v[0], sorted(v[1].items())) for k, v in seeds_by_side.items())))
    return Case(key, sig_of(sc, 'input-forms'), None, outs[0], spec, True,
                {'kind': 'forms', 'scenario': sc, 'seeds_by_side': {k: [v[0], sorted(v[1].items())] for k, v in seeds_by_side.items()}})


def make_form(kind, n, seeds, rng=None, filler=-1):
    """seeds {node: temp} on n nodes in the requested form (numpy-typed variants when `rng` is given)"""
    if kind in ('arr', 'list'):
        payload = [seeds.get(i, filler) for i in range(n)]
        if rng is not None and kind == 'arr' and rng.random() < 0.25:
            if all(float(x) == int(x) for x in payload):
                return ['arr', [int(x) for x in payload], 'int32']
            if all(float(np.float32(x)) == float(x) for x in payload):
                return ['arr', payload, 'float32']
        return [kind, payload]
    items = [[k, v] for k, v in seeds.items()]
    if rng is not None:
        rng.shuffle(items)
        if rng.random() < 0.15:
            free = [i for i in range(n) if i not in seeds]
            if free:
                items.append([rng.choice(free), -rng.choice([1, 2, 0.5])])   # a negative temperature: ignored
        if rng.random() < 0.15:
            items = [[k - n, v] if rng.random() < 0.5 else [k, v] for k, v in items]   # numpy's negative index
        if rng.random() < 0.2:
            return ['dict', items, 'np']
    return ['dict', items]


def normalize_case(a):
    """`normalize(matrix)` observed directly: run line (stored entries of every row) + the stochastic clause."""
    from sknetwork.linalg.normalizer import normalize
    a = a if sparse.isspmatrix_csr(a) else sparse.csr_matrix(a)
    sc = scenario('dirichlet', a)
    g = enc_sc_matrix(sc, raw=True)
    try:
        with warnings.catch_warnings():
            warnings.simplefilter('ignore')
            q = sparse.csr_matrix(normalize(a.copy()))
        q.sum_duplicates()
        q.sort_indices()
        impl = 'ok %s %s %s' % (enc_list(q.indptr), enc_list(q.indices), enc_ratlist(Fraction(float(x)) for x in q.data))
        spec = 'c14.spec_stochastic %s %s %s' % (g, enc_rat(STOCH_TOL), impl[3:])
        ctx_count('spec:stochastic')
    except Exception as e:      # noqa
        impl, spec = 'err ' + type(e).__name__, None
    return Case(('normalize', g, sc['dtype']), {'entry': 'normalize', 'clause': 'row-stochastic'}, 'c14.normalize ' + g, impl,
                spec, a.nnz > 0, {'kind': 'normalize', 'scenario': sc}, canon='normalize', tol=RUN_TOL * 2)


def harmonic_cases(sc, rng, with_nonexp=True, k=None, only=None):
    """Dirichlet after many rounds against the harmonic extension; the number of rounds is raised until two runs agree
    (only to choose it: the judgement is the exact solution computed and verified in Lean)."""
    seeds = abstract_seeds(sc)
    out = []
    scale = scale_of(sc)
    g = '%s %s %s' % (enc_sc_matrix(sc), enc_bool(is_bipartite(sc)), enc_seeds(seeds))
    def refused(res, k_):
        # Dirichlet refuses a call the model accepts: a run line for that very call (-> disagreement with a replay)
        ctx_count('harmonic:refused')
        sck = dict(sc, n_iter=k_)
        return [Case(_key('fit', sck), sig_of(sc, 'harmonic-limit'), run_line(sck), enc_out(res), None, True,
                     {'kind': 'fit', 'scenario': sck}, tol=RUN_TOL * (1 + scale))]

    if only != 'nonexp':
        n_it = 400
        prev = run_impl(sc, n_it)
        if prev[0] != 'ok':
            return refused(prev, n_it)
        while n_it < 400000:
            n_it *= 4
            cur = run_impl(sc, n_it)
            if cur[0] != 'ok':
                return refused(cur, min(n_it, 1600))
            if np.max(np.abs(np.array(block_out(cur)) - np.array(block_out(prev)))) <= 1e-13:
                prev = cur
                break
            prev = cur
        spec = 'c14.spec_harmonic %s %s %s' % (g, enc_rat(HARMONIC_TOL * (1 + scale)),
                                               enc_ratlist(Fraction(float(x)) for x in block_out(prev)))
        ctx_count('spec:harmonic-limit')
        ctx_count('harmonic-rounds:%d' % n_it)
        sc2 = dict(sc, n_iter=n_it)
        out.append(Case(_key('harmonic', sc2), sig_of(sc, 'harmonic-limit'), None, enc_out(prev), spec, True,
                        {'kind': 'harmonic', 'scenario': sc2}))
    if with_nonexp and only != 'harmonic':
        k = rng.choice([1, 2, 3, 5, 8, 13]) if k is None else k
        r1, r2 = run_impl(sc, k), run_impl(sc, k + 1)
        if r1[0] != 'ok' or r2[0] != 'ok':
            out += refused(r1 if r1[0] != 'ok' else r2, k if r1[0] != 'ok' else k + 1)
        else:
            spec = 'c14.spec_nonexp %s %s %s %s' % (g, enc_rat(NONEXP_TOL * (1 + scale)),
                                                    enc_ratlist(Fraction(float(x)) for x in block_out(r1)),
                                                    enc_ratlist(Fraction(float(x)) for x in block_out(r2)))
            ctx_count('spec:non-expansive')
            sc3 = dict(sc, n_iter=k)
            out.append(Case(_key('nonexp', sc3), sig_of(sc, 'non-expansive'), None, enc_out(r2), spec, True,
                            {'kind': 'nonexp', 'scenario': sc3}))
    return out


# ----------------------------------------------------------------------------------------------
# comparison / evaluation
# ----------------------------------------------------------------------------------------------
def _close(m, i, tol):
    return abs(m - i) <= tol


def _same(c, model, impl):
    if model.startswith('err') or impl.startswith('err'):
        return model == impl
    tol = c.tol if c.tol is not None else RUN_TOL * 2
    mt, it = model.split(' '), impl.split(' ')
    if c.canon == 'normalize':
        if len(mt) != 4 or len(it) != 4 or mt[1] != it[1] or mt[2] != it[2]:
            return False
        x, y = dec_ratlist(mt[3]), dec_ratlist(it[3])
        return len(x) == len(y) and all(_close(p, q, tol) for p, q in zip(x, y))
    if len(mt) != 4 or len(it) != 4 or mt[0] != 'ok' or it[0] != 'ok':
        return False
    for a, b in zip(mt[1:], it[1:]):
        if (a == '_') != (b == '_'):
            return False
        if a == '_':
            continue
        x, y = dec_ratlist(a), dec_ratlist(b)
        if len(x) != len(y) or not all(_close(p, q, tol) for p, q in zip(x, y)):
            return False
    return True


def evaluate(ctx, cases):
    """As vlib.cases.evaluate, with the tolerance of the case, and with a driver answer that signals a mismatch of
    preconditions between Python and Lean (`pre-fails …`, `bad-args`, unknown command) treated as a tool failure:
    it is a bug of the harness, never a verdict about the code."""
    lines, idx = [], []
    for c in cases:
        idx.append(len(lines))
        if c.run:
            lines.append(c.run)
        if c.spec:
            lines.append(c.spec)
    answers = ctx.lean(lines)
    for c, i in zip(cases, idx):
        model = answers[i] if c.run else None
        ctx.case(c.key, c.nontrivial, sample={'request': c.run or c.spec, 'model': model, 'impl': c.impl})
        ctx.count('entry:' + str(c.sig.get('entry')))
        ctx.count('answer:' + ('error' if str(c.impl).startswith('err') else 'ok'))
        spec_ok = True
        if c.spec:
            sp = answers[i + (1 if c.run else 0)]
            if sp.startswith(('pre-fails', 'bad-args', 'unknown-cmd')):
                raise ToolFailure('driver refused spec line %r -> %r' % (c.spec[:400], sp))
            if sp != 'holds':
                spec_ok = False
                ctx.spec_fail(c.sig, c.desc, {'spec_line': c.spec, 'spec_answer': sp, 'impl': c.impl, 'model': model})
        if not c.run:
            continue
        if model.startswith('unknown-cmd') or model == 'bad-args':
            raise ToolFailure('driver rejected request %r -> %r' % (c.run[:400], model))
        if model != c.impl and not _same(c, model, c.impl) and spec_ok:
            ctx.disagree(c.sig, c.desc, model, c.impl, c.run)


# ----------------------------------------------------------------------------------------------
# generators
# ----------------------------------------------------------------------------------------------
def pick_temps(rng, nodes, mode=None):
    mode = mode or rng.choice(['positive', 'withzero', 'any', 'any', 'any', 'uniform'])
    if mode == 'uniform':
        return {i: rng.uniform(0, 10) for i in nodes}
    pal = {'positive': [1, 2, 3, 0.5, 2.5, 7, 10, 0.1], 'withzero': [0, 0, 1, 2, 5], 'any': PALETTE}[mode]
    return {i: rng.choice(pal) for i in nodes}


def pick_init(rng, seeds):
    r = rng.random()
    if r < 0.55 or not seeds:
        return None
    lo, hi = min(seeds.values()), max(seeds.values())
    if r < 0.85:
        x = rng.choice([lo, hi, (lo + hi) / 2, lo + (hi - lo) / 4])
        return int(x) if float(x) == int(x) and rng.random() < 0.5 else x      # a python int now and then
    return rng.choice([hi + 1, lo - 0.5, 100])      # outside the range: run line only


def weights_for(rng, es, mode, symmetric=False):
    if mode == 'uniform':
        pal = [rng.uniform(0.01, 10) for _ in range(6)]
    else:
        pal = {'ones': [1], 'int': [1, 2, 3, 5], 'dyadic': [1, 2, 0.5, 0.25, 3]}[mode]
    if symmetric:
        return graphs.sym_weights(rng, es, pal)
    return [rng.choice(pal) for _ in es]


def pick_wmode(rng):
    return rng.choice(['ones', 'int', 'int', 'dyadic', 'dyadic', 'uniform'])


def cast_dtype(a, rng, wmode, ctx=None, p=0.35):
    """the same matrix stored with another dtype (values are exactly representable in it)"""
    if rng.random() >= p:
        return a
    if wmode == 'uniform':
        return a
    dt = {'ones': ['bool', 'int8', 'uint8', 'int32', 'int64', 'float32'], 'int': ['int64', 'int32', 'int8', 'uint8', 'float32'],
          'dyadic': ['float32']}[wmode]
    d = rng.choice(dt)
    if ctx is not None:
        ctx.count('dtype:' + d)
    return a.astype(np.dtype(d))


def noncanonical_copy(a, rng):
    """Same matrix, CSR storage with duplicate entries: some stored entries are split into two of the same sign
    (x = x/2 + x/2 for floats, x = 1 + (x-1) for integers > 1; a weight 1 and a bool True are stored twice, which makes the
    weight 2 where duplicates are added as numbers and leaves True where they are added in the dtype)."""
    a = a.tocsr()
    rows = []
    integer = a.dtype.kind in 'iub'
    for i in range(a.shape[0]):
        ent = []
        for p in range(a.indptr[i], a.indptr[i + 1]):
            j, x = int(a.indices[p]), a.data[p]
            if rng.random() < 0.4:
                if a.dtype == bool:
                    parts = [x, x]                    # True stored twice: summed to 2 by a float product, or-ed by bmat / coo
                elif integer:
                    parts = [1, x - 1] if x > 1 else [x, x]     # 1 stored twice is the weight 2
                else:
                    parts = [x / 2, x / 2]
                if not integer and float(parts[0]) * 2 != float(x):
                    parts = [x]
                ent += [(j, q) for q in parts]
            else:
                ent.append((j, x))
        rng.shuffle(ent)
        rows.append(ent)
    indptr = np.cumsum([0] + [len(r) for r in rows]).astype(np.int32)
    indices = np.array([j for r in rows for j, _ in r], dtype=np.int32)
    data = np.array([x for r in rows for _, x in r], dtype=a.dtype)
    out = sparse.csr_matrix((data, indices, indptr), shape=a.shape)
    out.has_sorted_indices = False
    return out


def storage_variant(a, rng, ctx=None):
    r = rng.random()
    if r < 0.25:
        if ctx is not None:
            ctx.count('storage:unsorted')
        return graphs.unsorted_copy(a, rng)
    if r < 0.45:
        if ctx is not None:
            ctx.count('storage:duplicates')
        return noncanonical_copy(a, rng)
    return a


def square_scenarios(rng, a, seed_sets, algos=('diffusion', 'dirichlet'), n_iters=(1, 2, 3), forms=None, ctx=None):
    n = a.shape[0]
    out = []
    for nodes in seed_sets:
        for algo in algos:
            seeds = pick_temps(rng, nodes)
            kind = rng.choice(forms or ['arr', 'list', 'dict', 'dict'])
            form = make_form(kind, n, seeds, rng, filler=rng.choice([-1, -1, -2, -0.5]))
            sc = scenario(algo, a, values=form, init=pick_init(rng, seeds), n_iter=rng.choice(n_iters),
                          alpha=rng.choice(ALPHAS) if algo == 'diffusion' else 0.5)
            if sc['init'] is not None and rng.random() < 0.3:
                sc['init_np'] = True
            out.append(sc)
            if ctx is not None:
                ctx.count('form:' + kind + (':' + form[2] if len(form) > 2 else ''))
    return out


def bip_scenarios(rng, b, count, ctx=None):
    nr, nc = b.shape
    out = []
    for _ in range(count):
        algo = rng.choice(['diffusion', 'dirichlet'])
        rows = sorted(rng.sample(range(nr), rng.randint(0, nr)))
        cols = sorted(rng.sample(range(nc), rng.randint(0, nc)))
        mode = rng.choice(['rowcol', 'rowcol', 'row', 'col', 'values', 'none'])
        temps = pick_temps(rng, list(range(nr + nc)))
        rs = {i: temps[i] for i in rows}
        cs = {j: temps[nr + j] for j in cols}
        kw = {}
        if mode in ('rowcol', 'row') and rs:
            kw['values_row'] = make_form(rng.choice(['arr', 'list', 'dict']), nr, rs, rng)
        if mode in ('rowcol', 'col') and cs:
            kw['values_col'] = make_form(rng.choice(['arr', 'list', 'dict']), nc, cs, rng)
        if mode == 'values' and rs:
            kw['values'] = make_form(rng.choice(['arr', 'list', 'dict']), nr, rs, rng)
            if rng.random() < 0.3 and cs:
                kw['values_col'] = make_form('dict', nc, cs, rng)     # `values` = row seeds, together with column seeds
        fb = (nr == nc and not any(k in kw for k in ('values_row', 'values_col'))) or rng.random() < 0.2
        passed = {}
        if 'values_row' in kw or 'values' in kw:
            passed.update(rs)
        if 'values_col' in kw:
            passed.update({nr + j: t for j, t in cs.items()})
        if not kw:
            passed = {i: 1 for i in range(nr)}
        sc = scenario(algo, b, init=pick_init(rng, passed), force_bipartite=fb, n_iter=rng.choice([1, 2, 3, 4, 6]),
                      alpha=rng.choice(ALPHAS) if algo == 'diffusion' else 0.5, **kw)
        out.append(sc)
        if ctx is not None:
            ctx.count('bipartite-mode:' + mode)
    return out


def prefit_desc(rng, bipartite):
    """a first input for the same estimator object: of the *other* kind than the scenario it precedes"""
    if bipartite:
        a = mk_matrix(3, 3, [(0, 1), (1, 2), (2, 0), (0, 2)], [1, 2, 1, 3])
        d = mat_desc(a)
        d.update({'values': ['dict', [[0, 4], [1, 6]]], 'values_row': None, 'values_col': None, 'init': None, 'force_bipartite': False})
        return d
    b = mk_matrix(2, 3, [(0, 0), (0, 2), (1, 1), (1, 2)], [1, 2, 1, 1])
    d = mat_desc(b)
    d.update({'values': None, 'values_row': ['dict', [[0, 4]]], 'values_col': ['list', [-1, 6, 5]], 'init': None, 'force_bipartite': False})
    return d


def degenerate_scenarios(rng):
    a = mk_matrix(3, 3, [(0, 1), (1, 2), (2, 0), (0, 2)], [1, 2, 1, 3])
    sink = mk_matrix(3, 3, [(0, 1), (2, 0), (2, 1)], [1, 1, 2])
    expl0 = sparse.csr_matrix((np.array([1., 0., 2., 0., 1.]), np.array([1, 2, 0, 1, 0]), np.array([0, 2, 3, 5])), shape=(3, 3))
    only0 = sparse.csr_matrix((np.array([0., 0.]), np.array([1, 0]), np.array([0, 1, 2, 2])), shape=(3, 3))
    neg = mk_matrix(3, 3, [(0, 1), (0, 2), (1, 0), (2, 0), (2, 1)], [1, -1, 2, 1, 1])
    dup = sparse.csr_matrix((np.array([0.5, 0.5, 1., 2., 1., 2.]), np.array([1, 1, 2, 0, 0, 1]), np.array([0, 3, 4, 6])), shape=(3, 3))
    b = mk_matrix(2, 3, [(0, 0), (0, 2), (1, 1)], [1, 2, 1])
    out = []
    for algo in ('diffusion', 'dirichlet'):
        for v in (['dict', []], ['dict', [[5, 1]]], ['dict', [[-4, 1]]], ['list', [1, 2]], ['arr', [1, 0, 1, 0]],
                  ['dict', [[0, -1]]], ['list', [-1, -1, -1]], ['dict', [[-1, 3], [0, 1]]], None,
                  ['dict', [[0, 2], [1, -3]]], ['arr', [-2, 4, -0.5]], ['arr', [1, 0, 1], 'bool'], ['arr', [2, -1, 0], 'int32'],
                  ['dict', [[0, 1.5], [2, 0]], 'np'], ['list', [3, 3, 3]]):
            out.append(scenario(algo, a, values=v, n_iter=2))
            out.append(scenario(algo, a, values=v, n_iter=1, init=1.5))
        out.append(scenario(algo, a, values=['dict', [[0, 1], [2, 3]]], n_iter=2, init=0))       # init = 0 is not "no init"
        out.append(scenario(algo, a, values=['dict', [[0, 0], [2, 3]]], n_iter=2, init=2))       # a python int
        for k in (0, -1):
            out.append(scenario(algo, a, values=['dict', [[0, 1]]], n_iter=k))
        out.append(scenario(algo, sparse.csr_matrix((3, 3)), values=['dict', [[0, 1]]]))
        for cont in ('csr', 'dense', 'lil', 'coo'):
            # stored zeros only: `check_format` sees them in a sparse container, not in a dense one
            out.append(scenario(algo, only0, values=['dict', [[0, 1]]], n_iter=1, container=cont))
        for m in (sink, expl0, neg, dup):
            for v in (['dict', [[0, 2], [2, 3]]], ['list', [-1, 4, -1]], ['arr', [1, -1, 5]]):
                out.append(scenario(algo, m, values=v, n_iter=rng.choice([1, 2, 3])))
        for df in (2, -1, 1.5):
            out.append(scenario('diffusion', a, values=['dict', [[0, 1], [1, 0]]], n_iter=2, alpha=df))
        # rectangular / forced bipartite refusals
        for kw in ({'values_row': ['list', [1, 2, 3]]}, {'values_col': ['list', [1, 2]]}, {'values_row': ['dict', [[2, 1]]]},
                   {'values_col': ['dict', [[3, 1]]]}, {'values': ['arr', [1, 0, 2, 1, 1]]}, {},
                   {'values': ['dict', [[0, 2]]], 'values_row': ['dict', [[1, 1]]]}, {'values_col': ['dict', [[-1, 4]]]},
                   {'values': ['dict', [[0, 2]]], 'values_col': ['dict', [[1, 5]]]}, {'values': ['list', [3, -1]], 'values_col': ['arr', [-1, -1, 4]]}):
            out.append(scenario(algo, b, n_iter=2, **kw))
        for cont in ('dense', 'coo', 'csc', 'lil'):
            out.append(scenario(algo, a, values=['dict', [[0, 1], [2, 0]]], n_iter=2, container=cont))
            out.append(scenario(algo, dup, values=['dict', [[0, 1], [2, 0]]], n_iter=2, container=cont))
        for dt in ('int64', 'bool', 'int8', 'uint8', 'int32', 'float32'):
            out.append(scenario(algo, a.astype(np.dtype(dt)), values=['dict', [[0, 1], [2, 0]]], n_iter=3))
            out.append(scenario(algo, b.astype(np.dtype(dt)), values_col=['dict', [[0, 1], [2, 0]]], n_iter=3))
        # the same estimator object fitted twice: nothing of the first fit may survive
        out.append(scenario(algo, a, values=['dict', [[0, 1], [2, 0]]], n_iter=2, prefit=prefit_desc(rng, False)))
        out.append(scenario(algo, b, values_row=['dict', [[0, 1]]], values_col=['dict', [[1, 3]]], n_iter=2, prefit=prefit_desc(rng, True)))
        out.append(scenario(algo, b, n_iter=2, prefit=prefit_desc(rng, True)))
        out.append(scenario(algo, a, values=['list', [1, 2]], n_iter=2, prefit=prefit_desc(rng, False)))      # refused refit
    return out


def lazy_chain(rng, n=4):
    """a path whose nodes mostly stay where they are (heavy self-loops): rounds 64, 100 and 300 differ by far more than
    the tolerances while the exact arithmetic stays cheap"""
    loop = rng.choice([20, 32, 50])
    es, w = [], []
    for i in range(n):
        es.append((i, i))
        w.append(loop)
        if i + 1 < n:
            es += [(i, i + 1), (i + 1, i)]
            w += [1, 1]
    return mk_matrix(n, n, es, w)


def lazy_scenarios(rng, n_iters):
    a = lazy_chain(rng)
    n = a.shape[0]
    out = []
    for algo in ('diffusion', 'dirichlet'):
        seeds = {0: rng.choice([1, 2, 8]), n - 1: 0} if rng.random() < 0.5 else {0: rng.choice([1, 2, 8])}
        sc = scenario(algo, a, values=make_form(rng.choice(['arr', 'list', 'dict']), n, seeds), init=0 if len(seeds) == 1 else None,
                      n_iter=rng.choice(n_iters), alpha=rng.choice([0.125, 0.5, 1]))
        out.append(sc)
    return out


def narrow_duplicates(rng):
    """int8 / uint8 / bool matrices (square and rectangular) with duplicate entries whose sum approaches or leaves the
    dtype: added as numbers by the float products of the adjacency path, *in the dtype* by coo / lil / dense containers
    and by `sparse.bmat` on the bipartite path (the model receives what those conversions produce, see `effective`)."""
    out = []
    for dt, pairs in (('int8', [(60, 60), (100, 27), (100, 100)]), ('uint8', [(200, 50), (128, 127), (200, 100)]),
                      ('bool', [(1, 1)])):
        x, y = rng.choice(pairs)
        for shape in ((2, 2), (2, 3)):
            data = np.array([x, y, 1, 1], dtype=np.dtype(dt))
            m = sparse.csr_matrix((data, np.array([0, 0, 1, shape[1] - 1]), np.array([0, 3, 4])), shape=shape)
            for algo in ('diffusion', 'dirichlet'):
                if shape[0] == shape[1]:
                    out.append(scenario(algo, m, values=['dict', [[0, 1], [1, 3]]], n_iter=3,
                                        container=rng.choice(['csr', 'csr', 'coo', 'dense', 'lil', 'csc'])))
                    out.append(scenario(algo, m, values_row=['dict', [[0, 1]]], values_col=['dict', [[1, 3]]], n_iter=3))
                else:
                    out.append(scenario(algo, m, values_col=['dict', [[1, 3], [0, 1]]], n_iter=2))
    return out


SCALES = [2.0 ** -30, 2.0 ** -40, 2.0 ** 40, 1e-9, 1e-12, 1e12, 1e-9, 3e-10]


def has_duplicates(sc):
    ip, ix = sc['indptr'], sc['indices']
    return any(len(set(ix[ip[i]:ip[i + 1]])) != ip[i + 1] - ip[i] for i in range(len(ip) - 1))


def scaled_scenario(sc, c):
    """the same call on the graph with every weight multiplied by c (float64 storage, same sparsity pattern)"""
    sc2 = dict(sc)
    # (scipy's astype would sum duplicate entries: the storage is kept as it is, only the numbers change)
    sc2.update({'data': [float(np.float64(x) * np.float64(c)) for x in sc['data']], 'dtype': 'float64', 'scale_of': c})
    return sc2


def scale_case(sc, sc2):
    """metamorphic line on the implementation: values(c*A) = values(A)"""
    r1, r2 = run_impl(sc), run_impl(sc2)
    if r1[0] != 'ok' or r2[0] != 'ok':
        if r1[:2] == r2[:2]:
            return []
        # one of the two graphs is refused / non-finite: a run line for the scaled call settles which
        return [Case(_key('fit', sc2), sig_of(sc2, 'scale-invariance'), run_line(sc2), enc_out(r2), None, True,
                     {'kind': 'fit', 'scenario': sc2}, tol=RUN_TOL * (1 + scale_of(sc2)))]
    ctx_count('spec:scale-invariance')
    spec = 'c14.spec_scale %s %s %s' % (enc_rat(SCALE_TOL * (1 + scale_of(sc))), enc_out(r1)[3:], enc_out(r2)[3:])
    return [Case(_key('scale', sc2), sig_of(sc2, 'scale-invariance'), None, enc_out(r2), spec, True,
                 {'kind': 'scale', 'scenario': sc2, 'unscaled': sc})]


def weak_attach_scenarios(rng, ctx=None):
    """a graph with weights of order 1 plus one node attached by edges of weight 1e-9 … 1e-7: its total weight is tiny,
    its row of the transition matrix is not null"""
    out = []
    n0 = rng.randint(2, 7)
    es = graphs.structured(rng, rng.choice(['path', 'cycle', 'star', 'clique', 'random_undirected', 'dicycle', 'random_directed']), n0)
    es = [e for e in es if e[0] != e[1]]
    if not es:
        return out
    w = weights_for(rng, es, rng.choice(['ones', 'int', 'dyadic']))
    eps = rng.choice([2e-9, 1e-9, 2.0 ** -30, 5e-8, 1e-7, 3e-10, 9e-9])
    nb = rng.sample(range(n0), min(n0, rng.choice([1, 2])))
    es2, w2 = list(es), list(w)
    for j in nb:
        es2 += [(n0, j), (j, n0)]
        w2 += [eps, eps * rng.choice([1, 1, 2])]
    a = mk_matrix(n0 + 1, n0 + 1, es2, w2)
    nodes = sorted(rng.sample(range(n0), rng.randint(1, n0)))
    seeds = pick_temps(rng, nodes, 'positive')
    for algo in ('diffusion', 'dirichlet'):
        out.append(scenario(algo, a, values=make_form(rng.choice(['arr', 'list', 'dict']), n0 + 1, seeds),
                            n_iter=rng.choice([1, 2, 3, 10]), alpha=rng.choice(ALPHAS) if algo == 'diffusion' else 0.5))
    if ctx is not None:
        ctx.count('weakly-attached-node')
    return out


def is_connected_undirected(n, es):
    adj = {i: set() for i in range(n)}
    for i, j in es:
        adj[i].add(j)
        adj[j].add(i)
    seen, todo = {0}, [0]
    while todo:
        u = todo.pop()
        for v in adj[u]:
            if v not in seen:
                seen.add(v)
                todo.append(v)
    return len(seen) == n


def all_reach(n, es, seeds):
    """every node reaches a seed along the directed edges"""
    ok = set(seeds)
    changed = True
    while changed:
        changed = False
        for i, j in es:
            if j in ok and i not in ok:
                ok.add(i)
                changed = True
    return len(ok) == n


def corpus_cases(ctx, rng):
    cases = []
    cpath = os.path.join(VERIF, 'corpus', 'C14.jsonl')
    if os.path.exists(cpath):
        for ln in open(cpath):
            ln = ln.strip()
            if ln and not ln.startswith('#'):
                cases += cases_of_desc(json.loads(ln), rng)
                ctx.count('corpus')
    return cases


def build_cases(ctx):
    rng = ctx.rng
    quick = ctx.quick
    scs = []
    # corpus first: failing inputs of past mutants / seeded defects
    cases = corpus_cases(ctx, rng)
    # 1. exhaustive digraphs n <= 3
    for n in (1, 2, 3):
        for es in graphs.all_digraphs(n, loops=(n <= 2)):
            if not es:
                continue
            a = mk_matrix(n, n, es, weights_for(rng, es, rng.choice(['ones', 'int'])))
            scs += square_scenarios(rng, a, list(graphs.nonempty_subsets(n)), ctx=ctx)
            ctx.count('exhaustive-digraph:n=%d' % n)
    # 2. n = 4 digraphs
    g4 = [es for es in graphs.all_digraphs(4) if es]
    if quick:
        g4 = rng.sample(g4, 300)
    for es in g4:
        wmode = pick_wmode(rng)
        a = cast_dtype(mk_matrix(4, 4, es, weights_for(rng, es, wmode)), rng, wmode, ctx, p=0.2)
        subs = list(graphs.nonempty_subsets(4))
        scs += square_scenarios(rng, a, rng.sample(subs, 2 if quick else 4), n_iters=(1, 2, 3, 5, 30), ctx=ctx)
        ctx.count('digraph:n=4')
    # long runs on small graphs (exact numerators of several thousand digits)
    for _ in range(6 if quick else 60):
        n = rng.choice([2, 3, 4])
        es = graphs.random_edges(rng, n, 0.6, directed=True, loops=True)
        if not es:
            continue
        a = mk_matrix(n, n, es, weights_for(rng, es, rng.choice(['int', 'dyadic'])))
        nodes = sorted(rng.sample(range(n), rng.randint(1, n)))
        scs += square_scenarios(rng, a, [nodes], n_iters=((100,) if quick else (100, 300)), ctx=ctx)
        ctx.count('long-run')
    for _ in range(4 if quick else 30):
        scs += lazy_scenarios(rng, (64, 65, 100) if quick else (64, 65, 100, 300))
        ctx.count('long-run:lazy-chain')
    nd = narrow_duplicates(rng)
    scs += nd
    ctx.count('narrow-dtype-duplicates', len(nd))
    if not quick:
        for _ in range(2000):
            es = graphs.random_edges(rng, 5, rng.choice([0.15, 0.3, 0.5]), directed=True, loops=True)
            if not es:
                continue
            wmode = pick_wmode(rng)
            a = storage_variant(cast_dtype(mk_matrix(5, 5, es, weights_for(rng, es, wmode)), rng, wmode, ctx), rng, ctx)
            subs = [sorted(rng.sample(range(5), rng.randint(1, 4))) for _ in range(2)]
            scs += square_scenarios(rng, a, subs, n_iters=(1, 2, 3, 5, 8), ctx=ctx)
            ctx.count('digraph:n=5')
    # 3. structured random graphs
    struct = graphs.suite(rng, 150 if quick else 1500, 3, 12)
    if not quick:
        struct += graphs.suite(rng, 40, 13, 20)
    for name, n, es, w in struct:
        if not es:
            continue
        kind = name.rstrip('0123456789')
        und = kind in graphs.UNDIRECTED_KINDS
        wmode = pick_wmode(rng) if n <= 12 else rng.choice(['ones', 'int'])     # exact arithmetic stays cheap for n > 12
        a = mk_matrix(n, n, es, weights_for(rng, es, wmode, symmetric=und))
        a = storage_variant(cast_dtype(a, rng, wmode, ctx), rng, ctx)
        subs = [sorted(rng.sample(range(n), rng.randint(1, max(1, n // 2)))) for _ in range(2)]
        new = square_scenarios(rng, a, subs, n_iters=(1, 2, 3, 4, 7, 12, 20) if n <= 12 else (1, 2, 3, 5), ctx=ctx)
        if rng.random() < 0.15:
            cont = rng.choice(['dense', 'coo', 'csc', 'lil'])
            for sc in new:
                sc['container'] = cont
            ctx.count('container:' + cont)
        if rng.random() < 0.15:
            for sc in new:
                sc['prefit'] = prefit_desc(rng, False)
            ctx.count('refit:bipartite-then-square')
        scs += new
        ctx.count('structured:' + kind)
    # 4. bipartite
    shapes = [(1, 1), (1, 2), (2, 1), (2, 2), (2, 3), (3, 2)] + ([] if quick else [(3, 3), (3, 4), (1, 4)])
    for nr, nc in shapes:
        allb = [es for es in graphs.all_bipartite(nr, nc) if es]
        if quick and len(allb) > 30:
            allb = rng.sample(allb, 30)
        elif len(allb) > 600:
            allb = rng.sample(allb, 600)
        for es in allb:
            wmode = rng.choice(['ones', 'int'])
            b = cast_dtype(mk_matrix(nr, nc, es, weights_for(rng, es, wmode)), rng, wmode, ctx, p=0.25)
            scs += bip_scenarios(rng, b, 3 if quick else 6, ctx=ctx)
            ctx.count('bipartite:%dx%d' % (nr, nc))
    for _ in range(100 if quick else 1500):
        nr, nc = rng.randint(2, 6), rng.randint(2, 7)
        es = graphs.random_edges(rng, nr, rng.choice([0.3, 0.5, 0.8]), m=nc)
        if not es:
            continue
        wmode = pick_wmode(rng)
        b = storage_variant(cast_dtype(mk_matrix(nr, nc, es, weights_for(rng, es, wmode)), rng, wmode, ctx), rng, ctx)
        new = bip_scenarios(rng, b, 2, ctx=ctx)
        if rng.random() < 0.15:
            for sc in new:
                sc['prefit'] = prefit_desc(rng, True)
            ctx.count('refit:square-then-bipartite')
        scs += new
        ctx.count('bipartite:random')
    # 5. degenerate stream
    deg = degenerate_scenarios(rng)
    ctx.count('degenerate', len(deg))
    scs += deg
    # 5a. weakly attached nodes; the same calls on rescaled graphs (scale invariance of the transition matrix)
    for _ in range(40 if quick else 400):
        scs += weak_attach_scenarios(rng, ctx)
    pool = [sc for sc in scs if sc['data'] and sc['n_iter'] <= 30 and abstract_seeds(sc)
            and (np.dtype(_LEGACY_DTYPE.get(sc['dtype'], sc['dtype'])).kind == 'f' or not has_duplicates(sc))]
    scaled = []
    for sc in rng.sample(pool, min(len(pool), 160 if quick else 1600)):
        sc2 = scaled_scenario(sc, rng.choice(SCALES))
        scaled.append((sc, sc2))
        ctx.count('scaled:%g' % sc2['scale_of'])
    scs += [sc2 for _, sc2 in scaled]
    for sc in scs:
        cases += cases_of_scenario(sc)
    for sc, sc2 in scaled:
        cases += scale_case(sc, sc2)
    # 5b. `normalize` observed directly on the matrices above (each distinct matrix once) and on signed / zero data
    seen = set()
    for sc in scs:
        k = (tuple(sc['shape']), tuple(sc['indptr']), tuple(sc['indices']), tuple(sc['data']), sc['dtype'])
        if k in seen or len(seen) >= (400 if quick else 4000):
            continue
        seen.add(k)
        cases.append(normalize_case(sc_matrix(sc)))
    for _ in range(30 if quick else 300):
        nr, nc = rng.randint(1, 5), rng.randint(1, 5)
        dense = [[rng.choice([0, 0, 1, 2, -1, -3, 0.5]) for _ in range(nc)] for _ in range(nr)]
        m = sparse.csr_matrix(np.array(dense, dtype=float))
        if m.nnz and rng.random() < 0.5:
            m.data[rng.randrange(m.nnz)] = 0.0        # an explicit zero
        cases.append(normalize_case(m))
        ctx.count('normalize:signed/zero')
    # 6. input forms
    pool = [sc for sc in scs if sc['values'] is not None and not is_bipartite(sc) and abstract_seeds(sc)]
    for sc in rng.sample(pool, min(len(pool), 60 if quick else 600)):
        n = sc['shape'][0]
        cases.append(forms_case(sc, {'values': (n, abstract_seeds(sc))}))
    poolb = [sc for sc in scs if is_bipartite(sc) and sc['values'] is None and sc['values_row'] is not None
             and sc['values_col'] is not None and abstract_seeds(sc) is not None]
    for sc in rng.sample(poolb, min(len(poolb), 30 if quick else 300)):
        nr, nc = sc['shape']
        s = abstract_seeds(sc)
        rs = {i: t for i, t in s.items() if i < nr}
        cs = {i - nr: t for i, t in s.items() if i >= nr}
        if rs and cs:
            cases.append(forms_case(sc, {'values_row': (nr, rs), 'values_col': (nc, cs)}))
    # 7. harmonic limit
    cases += harmonic_suite(ctx, rng, quick)
    ctx.exhaustive = False
    ctx.extra['tolerances'] = TOLERANCES
    for k, v in _COUNTS.items():
        ctx.count(k, v)
    _COUNTS.clear()
    return cases


def harmonic_suite(ctx, rng, quick, small_only=False):
    cases = []
    todo = []
    for n in (2, 3, 4):
        for es in graphs.all_undirected(n):
            if es and is_connected_undirected(n, es):
                todo.append((n, es))
    if quick and not small_only:
        todo = rng.sample(todo, 35)
    if not small_only:
        for name, n, es, w in graphs.suite(rng, 30 if quick else 250, 3, 8,
                                           kinds=['path', 'cycle', 'star', 'clique', 'grid', 'blocks', 'random_undirected',
                                                  'selfloops']):
            if es and is_connected_undirected(n, es):      # self-loops are kept: they must not spoil the limit
                todo.append((n, es))
    if not small_only:
        for _ in range(2 if quick else 10):
            a = lazy_chain(rng, rng.choice([3, 4]))
            seeds = {0: rng.choice([1, 2, 8]), a.shape[0] - 1: 0}
            sc = scenario('dirichlet', a, values=make_form('dict', a.shape[0], seeds))
            cases += harmonic_cases(sc, rng)
            ctx.count('harmonic:lazy-chain')
    for n, es in todo:
        a = mk_matrix(n, n, es, graphs.sym_weights(rng, es, [1, 1, 2, 3]))
        nodes = sorted(rng.sample(range(n), rng.randint(1, max(1, n - 1))))
        seeds = pick_temps(rng, nodes)
        sc = scenario('dirichlet', a, values=make_form(rng.choice(['arr', 'list', 'dict']), n, seeds), init=pick_init(rng, seeds))
        if not small_only and rng.random() < 0.3:
            sc = scaled_scenario(sc, rng.choice(SCALES))        # the harmonic limit does not depend on the scale
            ctx.count('harmonic:scaled')
        cases += harmonic_cases(sc, rng)
        ctx.count('harmonic:n=%d' % n + (':selfloop' if any(i == j for i, j in es) else ''))
    # directed graphs in which every node reaches a seed (`harmonic_unique_of_reach` covers them)
    made = 0
    for _ in range(200 if small_only else (400 if quick else 4000)):
        if made >= (8 if small_only else (15 if quick else 150)):
            break
        n = rng.randint(2, 6)
        es = graphs.random_edges(rng, n, rng.choice([0.3, 0.5]), directed=True, loops=True)
        nodes = sorted(rng.sample(range(n), rng.randint(1, max(1, n - 1))))
        if not es or not all_reach(n, es, nodes):
            continue
        made += 1
        a = mk_matrix(n, n, es, [rng.choice([1, 1, 2, 3]) for _ in es])
        seeds = pick_temps(rng, nodes)
        sc = scenario('dirichlet', a, values=make_form(rng.choice(['arr', 'list', 'dict']), n, seeds), init=pick_init(rng, seeds))
        cases += harmonic_cases(sc, rng)
        ctx.count('harmonic:directed')
    # bipartite: the block graph is undirected
    for _ in range(10 if quick else 100):
        nr, nc = rng.randint(1, 3), rng.randint(1, 4)
        es = graphs.random_edges(rng, nr, 0.7, m=nc)
        und = [(i, nr + j) for i, j in es]
        if not es or not is_connected_undirected(nr + nc, und):
            continue
        b = mk_matrix(nr, nc, es, [rng.choice([1, 2, 3]) for _ in es])
        temps = pick_temps(rng, list(range(nr + nc)))
        rows = rng.sample(range(nr), rng.randint(0, nr))
        cols = rng.sample(range(nc), rng.randint(0 if rows else 1, nc))
        kw = {}
        if rows:
            kw['values_row'] = make_form('dict', nr, {i: temps[i] for i in rows})
        if cols:
            kw['values_col'] = make_form('dict', nc, {j: temps[nr + j] for j in cols})
        sc = scenario('dirichlet', b, force_bipartite=True, **kw)
        cases += harmonic_cases(sc, rng)
        ctx.count('harmonic:bipartite')
    return cases


def _norm_sc(sc):
    sc = dict(sc)
    for k, d in (('prefit', None), ('container', 'csr'), ('dtype', 'float64'), ('values', None), ('values_row', None),
                 ('values_col', None), ('init', None), ('force_bipartite', False), ('alpha', 0.5), ('n_iter', 3)):
        sc.setdefault(k, d)
    return sc


def cases_of_desc(desc, rng):
    """the cases of one recorded description (replay file or corpus line): the recorded call, nothing redrawn"""
    kind = desc.get('kind')
    sc = _norm_sc(desc['scenario'])
    if kind == 'normalize':
        return [normalize_case(sc_matrix(sc))]
    if kind == 'forms':
        sbs = {k: (v[0], {int(a): b for a, b in v[1]}) for k, v in desc['seeds_by_side'].items()}
        return [forms_case(sc, sbs)]
    if kind == 'scale':
        return cases_of_scenario(sc) + scale_case(_norm_sc(desc['unscaled']), sc)
    if kind == 'nonexp':
        return harmonic_cases(sc, rng, k=sc['n_iter'], only='nonexp')
    if kind == 'harmonic':
        return harmonic_cases(sc, rng, only='harmonic')
    return cases_of_scenario(sc)


def run(ctx):
    REUSED['count'] = 0
    cases = build_cases(ctx)
    ctx.count('fits-that-modified-their-temperatures-object', REUSED['count'])
    evaluate(ctx, cases)


# ----------------------------------------------------------------------------------------------
# failing-input search: the specification on the implementation over the exhaustive small space
# ----------------------------------------------------------------------------------------------
def variants_of(sc):
    """delta-debugged variants of a disagreeing call: the call itself, the other estimator, fewer rounds, float64 copy,
    csr container, no previous fit, no init"""
    out = [sc]
    out.append(dict(sc, algo='dirichlet' if sc['algo'] == 'diffusion' else 'diffusion'))
    for k in sorted({1, 2, 3, min(5, max(1, sc['n_iter'])), max(1, sc['n_iter'] // 2)}):
        if k != sc['n_iter']:
            out.append(dict(sc, n_iter=k))
    if sc.get('dtype', 'float64') != 'float64':
        out.append(dict(sc, dtype='float64'))
    if sc.get('container', 'csr') != 'csr':
        out.append(dict(sc, container='csr'))
    if sc.get('prefit') is not None:
        out.append(dict(sc, prefit=None))
    if sc.get('init') is not None:
        out.append(dict(sc, init=None))
    return out


def search(ctx, pending):
    rng = ctx.rng
    scs = []
    # (i) the disagreeing inputs themselves and their variants
    seen = set()
    for item in pending:
        obj = item[2] if isinstance(item, (tuple, list)) and len(item) > 2 else item
        desc = (obj or {}).get('case') if isinstance(obj, dict) else None
        if isinstance(desc, dict) and 'scenario' in desc and desc.get('kind') in ('fit', 'harmonic', 'nonexp'):
            for v in variants_of(_norm_sc(desc['scenario'])):
                k = json.dumps(v, sort_keys=True, default=str)
                if k not in seen and len(seen) < 400:
                    seen.add(k)
                    scs.append(v)
    # (ii) the exhaustive small space
    fixed = [2, 0, 5, 1]
    for n in (2, 3):
        for es in graphs.all_digraphs(n, loops=True):
            if not es:
                continue
            a = mk_matrix(n, n, es, [1 + (k % 3) for k in range(len(es))])
            for nodes in graphs.nonempty_subsets(n):
                for seeds in ({i: fixed[i] for i in nodes}, {i: fixed[i] + 1 for i in nodes}):
                    for algo in ('diffusion', 'dirichlet'):
                        for k in (1, 2, 3):
                            kind = ['arr', 'list', 'dict'][(k + len(nodes)) % 3]
                            scs.append(scenario(algo, a, values=make_form(kind, n, seeds), n_iter=k, alpha=[0.5, 1, 0.25][k - 1]))
    for nr, nc in [(1, 2), (2, 2), (2, 3)]:
        for es in graphs.all_bipartite(nr, nc):
            if es:
                scs += bip_scenarios(rng, mk_matrix(nr, nc, es, [1 + (k % 2) for k in range(len(es))]), 6)
    cases = []
    for sc in scs:
        cases += [c for c in cases_of_scenario(sc, with_run=False) if c.spec]
    cases += harmonic_suite(Sub(ctx), rng, True, small_only=True)
    _COUNTS.clear()
    sub = Sub(ctx)
    evaluate(sub, cases)
    return sub.found()


def replay(ctx, payload):
    """Re-run the recorded call: a failing input (`case`) or the case of a broken tie (`what_no_longer_checks.case`),
    with the recorded seed."""
    import random
    desc = payload.get('case') or (payload.get('what_no_longer_checks') or {}).get('case') or {}
    if payload.get('seed') is not None:
        ctx.rng = random.Random(int(payload['seed']) * 1000003 + 14)
    if 'scenario' in desc:
        evaluate(ctx, cases_of_desc(desc, ctx.rng))
    else:
        evaluate(ctx, build_cases(ctx))
    _COUNTS.clear()
