"""C14 — heat diffusion (Diffusion, Dirichlet): maximum principle, boundary values, input forms, harmonic limit.

Correspondence: every scenario calls the real estimator (overlay build of /repo's working tree) and sends
  run  line `c14.fit …`        -> the Lean model (SkNet/Model/Heat.lean) computes values_, values_row_, values_col_
                                  in exact rationals; compared within TOL (DESIGN section 8; float64 path)
  spec line `c14.spec_maxp …`  -> the property's predicate (SkNet/Spec/Heat.lean) on the implementation's own output:
                                  every value within [min seed, max seed], Dirichlet keeps the seeds exactly
  spec line `c14.spec_harmonic`-> Dirichlet after many rounds against the harmonic extension (solved exactly in Lean
                                  and verified there before use)
  spec line `c14.spec_nonexp`  -> one more round never increases the sup-distance to the harmonic extension
  spec line `c14.spec_forms`   -> the same temperatures as ndarray, list and dict give the same output
  run/spec `c14.normalize`, `c14.spec_stochastic` -> `normalize(matrix)` itself: stored entries, rows of L1 norm 1 or null
Theorems (SkNet/Properties/C14.lean) are about the same model for every graph and every number of rounds.
"""
import json
import os
import warnings
from fractions import Fraction

import numpy as np
from scipy import sparse

from vlib import graphs
from vlib.cases import Case, Sub, evaluate as _evaluate
from vlib.core import enc_list, enc_rat, enc_ratlist, enc_bool, dec_ratlist, VERIF

TOL = Fraction(1, 10 ** 9)          # relative/absolute tolerance of the float64 path: tol * (1 + |x|)
HARMONIC_TOL = Fraction(1, 10 ** 8)  # distance to the harmonic extension after "many" rounds
RULE = ('exhaustive digraphs n<=3 (loops n<=2) x non-empty seed sets x {Diffusion, Dirichlet} x n_iter 1..3; sampled n=4 '
        '(thorough: all n=4); bipartite 0/1 and weighted biadjacency up to 3x3 (thorough 3x4) x row/col seeds; structured '
        'random graphs n<=12 with integer/dyadic weights, temperatures from {0, 1, 2, 3, 0.5, 2.5, 7, 10, 0.1}, '
        'init in/out of range, damping in [0,1] and outside, the three input forms; degenerate stream (no seeds, empty '
        'dict, bad lengths, bad keys, n_iter<=0, empty matrix, sinks, explicit zeros, negative weights); normalize(matrix) itself on '
        'every distinct matrix above and on signed matrices with explicit zeros; harmonic limit on '
        'connected undirected graphs n<=8. A case is non-trivial when the estimator returned values, some node is '
        'not a seed and two initial temperatures differ; distinct = distinct (estimator, matrix, arguments)')
ASSUMPTIONS = [
    'weights are compared through the dense denotation of the CSR matrix scipy builds from the input (scipy is the substrate)',
    'float64 results are compared with the exact rational model within 1e-9*(1+|x|); the bounds of the maximum principle are '
    'checked on float64 outputs with the same slack (rounding of a convex combination)',
    'the seed set is non-empty when init is None (otherwise the code returns NaN: modelled as an error value, excluded '
    'from the property)',
    'a dict with two keys denoting the same node (k and k-n) is not generated with different values (numpy leaves the '
    'result of repeated indices in an assignment undefined)',
]

PALETTE = [0, 1, 2, 3, 0.5, 2.5, 7, 10, 0.1]
ALPHAS = [0.5, 0.5, 0.25, 0.75, 1, 0, 0.85, 0.1, 0.125]


# ----------------------------------------------------------------------------------------------
# scenarios
# ----------------------------------------------------------------------------------------------
def mk_matrix(nr, nc, edges, weights, dtype='float'):
    if not edges:
        return sparse.csr_matrix((nr, nc), dtype=float)
    a = sparse.csr_matrix((np.asarray(weights, dtype=float), ([e[0] for e in edges], [e[1] for e in edges])),
                          shape=(nr, nc))
    if dtype == 'int':
        a = a.astype(int)
    elif dtype == 'bool':
        a = a.astype(bool)
    return a


def scenario(algo, a, values=None, values_row=None, values_col=None, init=None, force_bipartite=False, n_iter=3,
             alpha=0.5, container='csr'):
    """A JSON-able description of one call. `a` is a scipy csr matrix. Forms are [kind, payload]."""
    a = sparse.csr_matrix(a)
    return {'algo': algo, 'shape': list(a.shape), 'indptr': a.indptr.tolist(), 'indices': a.indices.tolist(),
            'data': [float(x) for x in a.data], 'dtype': 'bool' if a.dtype == bool else ('int' if a.dtype.kind in 'iu' else 'float'),
            'values': values, 'values_row': values_row, 'values_col': values_col, 'init': init,
            'force_bipartite': bool(force_bipartite), 'n_iter': int(n_iter), 'alpha': alpha, 'container': container}


def sc_matrix(sc):
    dt = {'bool': bool, 'int': int, 'float': float}[sc.get('dtype', 'float')]
    a = sparse.csr_matrix((np.array(sc['data'], dtype=float).astype(dt), np.array(sc['indices'], dtype=np.int32),
                           np.array(sc['indptr'], dtype=np.int32)), shape=tuple(sc['shape']))
    return a


def form_to_py(form):
    if form is None:
        return None
    kind, payload = form
    if kind == 'arr':
        return np.array(payload)
    if kind == 'list':
        return list(payload)
    if kind == 'dict':
        return {k: v for k, v in payload}
    raise ValueError(kind)


def enc_form(form):
    if form is None:
        return '_'
    kind, payload = form
    if kind == 'arr':
        return 'a:' + enc_ratlist(Fraction(float(x)) for x in payload)
    if kind == 'list':
        return 'l:' + enc_ratlist(Fraction(float(x)) for x in payload)
    items = ['%d=%s' % (int(k), enc_rat(Fraction(float(v)))) for k, v in payload]
    return 'd:' + (','.join(items) if items else '-')


def enc_sc_matrix(sc):
    toks = [str(sc['shape'][0]), str(sc['shape'][1]), enc_list(sc['indptr']), enc_list(sc['indices']),
            enc_ratlist(Fraction(float(x)) for x in sc['data'])]
    return ' '.join(toks)


def is_bipartite(sc):
    return bool(sc['force_bipartite'] or sc['values_row'] is not None or sc['values_col'] is not None
                or sc['shape'][0] != sc['shape'][1])


def form_seeds(form, n):
    """Independent reading of 'temperatures given as array, list or dict': {node: temperature >= 0}, or None if the
    form is not a well-formed description for n nodes."""
    kind, payload = form
    out = {}
    if kind in ('arr', 'list'):
        if len(payload) != n:
            return None
        for i, x in enumerate(payload):
            if x >= 0:
                out[i] = x
        return out
    if not payload:
        return None
    seen = {}
    for k, v in payload:
        if not (-n <= k < n):
            return None
        k = k % n
        if k in seen and seen[k] != v:
            return None
        seen[k] = v
    return {k: v for k, v in seen.items() if v >= 0}


def abstract_seeds(sc):
    """{node (block numbering): temperature} the call is about, or None when the arguments are refused."""
    nr, nc = sc['shape']
    if is_bipartite(sc):
        if sc['values'] is not None:
            vr, vc = sc['values'], None
        else:
            vr, vc = sc['values_row'], sc['values_col']
        if vr is None and vc is None:
            return {i: 1 for i in range(nr)}
        rows = {} if vr is None else form_seeds(vr, nr)
        cols = {} if vc is None else form_seeds(vc, nc)
        if rows is None or cols is None:
            return None
        out = dict(rows)
        out.update({nr + j: t for j, t in cols.items()})
        return out
    if sc['values'] is None:
        return {i: 1 for i in range(nr)}
    return form_seeds(sc['values'], nr)


def block_dense(sc):
    a = sc_matrix(sc).astype(float).toarray()
    if is_bipartite(sc):
        nr, nc = sc['shape']
        w = np.zeros((nr + nc, nr + nc))
        w[:nr, nr:] = a
        w[nr:, :nr] = a.T
        return w
    return a


def container_of(a, kind):
    if kind == 'dense':
        return a.toarray()
    if kind == 'coo':
        return sparse.coo_matrix(a)
    if kind == 'csc':
        return sparse.csc_matrix(a)
    if kind == 'lil':
        return sparse.lil_matrix(a)
    return a


def run_impl(sc, n_iter=None):
    """Call the estimator; returns ('ok', values_, values_row_|None, values_col_|None) or ('err', name)."""
    from sknetwork.regression import Diffusion, Dirichlet
    n_iter = sc['n_iter'] if n_iter is None else n_iter
    try:
        with warnings.catch_warnings():
            warnings.simplefilter('ignore')
            est = Diffusion(n_iter=n_iter, damping_factor=sc['alpha']) if sc['algo'] == 'diffusion' else Dirichlet(n_iter=n_iter)
            mat = container_of(sc_matrix(sc), sc.get('container', 'csr'))
            kw = {}
            for k in ('values', 'values_row', 'values_col'):
                if sc[k] is not None:
                    kw[k] = form_to_py(sc[k])
            if sc['init'] is not None:
                kw['init'] = sc['init']
            if sc['force_bipartite']:
                kw['force_bipartite'] = True
            est.fit(mat, **kw)
            v = np.asarray(est.values_, dtype=float)
            r = getattr(est, 'values_row_', None)
            c = getattr(est, 'values_col_', None)
            if np.isnan(v).any() or (c is not None and np.isnan(np.asarray(c)).any()):
                return ('err', 'NaN')
            return ('ok', v, None if r is None else np.asarray(r, dtype=float), None if c is None else np.asarray(c, dtype=float))
    except (ValueError, IndexError, TypeError, KeyError, ZeroDivisionError) as e:
        return ('err', type(e).__name__)


def enc_out(res):
    if res[0] == 'err':
        return 'err ' + res[1]

    def e(x):
        return '_' if x is None else enc_ratlist(Fraction(float(t)) for t in x)
    return 'ok %s %s %s' % (e(res[1]), e(res[2]), e(res[3]))


def block_out(res):
    """the output in the numbering of the graph the property is about"""
    if res[2] is not None:
        return list(res[2]) + list(res[3])
    return list(res[1])


def run_line(sc):
    return 'c14.fit %s %s %s %s %s %s %s %d %s' % (
        sc['algo'], enc_sc_matrix(sc), enc_form(sc['values']), enc_form(sc['values_row']), enc_form(sc['values_col']),
        '_' if sc['init'] is None else enc_rat(Fraction(float(sc['init']))), enc_bool(sc['force_bipartite']),
        sc['n_iter'], enc_rat(Fraction(float(sc['alpha']))))


def enc_seeds(seeds):
    return ','.join('%d=%s' % (k, enc_rat(Fraction(float(v)))) for k, v in sorted(seeds.items()))


def maxp_applicable(sc, seeds, w):
    """The hypotheses of the property (weakest form proved in Properties/C14.lean)."""
    if not seeds:
        return False
    if (w < 0).any():
        return False
    lo, hi = min(seeds.values()), max(seeds.values())
    if sc['init'] is not None and not (lo <= sc['init'] <= hi):
        return False
    if sc['algo'] == 'diffusion':
        return 0 <= sc['alpha'] <= 1
    out_w = w.sum(axis=1)
    return all(i in seeds or out_w[i] > 0 for i in range(w.shape[0]))


_COUNTS = {}


def ctx_count(key, k=1):
    _COUNTS[key] = _COUNTS.get(key, 0) + k


def sig_of(sc, clause):
    return {'entry': 'Diffusion.fit' if sc['algo'] == 'diffusion' else 'Dirichlet.fit', 'bipartite': is_bipartite(sc),
            'clause': clause}


def case_of(sc, with_run=True):
    """run line + maximum-principle spec line for one scenario"""
    res = run_impl(sc)
    impl = enc_out(res)
    spec = None
    seeds = abstract_seeds(sc)
    w = block_dense(sc)
    nontriv = False
    if res[0] == 'ok' and seeds is not None:
        n = w.shape[0]
        nontriv = len(seeds) < n and len(set(seeds.values()) | ({sc['init']} if sc['init'] is not None else set())) > 1
        if maxp_applicable(sc, seeds, w):
            ctx_count('spec:max-principle')
            spec = 'c14.spec_maxp %s %s %s %s %s %s %s %s' % (
                sc['algo'], enc_sc_matrix(sc), enc_bool(is_bipartite(sc)), enc_seeds(seeds),
                '_' if sc['init'] is None else enc_rat(Fraction(float(sc['init']))), enc_rat(Fraction(float(sc['alpha']))),
                enc_rat(TOL), impl[3:])
    key = ('fit', json.dumps(sc, sort_keys=True, default=str))
    return Case(key, sig_of(sc, 'max-principle/boundary'), run_line(sc) if with_run else None, impl, spec, nontriv,
                {'kind': 'fit', 'scenario': sc})


def forms_case(sc, seeds_by_side):
    """the same temperatures as ndarray, list and dict: identical outputs"""
    outs = []
    for kind in ('arr', 'list', 'dict'):
        s2 = dict(sc)
        for side, (n, seeds) in seeds_by_side.items():
            s2[side] = make_form(kind, n, seeds)
        outs.append(enc_out(run_impl(s2)).replace(' ', '|'))
    ctx_count('spec:input-forms')
    spec = 'c14.spec_forms %s %s %s' % tuple(outs)
    key = ('forms', json.dumps(sc, sort_keys=True, default=str), json.dumps(sorted((k, v[0], sorted(v[1].items())) for k, v in seeds_by_side.items())))
    return Case(key, sig_of(sc, 'input-forms'), None, outs[0], spec, True,
                {'kind': 'forms', 'scenario': sc, 'seeds_by_side': {k: [v[0], sorted(v[1].items())] for k, v in seeds_by_side.items()}})


def make_form(kind, n, seeds, rng=None, filler=-1):
    """seeds {node: temp} on n nodes in the requested form"""
    if kind in ('arr', 'list'):
        return [kind, [seeds.get(i, filler) for i in range(n)]]
    items = [[k, v] for k, v in seeds.items()]
    if rng is not None:
        rng.shuffle(items)
        if rng.random() < 0.15:
            free = [i for i in range(n) if i not in seeds]
            if free:
                items.append([rng.choice(free), -rng.choice([1, 2, 0.5])])   # a negative temperature: ignored
        if rng.random() < 0.15:
            items = [[k - n, v] if rng.random() < 0.5 else [k, v] for k, v in items]   # numpy's negative index
    return ['dict', items]


def normalize_case(a):
    """`normalize(matrix)` observed directly: run line (stored entries of every row) + the stochastic clause."""
    from sknetwork.linalg.normalizer import normalize
    a = sparse.csr_matrix(a)
    sc = scenario('dirichlet', a)
    g = enc_sc_matrix(sc)
    try:
        with warnings.catch_warnings():
            warnings.simplefilter('ignore')
            q = sparse.csr_matrix(normalize(a.copy()))
        q.sum_duplicates()
        q.sort_indices()
        impl = 'ok %s %s %s' % (enc_list(q.indptr), enc_list(q.indices), enc_ratlist(Fraction(float(x)) for x in q.data))
        spec = 'c14.spec_stochastic %s %s %s' % (g, enc_rat(TOL), impl[3:])
        ctx_count('spec:stochastic')
    except (ValueError, IndexError, TypeError, ZeroDivisionError) as e:
        impl, spec = 'err ' + type(e).__name__, None
    return Case(('normalize', g), {'entry': 'normalize', 'clause': 'row-stochastic'}, 'c14.normalize ' + g, impl, spec,
                a.nnz > 0, {'kind': 'normalize', 'scenario': sc}, canon='normalize')


def harmonic_cases(sc, rng, with_nonexp=True):
    """Dirichlet after many rounds against the harmonic extension; the number of rounds is raised until two runs agree
    (only to choose it: the judgement is the exact solution computed and verified in Lean)."""
    seeds = abstract_seeds(sc)
    out = []
    n_it = 400
    prev = run_impl(sc, n_it)
    if prev[0] != 'ok':
        return out
    while n_it < 400000:
        n_it *= 4
        cur = run_impl(sc, n_it)
        if np.max(np.abs(np.array(block_out(cur)) - np.array(block_out(prev)))) <= 1e-13:
            prev = cur
            break
        prev = cur
    g = '%s %s %s' % (enc_sc_matrix(sc), enc_bool(is_bipartite(sc)), enc_seeds(seeds))
    spec = 'c14.spec_harmonic %s %s %s' % (g, enc_rat(HARMONIC_TOL), enc_ratlist(Fraction(float(x)) for x in block_out(prev)))
    ctx_count('spec:harmonic-limit')
    ctx_count('harmonic-rounds:%d' % n_it)
    sc2 = dict(sc, n_iter=n_it)
    out.append(Case(('harmonic', json.dumps(sc2, sort_keys=True, default=str)), sig_of(sc, 'harmonic-limit'), None,
                    enc_out(prev), spec, True, {'kind': 'harmonic', 'scenario': sc2}))
    if with_nonexp:
        k = rng.choice([1, 2, 3, 5, 8, 13])
        r1, r2 = run_impl(sc, k), run_impl(sc, k + 1)
        if r1[0] == 'ok' and r2[0] == 'ok':
            spec = 'c14.spec_nonexp %s %s %s %s' % (g, enc_rat(TOL), enc_ratlist(Fraction(float(x)) for x in block_out(r1)),
                                                    enc_ratlist(Fraction(float(x)) for x in block_out(r2)))
            ctx_count('spec:non-expansive')
            sc3 = dict(sc, n_iter=k)
            out.append(Case(('nonexp', json.dumps(sc3, sort_keys=True, default=str)), sig_of(sc, 'non-expansive'), None,
                            enc_out(r2), spec, True, {'kind': 'nonexp', 'scenario': sc3}))
    return out


# ----------------------------------------------------------------------------------------------
# comparison
# ----------------------------------------------------------------------------------------------
def _close(m, i):
    return abs(m - i) <= TOL * (1 + abs(m))


def _same(c, model, impl, spec_ok):
    if model.startswith('err') or impl.startswith('err'):
        return model == impl
    mt, it = model.split(' '), impl.split(' ')
    if c.canon == 'normalize':
        if len(mt) != 4 or len(it) != 4 or mt[1] != it[1] or mt[2] != it[2]:
            return False
        x, y = dec_ratlist(mt[3]), dec_ratlist(it[3])
        return len(x) == len(y) and all(_close(p, q) for p, q in zip(x, y))
    if len(mt) != 4 or len(it) != 4 or mt[0] != 'ok' or it[0] != 'ok':
        return False
    for a, b in zip(mt[1:], it[1:]):
        if (a == '_') != (b == '_'):
            return False
        if a == '_':
            continue
        x, y = dec_ratlist(a), dec_ratlist(b)
        if len(x) != len(y) or not all(_close(p, q) for p, q in zip(x, y)):
            return False
    return True


def evaluate(ctx, cases):
    _evaluate(ctx, cases, same=_same)


# ----------------------------------------------------------------------------------------------
# generators
# ----------------------------------------------------------------------------------------------
def pick_temps(rng, nodes, mode=None):
    mode = mode or rng.choice(['positive', 'withzero', 'any', 'any'])
    pal = {'positive': [1, 2, 3, 0.5, 2.5, 7, 10, 0.1], 'withzero': [0, 0, 1, 2, 5], 'any': PALETTE}[mode]
    return {i: rng.choice(pal) for i in nodes}


def pick_init(rng, seeds):
    r = rng.random()
    if r < 0.55 or not seeds:
        return None
    lo, hi = min(seeds.values()), max(seeds.values())
    if r < 0.85:
        return rng.choice([lo, hi, (lo + hi) / 2, lo + (hi - lo) / 4])
    return rng.choice([hi + 1, lo - 0.5, 100])      # outside the range: run line only


def square_scenarios(rng, a, seed_sets, algos=('diffusion', 'dirichlet'), n_iters=(1, 2, 3), per=1, forms=None, ctx=None):
    n = a.shape[0]
    out = []
    for nodes in seed_sets:
        for algo in algos:
            for _ in range(per):
                seeds = pick_temps(rng, nodes)
                kind = rng.choice(forms or ['arr', 'list', 'dict', 'dict'])
                form = make_form(kind, n, seeds, rng, filler=rng.choice([-1, -1, -2, -0.5]))
                sc = scenario(algo, a, values=form, init=pick_init(rng, seeds), n_iter=rng.choice(n_iters),
                              alpha=rng.choice(ALPHAS) if algo == 'diffusion' else 0.5)
                out.append(sc)
                if ctx is not None:
                    ctx.count('form:' + kind)
    return out


def bip_scenarios(rng, b, count, ctx=None):
    nr, nc = b.shape
    out = []
    for _ in range(count):
        algo = rng.choice(['diffusion', 'dirichlet'])
        rows = sorted(rng.sample(range(nr), rng.randint(0, nr)))
        cols = sorted(rng.sample(range(nc), rng.randint(0, nc)))
        mode = rng.choice(['rowcol', 'rowcol', 'row', 'col', 'values', 'none'])
        temps = pick_temps(rng, list(range(nr + nc)))
        rs = {i: temps[i] for i in rows}
        cs = {j: temps[nr + j] for j in cols}
        kw = {}
        if mode in ('rowcol', 'row') and rs:
            kw['values_row'] = make_form(rng.choice(['arr', 'list', 'dict']), nr, rs, rng)
        if mode in ('rowcol', 'col') and cs:
            kw['values_col'] = make_form(rng.choice(['arr', 'list', 'dict']), nc, cs, rng)
        if mode == 'values' and rs:
            kw['values'] = make_form(rng.choice(['arr', 'list', 'dict']), nr, rs, rng)
            if rng.random() < 0.3 and cs:
                kw['values_col'] = make_form('dict', nc, cs, rng)     # ignored by the code when `values` is given
        fb = (nr == nc and not any(k in kw for k in ('values_row', 'values_col'))) or rng.random() < 0.2
        all_seeds = dict(rs)
        all_seeds.update(cs)
        sc = scenario(algo, b, init=pick_init(rng, all_seeds), force_bipartite=fb, n_iter=rng.choice([1, 2, 3, 4, 6]),
                      alpha=rng.choice(ALPHAS) if algo == 'diffusion' else 0.5, **kw)
        out.append(sc)
        if ctx is not None:
            ctx.count('bipartite-mode:' + mode)
    return out


def degenerate_scenarios(rng):
    a = mk_matrix(3, 3, [(0, 1), (1, 2), (2, 0), (0, 2)], [1, 2, 1, 3])
    sink = mk_matrix(3, 3, [(0, 1), (2, 0), (2, 1)], [1, 1, 2])
    expl0 = sparse.csr_matrix((np.array([1., 0., 2., 0., 1.]), np.array([1, 2, 0, 1, 0]), np.array([0, 2, 3, 5])), shape=(3, 3))
    neg = mk_matrix(3, 3, [(0, 1), (0, 2), (1, 0), (2, 0), (2, 1)], [1, -1, 2, 1, 1])
    out = []
    for algo in ('diffusion', 'dirichlet'):
        for v in (['dict', []], ['dict', [[5, 1]]], ['dict', [[-4, 1]]], ['list', [1, 2]], ['arr', [1, 0, 1, 0]],
                  ['dict', [[0, -1]]], ['list', [-1, -1, -1]], ['dict', [[-1, 3], [0, 1]]], None,
                  ['dict', [[0, 2], [1, -3]]], ['arr', [-2, 4, -0.5]]):
            out.append(scenario(algo, a, values=v, n_iter=2))
            out.append(scenario(algo, a, values=v, n_iter=1, init=1.5))
        for k in (0, -1):
            out.append(scenario(algo, a, values=['dict', [[0, 1]]], n_iter=k))
        out.append(scenario(algo, sparse.csr_matrix((3, 3)), values=['dict', [[0, 1]]]))
        for m in (sink, expl0, neg):
            for v in (['dict', [[0, 2], [2, 3]]], ['list', [-1, 4, -1]], ['arr', [1, -1, 5]]):
                out.append(scenario(algo, m, values=v, n_iter=rng.choice([1, 2, 3])))
        for df in (2, -1, 1.5):
            out.append(scenario('diffusion', a, values=['dict', [[0, 1], [1, 0]]], n_iter=2, alpha=df))
        # rectangular / forced bipartite refusals
        b = mk_matrix(2, 3, [(0, 0), (0, 2), (1, 1)], [1, 2, 1])
        for kw in ({'values_row': ['list', [1, 2, 3]]}, {'values_col': ['list', [1, 2]]}, {'values_row': ['dict', [[2, 1]]]},
                   {'values_col': ['dict', [[3, 1]]]}, {'values': ['arr', [1, 0, 2, 1, 1]]}, {},
                   {'values': ['dict', [[0, 2]]], 'values_row': ['dict', [[1, 1]]]}, {'values_col': ['dict', [[-1, 4]]]}):
            out.append(scenario(algo, b, n_iter=2, **kw))
        for cont in ('dense', 'coo', 'csc', 'lil'):
            out.append(scenario(algo, a, values=['dict', [[0, 1], [2, 0]]], n_iter=2, container=cont))
        for dt in ('int', 'bool'):
            out.append(scenario(algo, a.astype({'int': int, 'bool': bool}[dt]), values=['dict', [[0, 1], [2, 0]]], n_iter=3))
    return out


def weights_for(rng, es, mode, symmetric=False):
    pal = {'ones': [1], 'int': [1, 2, 3, 5], 'dyadic': [1, 2, 0.5, 0.25, 3]}[mode]
    if symmetric:
        return graphs.sym_weights(rng, es, pal)
    return [rng.choice(pal) for _ in es]


def is_connected_undirected(n, es):
    adj = {i: set() for i in range(n)}
    for i, j in es:
        adj[i].add(j)
        adj[j].add(i)
    seen, todo = {0}, [0]
    while todo:
        u = todo.pop()
        for v in adj[u]:
            if v not in seen:
                seen.add(v)
                todo.append(v)
    return len(seen) == n


def build_cases(ctx):
    rng = ctx.rng
    quick = ctx.quick
    cases = []
    scs = []
    # corpus first
    cpath = os.path.join(VERIF, 'corpus', 'C14.jsonl')
    if os.path.exists(cpath):
        for ln in open(cpath):
            ln = ln.strip()
            if ln:
                cases += cases_of_desc(json.loads(ln), rng)
                ctx.count('corpus')
    # 1. exhaustive digraphs n <= 3
    for n in (1, 2, 3):
        for es in graphs.all_digraphs(n, loops=(n <= 2)):
            if not es:
                continue
            a = mk_matrix(n, n, es, weights_for(rng, es, rng.choice(['ones', 'int'])))
            scs += square_scenarios(rng, a, list(graphs.nonempty_subsets(n)), ctx=ctx)
            ctx.count('exhaustive-digraph:n=%d' % n)
    # 2. n = 4 digraphs
    g4 = [es for es in graphs.all_digraphs(4) if es]
    if quick:
        g4 = rng.sample(g4, 300)
    for es in g4:
        a = mk_matrix(4, 4, es, weights_for(rng, es, rng.choice(['ones', 'int', 'dyadic'])))
        subs = list(graphs.nonempty_subsets(4))
        scs += square_scenarios(rng, a, rng.sample(subs, 2 if quick else 4), n_iters=(1, 2, 3, 5, 30), ctx=ctx)
        ctx.count('digraph:n=4')
    if not quick:
        for _ in range(2000):
            es = graphs.random_edges(rng, 5, rng.choice([0.15, 0.3, 0.5]), directed=True, loops=True)
            if not es:
                continue
            a = mk_matrix(5, 5, es, weights_for(rng, es, rng.choice(['ones', 'int', 'dyadic'])))
            subs = [sorted(rng.sample(range(5), rng.randint(1, 4))) for _ in range(2)]
            scs += square_scenarios(rng, a, subs, n_iters=(1, 2, 3, 5, 8), ctx=ctx)
            ctx.count('digraph:n=5')
    # 3. structured random graphs
    for name, n, es, w in graphs.suite(rng, 150 if quick else 1500, 3, 12):
        if not es:
            continue
        kind = name.rstrip('0123456789')
        und = kind in graphs.UNDIRECTED_KINDS
        wmode = rng.choice(['ones', 'int', 'dyadic'])
        a = mk_matrix(n, n, es, weights_for(rng, es, wmode, symmetric=und))
        if wmode != 'dyadic' and rng.random() < 0.3:
            a = a.astype(bool if wmode == 'ones' else int)
            ctx.count('dtype:' + str(a.dtype))
        if rng.random() < 0.3:
            a = graphs.unsorted_copy(a, rng)
        subs = [sorted(rng.sample(range(n), rng.randint(1, max(1, n // 2)))) for _ in range(2)]
        new = square_scenarios(rng, a, subs, n_iters=(1, 2, 3, 4, 7, 12, 20), ctx=ctx)
        if rng.random() < 0.15:
            cont = rng.choice(['dense', 'coo', 'csc', 'lil'])
            for sc in new:
                sc['container'] = cont
            ctx.count('container:' + cont)
        scs += new
        ctx.count('structured:' + kind)
    # 4. bipartite
    shapes = [(1, 1), (1, 2), (2, 1), (2, 2), (2, 3), (3, 2)] + ([] if quick else [(3, 3), (3, 4), (1, 4)])
    for nr, nc in shapes:
        allb = [es for es in graphs.all_bipartite(nr, nc) if es]
        if quick and len(allb) > 30:
            allb = rng.sample(allb, 30)
        elif len(allb) > 600:
            allb = rng.sample(allb, 600)
        for es in allb:
            b = mk_matrix(nr, nc, es, weights_for(rng, es, rng.choice(['ones', 'int'])))
            scs += bip_scenarios(rng, b, 3 if quick else 6, ctx=ctx)
            ctx.count('bipartite:%dx%d' % (nr, nc))
    for _ in range(100 if quick else 1500):
        nr, nc = rng.randint(2, 6), rng.randint(2, 7)
        es = graphs.random_edges(rng, nr, rng.choice([0.3, 0.5, 0.8]), m=nc)
        if not es:
            continue
        b = mk_matrix(nr, nc, es, weights_for(rng, es, rng.choice(['int', 'dyadic'])))
        scs += bip_scenarios(rng, b, 2, ctx=ctx)
        ctx.count('bipartite:random')
    # 5. degenerate stream
    deg = degenerate_scenarios(rng)
    ctx.count('degenerate', len(deg))
    scs += deg
    for sc in scs:
        cases.append(case_of(sc))
    # 5b. `normalize` observed directly on the matrices above (each distinct matrix once) and on signed / zero data
    seen = set()
    for sc in scs:
        k = (tuple(sc['shape']), tuple(sc['indptr']), tuple(sc['indices']), tuple(sc['data']))
        if k in seen or len(seen) >= (400 if quick else 4000):
            continue
        seen.add(k)
        cases.append(normalize_case(sc_matrix(sc)))
    for _ in range(30 if quick else 300):
        nr, nc = rng.randint(1, 5), rng.randint(1, 5)
        dense = [[rng.choice([0, 0, 1, 2, -1, -3, 0.5]) for _ in range(nc)] for _ in range(nr)]
        m = sparse.csr_matrix(np.array(dense, dtype=float))
        if m.nnz and rng.random() < 0.5:
            m.data[rng.randrange(m.nnz)] = 0.0        # an explicit zero
        cases.append(normalize_case(m))
        ctx.count('normalize:signed/zero')
    # 6. input forms
    pool = [sc for sc in scs if sc['values'] is not None and not is_bipartite(sc) and abstract_seeds(sc)]
    for sc in rng.sample(pool, min(len(pool), 60 if quick else 600)):
        n = sc['shape'][0]
        cases.append(forms_case(sc, {'values': (n, abstract_seeds(sc))}))
    poolb = [sc for sc in scs if is_bipartite(sc) and sc['values'] is None and sc['values_row'] is not None
             and sc['values_col'] is not None and abstract_seeds(sc) is not None]
    for sc in rng.sample(poolb, min(len(poolb), 30 if quick else 300)):
        nr, nc = sc['shape']
        s = abstract_seeds(sc)
        rs = {i: t for i, t in s.items() if i < nr}
        cs = {i - nr: t for i, t in s.items() if i >= nr}
        if rs and cs:
            cases.append(forms_case(sc, {'values_row': (nr, rs), 'values_col': (nc, cs)}))
    # 7. harmonic limit on connected undirected graphs
    cases += harmonic_suite(ctx, rng, quick)
    ctx.exhaustive = False
    for k, v in _COUNTS.items():
        ctx.count(k, v)
    _COUNTS.clear()
    return cases


def harmonic_suite(ctx, rng, quick, small_only=False):
    cases = []
    todo = []
    for n in (2, 3, 4):
        for es in graphs.all_undirected(n):
            if es and is_connected_undirected(n, es):
                todo.append((n, es))
    if quick and not small_only:
        todo = rng.sample(todo, 35)
    if not small_only:
        for name, n, es, w in graphs.suite(rng, 30 if quick else 250, 3, 8,
                                           kinds=['path', 'cycle', 'star', 'clique', 'grid', 'blocks', 'random_undirected']):
            es = [e for e in es if e[0] != e[1]]
            if es and is_connected_undirected(n, es):
                todo.append((n, es))
    for n, es in todo:
        a = mk_matrix(n, n, es, graphs.sym_weights(rng, es, [1, 1, 2, 3]))
        nodes = sorted(rng.sample(range(n), rng.randint(1, max(1, n - 1))))
        seeds = pick_temps(rng, nodes)
        sc = scenario('dirichlet', a, values=make_form(rng.choice(['arr', 'list', 'dict']), n, seeds), init=pick_init(rng, seeds))
        cases += harmonic_cases(sc, rng)
        ctx.count('harmonic:n=%d' % n)
    # bipartite: the block graph is undirected
    for _ in range(10 if quick else 100):
        nr, nc = rng.randint(1, 3), rng.randint(1, 4)
        es = graphs.random_edges(rng, nr, 0.7, m=nc)
        und = [(i, nr + j) for i, j in es]
        if not es or not is_connected_undirected(nr + nc, und):
            continue
        b = mk_matrix(nr, nc, es, [rng.choice([1, 2, 3]) for _ in es])
        temps = pick_temps(rng, list(range(nr + nc)))
        rows = rng.sample(range(nr), rng.randint(0, nr))
        cols = rng.sample(range(nc), rng.randint(0 if rows else 1, nc))
        kw = {}
        if rows:
            kw['values_row'] = make_form('dict', nr, {i: temps[i] for i in rows})
        if cols:
            kw['values_col'] = make_form('dict', nc, {j: temps[nr + j] for j in cols})
        sc = scenario('dirichlet', b, force_bipartite=True, **kw)
        cases += harmonic_cases(sc, rng)
        ctx.count('harmonic:bipartite')
    return cases


def cases_of_desc(desc, rng):
    kind = desc.get('kind')
    sc = desc['scenario']
    if kind == 'normalize':
        return [normalize_case(sc_matrix(sc))]
    if kind == 'forms':
        sbs = {k: (v[0], {int(a): b for a, b in v[1]}) for k, v in desc['seeds_by_side'].items()}
        return [forms_case(sc, sbs)]
    if kind in ('harmonic', 'nonexp'):
        return harmonic_cases(dict(sc, n_iter=10), rng)
    return [case_of(sc)]


def run(ctx):
    evaluate(ctx, build_cases(ctx))


# ----------------------------------------------------------------------------------------------
# failing-input search: the specification on the implementation over the exhaustive small space
# ----------------------------------------------------------------------------------------------
def search(ctx, pending):
    rng = ctx.rng
    scs = []
    fixed = [2, 0, 5, 1]
    for n in (2, 3):
        for es in graphs.all_digraphs(n, loops=True):
            if not es:
                continue
            a = mk_matrix(n, n, es, [1 + (k % 3) for k in range(len(es))])
            for nodes in graphs.nonempty_subsets(n):
                for seeds in ({i: fixed[i] for i in nodes}, {i: fixed[i] + 1 for i in nodes}):
                    for algo in ('diffusion', 'dirichlet'):
                        for k in (1, 2, 3):
                            kind = ['arr', 'list', 'dict'][(k + len(nodes)) % 3]
                            scs.append(scenario(algo, a, values=make_form(kind, n, seeds), n_iter=k, alpha=[0.5, 1, 0.25][k - 1]))
    for nr, nc in [(1, 2), (2, 2), (2, 3)]:
        for es in graphs.all_bipartite(nr, nc):
            if es:
                scs += bip_scenarios(rng, mk_matrix(nr, nc, es, [1 + (k % 2) for k in range(len(es))]), 6)
    cases = [case_of(sc, with_run=False) for sc in scs]
    cases = [c for c in cases if c.spec]
    cases += harmonic_suite(Sub(ctx), rng, True, small_only=True)
    sub = Sub(ctx)
    evaluate(sub, cases)
    return sub.found()


def replay(ctx, payload):
    desc = payload.get('case') or {}
    if 'scenario' in desc:
        evaluate(ctx, cases_of_desc(desc, ctx.rng))
    else:
        evaluate(ctx, build_cases(ctx))
